// Generates `gen.rs`: the module tree of the proc-macro crate, bound by `#[path]` to the
// working-tree sources under $VERIF_REPO (default /repo), plus a dispatch table extracted from
// the `create_derive!` invocations of impl/src/lib.rs. Nothing of the sources is copied.
use std::{env, fs, path::PathBuf};

fn main() {
    let repo = env::var("VERIF_REPO").unwrap_or_else(|_| "/repo".into());
    println!("cargo:rerun-if-env-changed=VERIF_REPO");
    let src = PathBuf::from(&repo).join("impl/src");
    let lib = src.join("lib.rs");
    println!("cargo:rerun-if-changed={}", lib.display());
    let text = fs::read_to_string(&lib).expect("read lib.rs");

    let mut out = String::new();
    let mut derives: Vec<(String, String, String, Vec<String>)> = vec![];

    // --- module declarations (with their cfg attributes, possibly multi-line) ---
    let lines: Vec<&str> = text.lines().collect();
    let mut i = 0;
    let mut pending_attr = String::new();
    let mut in_attr = false;
    let mut depth = 0i32;
    while i < lines.len() {
        let l = lines[i];
        let t = l.trim();
        if in_attr {
            pending_attr.push_str(t);
            depth += t.matches('(').count() as i32 - t.matches(')').count() as i32;
            if depth <= 0 && t.ends_with(']') {
                in_attr = false;
                pending_attr.push('\n');
            }
            i += 1;
            continue;
        }
        if t.starts_with("#[cfg(") && !l.starts_with(' ') {
            depth = t.matches('(').count() as i32 - t.matches(')').count() as i32;
            pending_attr.push_str(t);
            if depth <= 0 && t.ends_with(']') {
                pending_attr.push('\n');
            } else {
                in_attr = true;
            }
            i += 1;
            continue;
        }
        let decl = t
            .strip_prefix("pub(crate) mod ")
            .map(|r| ("pub(crate) ", r))
            .or_else(|| t.strip_prefix("mod ").map(|r| ("", r)));
        if let (Some((vis, rest)), false) = (decl, l.starts_with(' ')) {
            if let Some(name) = rest.strip_suffix(';') {
                let raw = name.trim();
                let plain = raw.trim_start_matches("r#");
                let f1 = src.join(format!("{plain}.rs"));
                let f2 = src.join(plain).join("mod.rs");
                let f = if f1.exists() { f1 } else { f2 };
                out.push_str(&pending_attr);
                out.push_str(&format!(
                    "#[path = \"{}\"]\n#[allow(dead_code, unused_imports, unused)]\n{}mod {};\n",
                    f.display(),
                    vis,
                    raw
                ));
            }
        }
        pending_attr.clear();
        i += 1;
    }

    // --- create_derive!(...) invocations ---
    let mut rest = text.as_str();
    // skip the macro_rules definition
    if let Some(p) = rest.find("macro_rules! create_derive") {
        let after = &rest[p..];
        let end = after.find("\n);").map(|e| p + e + 3).unwrap_or(p);
        rest = &rest[end..];
    }
    while let Some(p) = rest.find("create_derive!(") {
        let after = &rest[p + "create_derive!(".len()..];
        let end = after.find(");").expect("unterminated create_derive");
        let body = &after[..end];
        let parts: Vec<String> = body
            .split(',')
            .map(|s| s.trim().to_string())
            .filter(|s| !s.is_empty())
            .collect();
        let feature = parts[0].trim_matches('"').to_string();
        let module = parts[1].clone();
        let trait_ = parts[2].clone();
        let attrs = parts[4..].to_vec();
        derives.push((feature, module, trait_, attrs));
        rest = &after[end..];
    }
    assert!(derives.len() >= 40, "dispatch extraction failed: {}", derives.len());

    out.push_str("\npub fn dispatch(trait_name: &str, ast: &syn::DeriveInput) -> Option<Result<proc_macro2::TokenStream, syn::Error>> {\n    match trait_name {\n");
    for (feature, module, trait_, _) in &derives {
        out.push_str(&format!(
            "        #[cfg(feature = \"{feature}\")]\n        \"{trait_}\" => Some(Output::process({module}::expand(ast, \"{trait_}\"))),\n"
        ));
    }
    out.push_str("        _ => None,\n    }\n}\n");
    out.push_str("pub const DERIVES: &[(&str, &str, &str, &[&str])] = &[\n");
    for (feature, module, trait_, attrs) in &derives {
        let a: Vec<String> = attrs.iter().map(|a| format!("\"{a}\"")).collect();
        out.push_str(&format!(
            "    (\"{trait_}\", \"{feature}\", \"{module}\", &[{}]),\n",
            a.join(", ")
        ));
    }
    out.push_str("];\n");
    // second inclusion of the fmt literal parser, to reach its pub(crate) functions
    out.push_str(&format!(
        "#[path = \"{}\"]\n#[allow(dead_code, unused)]\npub mod fmtparse;\n",
        src.join("fmt/parsing.rs").display()
    ));
    out.push_str(&format!("pub const REPO: &str = \"{repo}\";\n"));

    let dest = PathBuf::from(env::var("OUT_DIR").unwrap()).join("gen.rs");
    fs::write(dest, out).unwrap();
}
