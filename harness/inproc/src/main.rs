//! In-process conformance harness: the proc-macro crate's working-tree sources are compiled into
//! this binary by `#[path]` (see build.rs) and driven with ndjson cases on stdin.
//! Every call into the code under test runs under `catch_unwind`; a panic is data.
#![allow(clippy::all)]

use std::{
    io::{BufRead, Write},
    panic,
    sync::{mpsc, Mutex},
    time::Duration,
};

use serde_json::{json, Value};

trait Output {
    fn process(self) -> Result<proc_macro2::TokenStream, syn::Error>;
}
impl Output for proc_macro2::TokenStream {
    fn process(self) -> Result<proc_macro2::TokenStream, syn::Error> {
        Ok(self)
    }
}
impl Output for Result<proc_macro2::TokenStream, syn::Error> {
    fn process(self) -> Result<proc_macro2::TokenStream, syn::Error> {
        self
    }
}

include!(concat!(env!("OUT_DIR"), "/gen.rs"));

static LAST_PANIC: Mutex<Option<(String, String)>> = Mutex::new(None);

fn install_hook() {
    panic::set_hook(Box::new(|info| {
        let msg = if let Some(s) = info.payload().downcast_ref::<&str>() {
            s.to_string()
        } else if let Some(s) = info.payload().downcast_ref::<String>() {
            s.clone()
        } else {
            "<non-string payload>".to_string()
        };
        let loc = info
            .location()
            .map(|l| format!("{}:{}", l.file(), l.line()))
            .unwrap_or_default();
        *LAST_PANIC.lock().unwrap() = Some((msg, loc));
    }));
}

fn guarded<F: FnOnce() -> Value + panic::UnwindSafe>(f: F) -> Value {
    *LAST_PANIC.lock().unwrap() = None;
    match panic::catch_unwind(f) {
        Ok(v) => v,
        Err(_) => {
            let (msg, loc) = LAST_PANIC.lock().unwrap().take().unwrap_or_default();
            json!({"outcome": "panic", "msg": msg, "loc": loc})
        }
    }
}

// ---------------------------------------------------------------------------------------------
// expand
// ---------------------------------------------------------------------------------------------

struct ImplCollector {
    impls: Vec<Value>,
}
impl<'ast> syn::visit::Visit<'ast> for ImplCollector {
    fn visit_item_impl(&mut self, i: &'ast syn::ItemImpl) {
        use quote::ToTokens;
        let params: Vec<String> = i
            .generics
            .params
            .iter()
            .map(|p| p.to_token_stream().to_string())
            .collect();
        let kinds: Vec<&str> = i
            .generics
            .params
            .iter()
            .map(|p| match p {
                syn::GenericParam::Lifetime(_) => "lifetime",
                syn::GenericParam::Type(_) => "type",
                syn::GenericParam::Const(_) => "const",
            })
            .collect();
        let preds: Vec<String> = i
            .generics
            .where_clause
            .as_ref()
            .map(|w| {
                w.predicates
                    .iter()
                    .map(|p| p.to_token_stream().to_string())
                    .collect()
            })
            .unwrap_or_default();
        let (tr, tr_args) = match &i.trait_ {
            Some((_, p, _)) => {
                let last = p.segments.last().unwrap();
                let args = match &last.arguments {
                    syn::PathArguments::AngleBracketed(a) => a
                        .args
                        .iter()
                        .map(|x| x.to_token_stream().to_string())
                        .collect::<Vec<_>>(),
                    _ => vec![],
                };
                (
                    json!({"path": p.to_token_stream().to_string(), "name": last.ident.to_string()}),
                    args,
                )
            }
            None => (Value::Null, vec![]),
        };
        let mut fns = vec![];
        for it in &i.items {
            if let syn::ImplItem::Fn(f) = it {
                fns.push(json!({
                    "name": f.sig.ident.to_string(),
                    "sig": f.sig.to_token_stream().to_string(),
                    "body": f.block.to_token_stream().to_string(),
                    "attrs": f.attrs.iter().map(|a| a.to_token_stream().to_string()).collect::<Vec<_>>(),
                    "vis": f.vis.to_token_stream().to_string(),
                }));
            }
        }
        self.impls.push(json!({
            "params": params,
            "param_kinds": kinds,
            "where": preds,
            "trait": tr,
            "trait_args": tr_args,
            "self_ty": i.self_ty.to_token_stream().to_string(),
            "attrs": i.attrs.iter().map(|a| a.to_token_stream().to_string()).collect::<Vec<_>>(),
            "fns": fns,
            "text": i.to_token_stream().to_string(),
        }));
        syn::visit::visit_item_impl(self, i);
    }
}

/// Collects every path's first segment and every macro name of an expansion (for C15: which names does the
/// generated code reach without going through `derive_more::` / `::`?).
struct RefCollector {
    refs: std::collections::BTreeSet<(String, String, String)>,
    bound: std::collections::BTreeSet<String>,
}
impl RefCollector {
    fn path(&mut self, kind: &str, p: &syn::Path) {
        use quote::ToTokens;
        if p.leading_colon.is_some() {
            // `::krate::..`: resolved from the extern prelude - fine for `::core`, but `::std` / `::alloc` do not exist
            // in every crate (no_std): recorded with the marker kind "abs"
            let first = p.segments.first().unwrap().ident.to_string();
            self.refs.insert(("abs".to_string(), first, p.to_token_stream().to_string()));
            return;
        }
        let first = p.segments.first().unwrap().ident.to_string();
        self.refs.insert((kind.to_string(), first, p.to_token_stream().to_string()));
    }
}
impl<'ast> syn::visit::Visit<'ast> for RefCollector {
    fn visit_expr_path(&mut self, i: &'ast syn::ExprPath) {
        if i.qself.is_none() { self.path("expr", &i.path); }
        syn::visit::visit_expr_path(self, i);
    }
    fn visit_type_path(&mut self, i: &'ast syn::TypePath) {
        if i.qself.is_none() { self.path("type", &i.path); }
        syn::visit::visit_type_path(self, i);
    }
    fn visit_pat_tuple_struct(&mut self, i: &'ast syn::PatTupleStruct) {
        if i.qself.is_none() { self.path("pat", &i.path); }
        syn::visit::visit_pat_tuple_struct(self, i);
    }
    fn visit_pat_struct(&mut self, i: &'ast syn::PatStruct) {
        if i.qself.is_none() { self.path("pat", &i.path); }
        syn::visit::visit_pat_struct(self, i);
    }
    fn visit_expr_struct(&mut self, i: &'ast syn::ExprStruct) {
        if i.qself.is_none() { self.path("expr", &i.path); }
        syn::visit::visit_expr_struct(self, i);
    }
    fn visit_trait_bound(&mut self, i: &'ast syn::TraitBound) {
        self.path("bound", &i.path);
        syn::visit::visit_trait_bound(self, i);
    }
    fn visit_item_impl(&mut self, i: &'ast syn::ItemImpl) {
        if let Some((_, p, _)) = &i.trait_ { self.path("trait", p); }
        syn::visit::visit_item_impl(self, i);
    }
    fn visit_item_use(&mut self, i: &'ast syn::ItemUse) {
        use quote::ToTokens;
        if i.leading_colon.is_none() {
            if let syn::UseTree::Path(p) = &i.tree {
                self.refs.insert(("use".into(), p.ident.to_string(), i.tree.to_token_stream().to_string()));
            }
        }
    }
    fn visit_generics(&mut self, i: &'ast syn::Generics) {
        // type / const parameters introduced by the expansion itself (impl or fn generics)
        for p in &i.params {
            match p {
                syn::GenericParam::Type(t) => { self.bound.insert(t.ident.to_string()); }
                syn::GenericParam::Const(c) => { self.bound.insert(c.ident.to_string()); }
                _ => {}
            }
        }
        syn::visit::visit_generics(self, i);
    }
    fn visit_pat_ident(&mut self, i: &'ast syn::PatIdent) {
        self.bound.insert(i.ident.to_string());
        syn::visit::visit_pat_ident(self, i);
    }
    fn visit_macro(&mut self, i: &'ast syn::Macro) {
        use quote::ToTokens;
        if i.path.leading_colon.is_none() {
            let first = i.path.segments.first().unwrap().ident.to_string();
            self.refs.insert(("macro".into(), first, i.path.to_token_stream().to_string()));
        }
        // look inside the macro arguments too (write!/format_args!/matches! bodies are expressions)
        if let Ok(args) = i.parse_body_with(syn::punctuated::Punctuated::<syn::Expr, syn::Token![,]>::parse_terminated) {
            for a in args.iter() { syn::visit::visit_expr(self, a); }
        }
    }
}

fn do_expand(case: &Value) -> Value {
    let derive = case["derive"].as_str().unwrap_or("").to_string();
    let item = case["item"].as_str().unwrap_or("").to_string();
    let want_tokens = case.get("tokens").and_then(|v| v.as_bool()).unwrap_or(true);
    let mut ast: syn::DeriveInput = match syn::parse_str(&item) {
        Ok(a) => a,
        Err(e) => return json!({"outcome": "parse_error", "msg": e.to_string()}),
    };
    // "group_types": every field type arrives as an invisible group (`Type::Group`), the form a `$t:ty` fragment of a
    // macro_rules! macro has when the item is generated by a macro
    if case.get("group_types").and_then(|v| v.as_bool()).unwrap_or(false) {
        fn wrap(fields: &mut syn::Fields) {
            for f in fields.iter_mut() {
                let old = std::mem::replace(&mut f.ty, syn::Type::Verbatim(Default::default()));
                f.ty = syn::Type::Group(syn::TypeGroup { group_token: Default::default(), elem: Box::new(old) });
            }
        }
        match &mut ast.data {
            syn::Data::Struct(d) => wrap(&mut d.fields),
            syn::Data::Enum(d) => d.variants.iter_mut().for_each(|v| wrap(&mut v.fields)),
            syn::Data::Union(d) => d.fields.named.iter_mut().for_each(|f| {
                let old = std::mem::replace(&mut f.ty, syn::Type::Verbatim(Default::default()));
                f.ty = syn::Type::Group(syn::TypeGroup { group_token: Default::default(), elem: Box::new(old) });
            }),
        }
    }
    // "raw_names": every field and variant name is spelled as a raw identifier (`r#a` denotes the same name as `a`)
    if case.get("raw_names").and_then(|v| v.as_bool()).unwrap_or(false) {
        use syn::ext::IdentExt as _;
        fn raw(id: &mut syn::Ident) {
            let plain = id.unraw().to_string();
            if !matches!(plain.as_str(), "_" | "self" | "Self" | "super" | "crate") {
                *id = syn::Ident::new_raw(&plain, id.span());
            }
        }
        fn raw_fields(fields: &mut syn::Fields) {
            for f in fields.iter_mut() {
                if let Some(id) = f.ident.as_mut() {
                    raw(id);
                }
            }
        }
        match &mut ast.data {
            syn::Data::Struct(d) => raw_fields(&mut d.fields),
            syn::Data::Enum(d) => d.variants.iter_mut().for_each(|v| {
                raw(&mut v.ident);
                raw_fields(&mut v.fields);
            }),
            syn::Data::Union(d) => d.fields.named.iter_mut().for_each(|f| {
                if let Some(id) = f.ident.as_mut() {
                    raw(id);
                }
            }),
        }
    }
    guarded(panic::AssertUnwindSafe(move || {
        match dispatch(&derive, &ast) {
            None => json!({"outcome": "no_such_derive"}),
            Some(Err(e)) => json!({"outcome": "err", "msg": e.to_string()}),
            Some(Ok(ts)) => {
                let text = ts.to_string();
                let mut coll = ImplCollector { impls: vec![] };
                let parsed = syn::parse2::<syn::File>(ts);
                match parsed {
                    Ok(f) => {
                        // the argument lists of the formatting macros the expansion calls must be lists of expressions
                        // (syn keeps a macro's body as opaque tokens: `write!(f, "lit", , )` would pass unnoticed)
                        struct MacroArgs(Option<String>);
                        impl<'ast> syn::visit::Visit<'ast> for MacroArgs {
                            fn visit_macro(&mut self, m: &'ast syn::Macro) {
                                let name = m.path.segments.last().map(|s| s.ident.to_string()).unwrap_or_default();
                                if matches!(name.as_str(), "write" | "writeln" | "format_args" | "panic" | "unreachable" | "matches") {
                                    // (an argument may be named, and format_args! takes ANY identifier as a name, keywords included)
                                    struct Arg;
                                    impl syn::parse::Parse for Arg {
                                        fn parse(input: syn::parse::ParseStream) -> syn::Result<Self> {
                                            use syn::ext::IdentExt as _;
                                            if input.peek(syn::Ident::peek_any) && input.peek2(syn::Token![=]) && !input.peek2(syn::Token![==]) {
                                                input.call(syn::Ident::parse_any)?;
                                                input.parse::<syn::Token![=]>()?;
                                            }
                                            input.parse::<syn::Expr>().map(|_| Arg)
                                        }
                                    }
                                    let r = m.parse_body_with(syn::punctuated::Punctuated::<Arg, syn::Token![,]>::parse_terminated);
                                    if let Err(e) = r {
                                        if self.0.is_none() && name != "matches" {
                                            self.0 = Some(format!("{}!({}): {}", name, m.tokens, e));
                                        }
                                    }
                                }
                                syn::visit::visit_macro(self, m);
                            }
                        }
                        let mut ma = MacroArgs(None);
                        syn::visit::Visit::visit_file(&mut ma, &f);
                        if let Some(msg) = ma.0 {
                            return json!({"outcome": "ok_unparsable", "msg": msg, "tokens": text});
                        }
                        syn::visit::Visit::visit_file(&mut coll, &f);
                        let mut rc = RefCollector { refs: Default::default(), bound: Default::default() };
                        syn::visit::Visit::visit_file(&mut rc, &f);
                        let refs: Vec<Value> = rc.refs.iter().map(|(k, a, b)| json!([k, a, b])).collect();
                        let bound: Vec<&String> = rc.bound.iter().collect();
                        let mut v = json!({"outcome": "ok", "impls": coll.impls, "n_items": f.items.len(), "refs": refs, "bound": bound});
                        if want_tokens {
                            v["tokens"] = json!(text);
                        }
                        v
                    }
                    Err(e) => json!({"outcome": "ok_unparsable", "msg": e.to_string(), "tokens": text}),
                }
            }
        }
    }))
}

// ---------------------------------------------------------------------------------------------
// parse-fmt
// ---------------------------------------------------------------------------------------------

fn arg_json(a: &fmtparse::Argument<'_>) -> Value {
    match a {
        fmtparse::Argument::Integer(i) => json!({"int": i.to_string()}),
        fmtparse::Argument::Identifier(s) => json!({"id": s}),
    }
}
fn count_json(c: &fmtparse::Count<'_>) -> Value {
    match c {
        fmtparse::Count::Integer(i) => json!({"int": i.to_string()}),
        fmtparse::Count::Parameter(p) => json!({"param": arg_json(p)}),
    }
}

fn do_parse_fmt(case: &Value) -> Value {
    let lit = case["lit"].as_str().unwrap_or("").to_string();
    guarded(panic::AssertUnwindSafe(move || {
        match fmtparse::format_string(&lit) {
            None => json!({"outcome": "none"}),
            Some(fs) => {
                let formats: Vec<Value> = fs
                    .formats
                    .iter()
                    .map(|f| {
                        let spec = f.spec.as_ref().map(|s| {
                            json!({
                                "fill": s.align.and_then(|(f, _)| f).map(|c| c.to_string()),
                                "align": s.align.map(|(_, a)| format!("{:?}", a)),
                                "sign": s.sign.map(|x| format!("{:?}", x)),
                                "alt": s.alternate.is_some(),
                                "zero": s.zero_padding.is_some(),
                                "width": s.width.as_ref().map(count_json),
                                "prec": s.precision.as_ref().map(|p| match p {
                                    fmtparse::Precision::Star => json!("star"),
                                    fmtparse::Precision::Count(c) => count_json(c),
                                }),
                                "ty": format!("{:?}", s.ty),
                                "trait": s.ty.trait_name(),
                            })
                        });
                        json!({"arg": f.arg.as_ref().map(arg_json), "spec": spec})
                    })
                    .collect();
                json!({"outcome": "some", "formats": formats})
            }
        }
    }))
}

// ---------------------------------------------------------------------------------------------
// split-args : Punctuated<parsing::Expr, ,> vs Punctuated<syn::Expr, ,> on the same tokens
// ---------------------------------------------------------------------------------------------

struct DmList(Vec<(bool, String)>);
impl syn::parse::Parse for DmList {
    fn parse(input: syn::parse::ParseStream) -> syn::Result<Self> {
        use quote::ToTokens;
        let p = input.parse_terminated(<parsing::Expr as syn::parse::Parse>::parse, syn::Token![,])?;
        Ok(DmList(
            p.iter()
                .map(|e| (e.ident().is_some(), e.to_token_stream().to_string()))
                .collect(),
        ))
    }
}
struct SynList(Vec<(bool, String)>);
impl syn::parse::Parse for SynList {
    fn parse(input: syn::parse::ParseStream) -> syn::Result<Self> {
        use quote::ToTokens;
        let p = input.parse_terminated(<syn::Expr as syn::parse::Parse>::parse, syn::Token![,])?;
        Ok(SynList(
            p.iter()
                .map(|e| {
                    let is_ident = match e {
                        syn::Expr::Path(p) => {
                            p.qself.is_none() && p.attrs.is_empty() && p.path.get_ident().is_some()
                        }
                        _ => false,
                    };
                    (is_ident, e.to_token_stream().to_string())
                })
                .collect(),
        ))
    }
}

fn list_json(r: syn::Result<Vec<(bool, String)>>) -> Value {
    match r {
        Ok(v) => json!({"ok": true, "args": v.iter().map(|(i, s)| json!({"ident": i, "text": s})).collect::<Vec<_>>()}),
        Err(e) => json!({"ok": false, "msg": e.to_string()}),
    }
}

fn do_split_args(case: &Value) -> Value {
    let toks = case["tokens"].as_str().unwrap_or("").to_string();
    let ts: proc_macro2::TokenStream = match toks.parse() {
        Ok(t) => t,
        Err(e) => return json!({"outcome": "lex_error", "msg": e.to_string()}),
    };
    let ts2 = ts.clone();
    let norm = ts.to_string();
    let dm = guarded(panic::AssertUnwindSafe(move || {
        list_json(syn::parse2::<DmList>(ts).map(|l| l.0))
    }));
    let sy = list_json(syn::parse2::<SynList>(ts2).map(|l| l.0));
    json!({"outcome": "done", "dm": dm, "syn": sy, "norm": norm})
}

// ---------------------------------------------------------------------------------------------
// parse-attr : the whole `"literal", args...` attribute through FmtAttribute::parse (cfg(derive_more_verif) hook of
// impl/src/fmt/mod.rs): per argument its alias, whether it is a plain identifier, its tokens
// ---------------------------------------------------------------------------------------------

fn do_parse_attr(case: &Value) -> Value {
    let toks = case["tokens"].as_str().unwrap_or("").to_string();
    let ts: proc_macro2::TokenStream = match toks.parse() {
        Ok(t) => t,
        Err(e) => return json!({"outcome": "lex_error", "msg": e.to_string()}),
    };
    guarded(panic::AssertUnwindSafe(move || match fmt::verif_parse_fmt_attribute(ts) {
        Ok(args) => json!({"outcome": "ok", "args": args.iter().map(|(a, i, t)| json!({"alias": a, "ident": i, "tokens": t})).collect::<Vec<_>>()}),
        Err(e) => json!({"outcome": "err", "msg": e.to_string()}),
    }))
}

// ---------------------------------------------------------------------------------------------

fn run_case(cmd: &str, case: &Value) -> Value {
    match cmd {
        "expand" => do_expand(case),
        "parse-fmt" => do_parse_fmt(case),
        "split-args" => do_split_args(case),
        "parse-attr" => do_parse_attr(case),
        _ => json!({"outcome": "bad_command"}),
    }
}

fn spawn_worker(cmd: String) -> (mpsc::Sender<String>, mpsc::Receiver<String>) {
    let (tx_in, rx_in) = mpsc::channel::<String>();
    let (tx_out, rx_out) = mpsc::channel::<String>();
    std::thread::Builder::new()
        .stack_size(64 << 20)
        .spawn(move || {
            while let Ok(line) = rx_in.recv() {
                let case: Value = match serde_json::from_str(&line) {
                    Ok(v) => v,
                    Err(e) => {
                        let _ = tx_out.send(json!({"outcome": "bad_json", "msg": e.to_string()}).to_string());
                        continue;
                    }
                };
                // a case may override the command: {"cmd": "..."}
                let c = case.get("cmd").and_then(|v| v.as_str()).unwrap_or(&cmd).to_string();
                let mut out = run_case(&c, &case);
                if let Some(k) = case.get("key") {
                    out["key"] = k.clone();
                }
                if tx_out.send(out.to_string()).is_err() {
                    break;
                }
            }
        })
        .unwrap();
    (tx_in, rx_out)
}

fn main() {
    install_hook();
    let args: Vec<String> = std::env::args().collect();
    let cmd = args.get(1).cloned().unwrap_or_default();
    if cmd == "derives" {
        for (t, f, m, a) in DERIVES {
            println!("{}", json!({"trait": t, "feature": f, "module": m, "attrs": a}));
        }
        return;
    }
    let deadline_ms: u64 = std::env::var("VERIF_CASE_DEADLINE_MS")
        .ok()
        .and_then(|s| s.parse().ok())
        .unwrap_or(10_000);
    let stdin = std::io::stdin();
    let stdout = std::io::stdout();
    let mut out = std::io::BufWriter::new(stdout.lock());
    let (mut tx, mut rx) = spawn_worker(cmd.clone());
    for line in stdin.lock().lines() {
        let line = match line {
            Ok(l) => l,
            Err(_) => break,
        };
        if line.trim().is_empty() {
            continue;
        }
        let key = serde_json::from_str::<Value>(&line)
            .ok()
            .and_then(|v| v.get("key").cloned())
            .unwrap_or(Value::Null);
        // announce the case first, so that a hard crash (stack overflow => SIGSEGV/abort) can be
        // attributed by the driver to the case being processed
        writeln!(out, "{}", json!({"begin": key})).unwrap();
        out.flush().unwrap();
        tx.send(line).unwrap();
        match rx.recv_timeout(Duration::from_millis(deadline_ms)) {
            Ok(res) => {
                writeln!(out, "{}", res).unwrap();
            }
            Err(mpsc::RecvTimeoutError::Timeout) => {
                writeln!(out, "{}", json!({"key": key, "outcome": "timeout", "deadline_ms": deadline_ms})).unwrap();
                // abandon the stuck worker, start a fresh one
                let (t, r) = spawn_worker(cmd.clone());
                tx = t;
                rx = r;
            }
            Err(mpsc::RecvTimeoutError::Disconnected) => {
                writeln!(out, "{}", json!({"key": key, "outcome": "worker_died"})).unwrap();
                let (t, r) = spawn_worker(cmd.clone());
                tx = t;
                rx = r;
            }
        }
    }
    out.flush().unwrap();
    std::process::exit(0);
}
