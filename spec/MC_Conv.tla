--------------------------- MODULE MC_Conv ---------------------------
EXTENDS Conv, Json
CONSTANTS MaxVariants, MaxFields, EmitCases
VARIABLES kind, vs, into

Attrs == {"none", "from", "skip", "types", "forward", "empty"}
NoInto == [n |-> 0, forms |-> {}, sattr |-> FALSE, skip |-> {}, fattr |-> 0, types |-> FALSE, split |-> "one"]
Init == kind = "init" /\ vs = <<>> /\ into = NoInto
StartFromStruct == kind = "init" /\ kind' = "from_struct" /\ into' = into
                   /\ \E n \in 0..MaxFields, a \in {"none", "types", "forward"} :
                        (a = "types" => n >= 1) /\ vs' = <<[n |-> n, attr |-> a]>>
StartFromEnum == kind = "init" /\ kind' = "from_enum" /\ vs' = <<>> /\ into' = into
AddVariant == kind = "from_enum" /\ Len(vs) < MaxVariants /\ \E n \in 0..MaxFields, a \in Attrs :
                 /\ (a \in {"types", "empty"} => n >= 1)
                 \* two unit variants with #[from] would both give From<()>: not a valid input
                 /\ ~(n = 0 /\ a \in {"from", "forward"} /\ \E j \in 1..Len(vs) : vs[j].n = 0 /\ vs[j].attr \in {"from", "forward"})
                 /\ ~(a = "forward" /\ \E j \in 1..Len(vs) : vs[j].attr = "forward" /\ vs[j].n = n)    \* overlapping blanket impls
                 /\ vs' = Append(vs, [n |-> n, attr |-> a]) /\ UNCHANGED <<kind, into>>
StartInto == kind = "init" /\ kind' = "into" /\ vs' = vs
             /\ \E n \in 0..MaxFields, forms \in SUBSET {"owned", "ref", "ref_mut"}, sa \in BOOLEAN,
                  skip \in SUBSET (1..MaxFields), fa \in 0..MaxFields, ty \in BOOLEAN, sp \in {"one", "each", "rev"} :
                  /\ (sp # "one" => Cardinality(forms) >= 2)
                  /\ skip \subseteq 1..n /\ fa <= n /\ (fa # 0 => fa \notin skip)
                  /\ (forms # {} => sa) /\ (ty => sa /\ forms = {} /\ n - Cardinality(skip) >= 1)
                  /\ into' = [n |-> n, forms |-> forms, sattr |-> sa, skip |-> skip, fattr |-> fa, types |-> ty, split |-> sp]
Next == StartFromStruct \/ StartFromEnum \/ AddVariant \/ StartInto
Spec == Init /\ [][Next]_<<kind, vs, into>>

P_C08_ImplSet   == kind \in {"from_struct", "from_enum"} => ImplSet(vs, kind = "from_enum")
P_C08_RoundTrip == kind = "into" => RoundTrip(into.n)
P_C08_IntoMerge == kind = "into" => ImplMergedForms(Spelling(into.forms, into.split)) = into.forms
P_C08_Order     == kind = "into" =>
    LET c == IntoComponents(into.n, into.skip) IN \A i, j \in 1..Len(c) : i < j => c[i] < c[j]
Emit == EmitCases /\ kind # "init" /\ (kind = "from_enum" => vs # <<>>) =>
    PrintT(<<"CASE", ToJson([kind |-> kind, vs |-> vs, into |-> into,
                             fromImpls |-> IF kind = "into" THEN {} ELSE DocFromImpls(vs, kind = "from_enum"),
                             intoImpls |-> IF kind = "into" THEN DocIntoImpls(into.n, into.forms, into.sattr, into.fattr) ELSE {},
                             intoComponents |-> IF kind = "into" THEN IntoComponents(into.n, into.skip) ELSE <<>>])>>)
=============================================================================
