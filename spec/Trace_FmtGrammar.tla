--------------------------- MODULE Trace_FmtGrammar ---------------------------
(* Trace validation: events recorded from the real literal parser           *)
(* ({id, chars, outcome, sig}) are consumed one per step; Std* is evaluated  *)
(* on the logged characters.  A mismatch never blocks: it is collected in   *)
(* `bad` so one deviation cannot hide the rest of the trace.                *)
EXTENDS FmtGrammar, Json, IOUtils
Rec == ndJsonDeserialize(IOEnv.TRACE)
VARIABLES l, bad, oos, finished

RECURSIVE JoinDot(_)
JoinDot(cs) == IF cs = <<>> THEN "" ELSE IF Len(cs) = 1 THEN cs[1] ELSE cs[1] \o "." \o JoinDot(Tail(cs))
ArgSig(a) == CASE a.k = "none" -> "next" [] a.k = "int" -> "int:" \o ToString(Val(a.txt))
               [] a.k = "id" -> "id:" \o JoinDot(a.txt)
CountSig(c) == CASE c.k = "none" -> "none" [] c.k = "int" -> "int:" \o ToString(Val(c.arg.txt))
                 [] c.k = "param" -> "param:" \o ArgSig(c.arg)
Sig(ph) == IF ~ph.hasSpec THEN ArgSig(ph.arg) \o "|nospec"
           ELSE ArgSig(ph.arg) \o "|fill:" \o (IF ph.spec.fill THEN ph.spec.fillc ELSE "none")
                \o "|" \o ph.spec.align \o "|" \o ph.spec.sign
                \o "|" \o (IF ph.spec.alt THEN "alt" ELSE "noalt")
                \o "|" \o (IF ph.spec.zero THEN "zero" ELSE "nozero")
                \o "|" \o CountSig(ph.spec.width)
                \o "|" \o (IF ph.spec.star THEN "star" ELSE CountSig(ph.spec.prec))
                \o "|" \o ph.spec.ty
Sigs(phs) == [j \in 1..Len(phs) |-> Sig(phs[j])]

Bare(ph) == ~ph.hasSpec \/ ~HasModifiers(ph.spec)

Verdict(e) ==
    LET s == e.chars
        r == StdParse(s)
    IN  IF e.outcome \notin {"some", "none"} THEN "internal_failure"
        ELSE IF r.ok /\ r.lenient THEN "oos"
        ELSE IF r.ok /\ IntsSmall(r.phs)
             THEN (IF e.outcome = "some" /\ e.sig = Sigs(r.phs) THEN "ok" ELSE "mismatch")
        ELSE IF ~r.ok /\ e.outcome = "some"
             THEN (IF Len(e.sig) = 1 THEN "accepts_rejected_single" ELSE "accepts_rejected")
        ELSE "ok"

Init == l = 1 /\ bad = <<>> /\ oos = 0 /\ finished = FALSE
Step == /\ l <= Len(Rec)
        /\ LET e == Rec[l]
               v == Verdict(e)
           IN /\ bad' = IF v \in {"ok", "oos"} THEN bad
                        ELSE Append(bad, [id |-> e.id, why |-> v,
                                          expected |-> IF StdParse(e.chars).ok THEN Sigs(StdParse(e.chars).phs)
                                                       ELSE <<"<rejected>">>])
              /\ oos' = IF v = "oos" THEN oos + 1 ELSE oos
        /\ l' = l + 1
        /\ UNCHANGED finished
Finish == /\ l = Len(Rec) + 1 /\ ~finished
          /\ finished' = TRUE
          /\ PrintT(<<"DONE", ToJson([consumed |-> l - 1, oos |-> oos, bad |-> Len(bad)])>>)
          /\ \A i \in 1..Len(bad) : PrintT(<<"BAD", ToJson(bad[i])>>)
          /\ UNCHANGED <<l, bad, oos>>
Next == Step \/ Finish
Spec == Init /\ [][Next]_<<l, bad, oos, finished>>
=============================================================================
