--------------------------- MODULE Hygiene ---------------------------
(***************************************************************************)
(* C15.  Expansions depend on no name from the caller's scope.             *)
(*                                                                         *)
(* An expansion is a set of references.  The harness extracts, from the    *)
(* real expansion of every code path, the references that are NOT reached  *)
(* through `derive_more::..`, `::..`, `Self`, a binding of the expansion   *)
(* itself or the user's own tokens: Bare == {<<path, kind, name>>}, kind   *)
(* \in {"expr","type","pat","bound","trait","macro","use","abs"} ("abs": an *)
(* absolute path `::krate::..`; constants                                  *)
(* module HygieneData, generated).                                         *)
(* A scope is what the caller's module provides: its prelude (or none) and *)
(* the names it defines itself.                                            *)
(***************************************************************************)
EXTENDS Naturals, Sequences, FiniteSets, TLC, HygieneData

\* names the language resolves without any scope: primitive types and built-in attributes of paths
Primitive == {"i8", "i16", "i32", "i64", "i128", "isize", "u8", "u16", "u32", "u64", "u128", "usize", "bool", "char",
              "str", "f32", "f64"}
PreludeNames == {"Option", "Some", "None", "Result", "Ok", "Err", "String", "Vec", "Box", "Clone", "Copy", "Send", "Sync",
                 "Sized", "Drop", "Fn", "FnMut", "FnOnce", "drop", "ToOwned", "ToString", "AsRef", "AsMut", "Into", "From",
                 "Default", "Iterator", "Extend", "IntoIterator", "DoubleEndedIterator", "ExactSizeIterator", "Eq", "Ord",
                 "PartialEq", "PartialOrd", "TryFrom", "TryInto", "FromIterator"}
PreludeMacros == {"write", "writeln", "format_args", "format", "matches", "panic", "unreachable", "unimplemented", "todo",
                  "assert", "assert_eq", "debug_assert", "vec", "concat", "stringify", "println", "compile_error"}
ExternCrates == {"core", "std", "alloc"}

\* scope = [prelude : BOOLEAN, shadows : set of names defined locally, nostd : BOOLEAN (the caller's crate is #![no_std])]
Scopes == {[prelude |-> TRUE, shadows |-> {}, nostd |-> FALSE],                      \* ordinary module
           [prelude |-> FALSE, shadows |-> {}, nostd |-> FALSE],                     \* #[no_implicit_prelude]
           [prelude |-> TRUE, shadows |-> {}, nostd |-> TRUE]}                       \* a #![no_std] crate
          \cup {[prelude |-> TRUE, shadows |-> {n}, nostd |-> FALSE] : n \in PreludeNames \cup PreludeMacros \cup ExternCrates}

\* does the bare reference reach the item the macro author meant?
Resolves(r, sc) ==
    LET name == r[3] IN
    IF r[2] = "abs" THEN (name = "core" \/ (name \in {"std", "alloc"} /\ ~sc.nostd))   \* `::std::..` needs a crate that links std
    ELSE IF name \in Primitive THEN TRUE
    ELSE IF name \in sc.shadows THEN FALSE                           \* the caller's item is found instead
    ELSE IF name \in PreludeNames THEN sc.prelude
    ELSE IF name \in PreludeMacros THEN r[2] = "macro"               \* macro_use prelude survives no_implicit_prelude
    ELSE IF name \in ExternCrates THEN sc.prelude                    \* extern prelude is also switched off
    ELSE FALSE                                                       \* not reachable from an arbitrary scope at all
Hygienic(r) == \A sc \in Scopes : Resolves(r, sc)
=============================================================================
