--------------------------- MODULE MC_ErrorSource ---------------------------
EXTENDS ErrorSource, Json
CONSTANTS MaxFields, EmitCases, FullNamed3
VARIABLES l, named, isVariant, comp

FieldSpace(nm) ==
    {f \in [attr : Attrs, name : IF nm THEN Names ELSE {"other"}, ty : Types] :
        \* `source` on a Backtrace-typed field is not a supported input (it is no Error)
        /\ ~(SrcFlag(f.attr) = "yes" /\ f.ty = "bt")
        \* the two-parameter spellings only where they matter (keeps the space small)
        /\ (f.attr \in {"nb_source", "source_nb"} => f.ty \in {"err", "generic"})
        /\ (f.attr \in {"ns_backtrace", "backtrace_ns"} => f.ty \in {"err", "bt"})
        \* an error type merely CALLED Backtrace: where it is told not to be the backtrace (or left alone)
        /\ (f.ty = "bterr" => f.attr \in {"not_backtrace", "nb_source", "source_nb", "none", "ignore"})}

Init == /\ l = <<>> /\ named \in BOOLEAN /\ isVariant \in BOOLEAN
        /\ comp \in {"unit", "ignored", "sourced", "ignored_src"} /\ (~isVariant => comp = "unit")
Add  == /\ Len(l) < MaxFields
        /\ \E f \in FieldSpace(named) :
             /\ (named /\ f.name # "other" => \A i \in 1..Len(l) : l[i].name # f.name)   \* distinct names
             /\ (Len(l) = 2 /\ named /\ ~FullNamed3 => f.ty \in {"err", "bt"} /\ f.attr \in {"none", "ignore", "source"})
             /\ l' = Append(l, f)
        /\ UNCHANGED <<named, isVariant, comp>>
Next == Add
Spec == Init /\ [][Next]_<<l, named, isVariant, comp>>

\* what the documentation supports: the detected backtrace field is a Backtrace (or is the source
\* itself, whose provide() is then delegated to), the source field is an error
Supported ==
    LET s == DocSource(l, named)
        b == DocBacktrace(l, named)
    IN  /\ (b[1] = "field" => l[b[2]].ty = "bt" \/ (s = b /\ l[b[2]].ty # "box"))   \* Box<dyn Error>: no provide()
        /\ (s[1] = "field" => l[s[2]].ty # "bt")
        \* provide() forwards to the source with `Error::provide(&self.source, ..)`, which a
        \* `Box<dyn Error>` does not offer: boxed sources are only supported without a backtrace
        /\ (s[1] = "field" /\ b[1] = "field" => l[s[2]].ty # "box")

P_C09_Select       == Supported => Select(l, named, isVariant)
P_C09_Exhaustive   == isVariant => Exhaustive(l, named, comp)
P_C09_NoPanic      == NoPanic(l, named)
P_C09_Bound        == Supported => BoundRight(l, named)
P_C09_IgnoreStable == IgnoreStable(l, named)
P_Ext_Provide      == Supported => Provide(l, named, isVariant)
\* the rules never pick an ignored field, nor one marked not(source)
P_C09_Sane == LET s == DocSource(l, named) IN
              s[1] = "field" => s[2] \in Enabled(l) /\ SrcFlag(l[s[2]].attr) # "no"

CaseRec == [l |-> l, named |-> named, isVariant |-> isVariant, comp |-> comp, compDoc |-> DocCompanion(comp), doc |-> DocSource(l, named),
            bt |-> DocBacktrace(l, named), impl |-> ImplSource(l, named, isVariant), supported |-> Supported,
            provide |-> DocProvide(l, named)]
Emit == EmitCases => PrintT(<<"CASE", ToJson(CaseRec)>>)
=============================================================================
