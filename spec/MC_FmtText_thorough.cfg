SPECIFICATION Spec
CONSTANTS
  EmitCases = TRUE
  MaxPieces = 3
  MaxArgs = 2
  PhTraits = {"Display", "Pointer", "LowerHex"}
  NFields = 2
INVARIANTS
  P_C02_Text
  Emit
CHECK_DEADLOCK FALSE
