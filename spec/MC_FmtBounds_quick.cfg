SPECIFICATION Spec
CONSTANTS
  EmitCases = TRUE
  Traits = {"Display", "Debug"}
  UseTraits = {"Display", "Debug", "LowerHex"}
  MaxUses = 1
INVARIANTS
  P_C04_Sufficient
  P_C04_NotExcessive
  Emit
CHECK_DEADLOCK FALSE
