--------------------------- MODULE Conv ---------------------------
(***************************************************************************)
(* C08.  From / Into / Constructor: which impls exist, and that component  *)
(* i <-> declared field i.                                                 *)
(*                                                                         *)
(* From on an enum: variant = [n : 0..3 fields, attr : "none" | "from" |   *)
(*   "skip" | "types" | "forward" | "empty"].  From on a struct: one such  *)
(*   variant.  "empty" is `#[from()]`: a type list with no type in it -    *)
(*   one impl per listed type is none at all, and it is an annotation.     *)
(* Into on a struct: [n, sattr : SUBSET {"owned","ref","ref_mut"} or       *)
(*   "none"/"types", skip : SUBSET 1..n, fattr : 0..n (the field carrying  *)
(*   a field-level #[into], 0 = none)].                                    *)
(* An impl is named by what it converts from/to:                           *)
(*   <<"tuple", v>>   From<(field types of variant v)>                     *)
(*   <<"types", v>>   From<each listed type>                               *)
(*   <<"forward", v>> the generic From<(__FromT0, ..)>                     *)
(***************************************************************************)
EXTENDS Naturals, Sequences, FiniteSets, TLC

Explicit(vs) == \E j \in 1..Len(vs) : vs[j].attr \in {"from", "types", "forward", "empty"}

\* the documented impl set of derive(From)
DocFromImpls(vs, isEnum) ==
    {<<(CASE vs[j].attr = "types" -> "types" [] vs[j].attr = "forward" -> "forward" [] OTHER -> "tuple"), j>> :
        j \in {j \in 1..Len(vs) :
                 /\ vs[j].attr \notin {"skip", "empty"}
                 /\ (vs[j].attr = "none" =>
                        /\ ~(isEnum /\ Explicit(vs))              \* none for un-annotated variants once any is annotated
                        /\ ~(isEnum /\ vs[j].n = 0))}}            \* none for unit variants

\* Impl: from.rs - `has_explicit_from` is computed over ALL variants before any is expanded
ImplFromImpls(vs, isEnum) ==
    LET hasExplicit == isEnum /\ Explicit(vs) IN
    {<<(CASE vs[j].attr = "types" -> "types" [] vs[j].attr = "forward" -> "forward" [] OTHER -> "tuple"), j>> :
        j \in {j \in 1..Len(vs) :
                 CASE vs[j].attr = "types"   -> TRUE
                   [] vs[j].attr = "from"    -> TRUE
                   [] vs[j].attr = "forward" -> TRUE
                   [] vs[j].attr = "skip"    -> FALSE
                   [] vs[j].attr = "empty"   -> FALSE                     \* attr::Types with no entries: the loop runs zero times
                   [] vs[j].attr = "none"    -> ~(hasExplicit \/ (isEnum /\ vs[j].n = 0))}}

ImplSet(vs, isEnum) == ImplFromImpls(vs, isEnum) = DocFromImpls(vs, isEnum)

\* component i of the source goes into declared field i; conversions apply one From::from per field
FieldMap(n) == [i \in 1..n |-> i]

(***************************************************************************)
(* Into                                                                    *)
(***************************************************************************)
\* impls: <<form, "tuple">> the tuple of non-skipped fields in declaration order, per reference form;
\*        <<form, "field", f>> the single-field conversion of the field carrying #[into]
DocIntoImpls(n, forms, hasStructAttr, fattr) ==
    LET fs == IF forms = {} THEN {"owned"} ELSE forms
        tupleImpls == IF fattr = 0 \/ hasStructAttr THEN {<<f, "tuple">> : f \in fs} ELSE {}
        fieldImpls == IF fattr # 0 THEN {<<"owned", "field", fattr>>} ELSE {}
    IN tupleImpls \cup fieldImpls
\* The reference forms may be spread over several #[into(...)] attributes, in any order: into.rs `merge_attrs` folds
\* them into one record of three flags, each flag the OR of that flag in every attribute.
FormFlags(f) == [owned |-> f = "owned", ref |-> f = "ref", ref_mut |-> f = "ref_mut"]
MergeForms(prev, new) == [owned   |-> prev.owned \/ new.owned,
                          ref     |-> prev.ref \/ new.ref,
                          ref_mut |-> prev.ref_mut \/ new.ref_mut]
ImplMergedForms(attrs) ==          \* attrs: Seq of sets of forms, one per attribute
    LET One(a) == [owned |-> "owned" \in a, ref |-> "ref" \in a, ref_mut |-> "ref_mut" \in a]
        RECURSIVE Go(_, _)
        Go(acc, i) == IF i > Len(attrs) THEN acc ELSE Go(MergeForms(acc, One(attrs[i])), i + 1)
        r == Go(One({}), 1)
    IN  {f \in {"owned", "ref", "ref_mut"} : (f = "owned" /\ r.owned) \/ (f = "ref" /\ r.ref) \/ (f = "ref_mut" /\ r.ref_mut)}
\* the attribute sequence a spelling stands for ("one": a single attribute; "each": one attribute per form in the order
\* owned, ref, ref_mut; "rev": the same reversed)
Spelling(forms, split) ==
    LET ord == <<"owned", "ref", "ref_mut">>
        sel == SelectSeq(ord, LAMBDA f : f \in forms)
        n == Len(sel)
    IN  CASE split = "one"  -> <<forms>>
          [] split = "each" -> [i \in 1..n |-> {sel[i]}]
          [] split = "rev"  -> [i \in 1..n |-> {sel[n + 1 - i]}]

\* the components of the tuple conversion: the non-skipped fields, in order
IntoComponents(n, skip) == LET RECURSIVE Go(_) Go(i) == IF i > n THEN <<>> ELSE (IF i \in skip THEN <<>> ELSE <<i>>) \o Go(i + 1) IN Go(1)

\* round trip: Into after From is the identity when nothing is skipped
RoundTrip(n) == IntoComponents(n, {}) = FieldMap(n)
=============================================================================
