SPECIFICATION Spec
CONSTANTS
  MaxAttrs = 2
  EmitCases = TRUE
INVARIANTS
  P_C17_OrderFree
  P_C17_Reject
  P_C17_Foreign
  Emit
CHECK_DEADLOCK FALSE
