SPECIFICATION Spec
CONSTANTS
  MaxLen = 4
  MaxVariants = 3
  EmitCases = TRUE
  Alphabet = {"F", "f", "O", "o", "n", "B", "a"}
INVARIANTS
  P_C13_Exact
  P_C13_OwnName
  Emit
CHECK_DEADLOCK FALSE
