SPECIFICATION Spec
CONSTANTS
  MaxLen = 4
  MaxVariants = 3
  EmitCases = TRUE
  Alphabet = {"F", "f", "O", "o", "B", "a", "A", "n", "#", "r"}
INVARIANTS
  P_C13_Exact
  P_C13_OwnName
  Emit
CHECK_DEADLOCK FALSE
