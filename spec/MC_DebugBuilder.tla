--------------------------- MODULE MC_DebugBuilder ---------------------------
(* The builders as a state machine: Begin, Field*, Finish | FinishNonExhaustive.  Every   *)
(* reachable state with `done` is one call sequence, replayed on the real builders.      *)
EXTENDS DebugBuilder, Json
CONSTANTS MaxFields, EmitCases, Values
VARIABLES name, fs, fin, o

Init == name \in {<<>>, <<"N">>} /\ fs = <<>> /\ fin = "open" /\ o \in [alt : BOOLEAN, w : BOOLEAN]
Field(v) == fin = "open" /\ Len(fs) < MaxFields /\ fs' = Append(fs, v) /\ UNCHANGED <<name, fin, o>>
Finish == fin = "open" /\ fin' = "finish" /\ UNCHANGED <<name, fs, o>>
FinishNE == fin = "open" /\ fin' = "ne" /\ UNCHANGED <<name, fs, o>>
Next == (\E v \in Values : Field(v)) \/ Finish \/ FinishNE
Spec == Init /\ [][Next]_<<name, fs, fin, o>>

P_C06_TraceEq == fin # "open" => TraceEq(name, fs, fin = "ne", o) \/ KnownDeviation(fs, o)
\* skipped fields close exactly like finish_non_exhaustive: same prefix as the exhaustive output
P_C06_Closing == fin = "ne" /\ ~o.alt /\ fs # <<>> =>
    LET a == DmTuple(name, fs, TRUE, o)
        b == DmTuple(name, fs, FALSE, o)
    IN SubSeq(a, 1, Len(a) - 5) = SubSeq(b, 1, Len(b) - (IF Len(fs) = 1 /\ name = <<>> THEN 2 ELSE 1))
\* the known deviation is not vacuous and not over-approximated
P_C06_KnownTight == fin # "open" /\ ~(o.alt /\ o.w) => TraceEq(name, fs, fin = "ne", o)

\* through a writer failing at any byte, and with a failing field, the two builders stay indistinguishable
P_C06_FailStop == fin # "open" => FailStop(name, fs, fin = "ne", o) \/ KnownDeviation(fs, o)
RECURSIVE Join(_)
Join(cs) == IF cs = <<>> THEN "" ELSE Head(cs) \o Join(Tail(cs))
Shown(out) == LET v == View(out) IN Join(v.text) \o (IF v.ok THEN "" ELSE "<ERR>")
Emit == EmitCases /\ fin # "open" =>
    PrintT(<<"CASE", ToJson([name |-> Join(name), fs |-> fs, ne |-> fin = "ne", o |-> o,
                             core |-> Shown(CoreTuple(name, fs, fin = "ne", o)),
                             dm |-> Shown(DmTuple(name, fs, fin = "ne", o)),
                             coreStruct |-> Shown(CoreStruct(<<"N">>, fs, fin = "ne", o)),
                             known |-> KnownDeviation(fs, o)])>>)
=============================================================================
