--------------------------- MODULE FmtText ---------------------------
(***************************************************************************)
(* C02.  Derived formatting prints what `format!` prints for the same      *)
(* literal and arguments, with the documented bindings:                    *)
(*   a field named INSIDE the literal ({x}, {_0:p}) is the field itself;   *)
(*   inside an argument expression its name is a REFERENCE to the field;   *)
(*   `self` is the value.                                                  *)
(*                                                                         *)
(* literal = sequence of pieces:                                           *)
(*   [k |-> "text"] | [k |-> "lbrace"] | [k |-> "rbrace"]                  *)
(*   [k |-> "ph", ref |-> r, tr |-> trait]                                 *)
(*      r = <<"name", f>> field f by name | <<"next">> | <<"pos", j>>      *)
(*        | <<"alias", a>>  (a \in {"v", "w"})                             *)
(* args = sequence of [alias, e]: alias \in {"", "v", "w", "f1", "f2"}     *)
(*        ("f<i>": the alias is the NAME of field i);                      *)
(*        e = <<"field", f>> (the bare name) | <<"deref", f>> (`*name`)    *)
(*          | <<"selfdot", f>> (`self.<member>`) | <<"const">>             *)
(* A shown object is <<f, depth>>: depth 0 = the field itself, 1 = a       *)
(* reference to it (they print alike under every trait but Pointer);       *)
(* <<0, 0>> = the constant.                                                *)
(***************************************************************************)
EXTENDS Naturals, Sequences, FiniteSets, TLC

NPos(args) == Cardinality({j \in 1..Len(args) : args[j].alias = ""})
\* positional arguments precede named ones
Ordered(args) == \A j, k \in 1..Len(args) : (j < k /\ args[j].alias # "") => args[k].alias # ""
AliasIdx(args, a) == {j \in 1..Len(args) : args[j].alias = a}
FieldAlias(f) == IF f = 1 THEN "f1" ELSE "f2"

\* what an argument expression evaluates to (Doc = Impl here: the tokens are handed over verbatim and
\* every field name is bound to a reference in both)
ArgObj(e) == CASE e[1] = "field"   -> <<e[2], 1>>
               [] e[1] = "deref"   -> <<e[2], 0>>
               [] e[1] = "selfdot" -> <<e[2], 0>>
               [] e[1] = "const"   -> <<0, 0>>

\* the implicit counter: index of the j-th piece if it is an implicit placeholder
RECURSIVE CountNext(_, _)
CountNext(lit, j) == IF j = 0 THEN 0
                     ELSE CountNext(lit, j - 1) + (IF lit[j].k = "ph" /\ lit[j].ref[1] = "next" THEN 1 ELSE 0)

\* argument index (1-based) a placeholder denotes, 0 if it names a field directly, -1 if nothing
Denotes(lit, j, args) ==
    LET r == lit[j].ref IN
    CASE r[1] = "next" -> IF CountNext(lit, j) <= Len(args) THEN CountNext(lit, j) ELSE 0 - 1
      [] r[1] = "pos"  -> IF r[2] + 1 <= Len(args) THEN r[2] + 1 ELSE 0 - 1
      [] r[1] = "alias" -> IF AliasIdx(args, r[2]) # {} THEN CHOOSE x \in AliasIdx(args, r[2]) : TRUE ELSE 0 - 1
      [] r[1] = "name" -> IF AliasIdx(args, FieldAlias(r[2])) # {}
                          THEN CHOOSE x \in AliasIdx(args, FieldAlias(r[2])) : TRUE     \* the user's alias shadows the field
                          ELSE 0

Valid(lit, args, nfields) ==
    /\ Ordered(args)
    /\ \A a \in {"v", "w", "f1", "f2"} : Cardinality(AliasIdx(args, a)) <= 1
    /\ \A j \in 1..Len(lit) : lit[j].k = "ph" => Denotes(lit, j, args) # 0 - 1
    /\ \A x \in 1..Len(args) : \E j \in 1..Len(lit) : lit[j].k = "ph" /\ Denotes(lit, j, args) = x   \* every argument used
    /\ \A j \in 1..Len(lit) : lit[j].k = "ph" /\ lit[j].ref[1] = "name" => lit[j].ref[2] <= nfields
    /\ \A x \in 1..Len(args) : args[x].e[1] # "const" => args[x].e[2] <= nfields
    /\ \A x \in 1..Len(args) : args[x].alias \in {"f1", "f2"} => (IF args[x].alias = "f1" THEN 1 ELSE 2) <= nfields

(***************************************************************************)
(* Doc: format!(literal, args.., <name> = <field itself> for names used in *)
(* the literal)                                                            *)
(***************************************************************************)
DocShown(lit, j, args) ==
    LET d == Denotes(lit, j, args) IN
    IF d = 0 THEN <<lit[j].ref[2], 0>> ELSE ArgObj(args[d].e)
DocText(lit, args) ==
    [j \in 1..Len(lit) |->
        CASE lit[j].k = "text" -> <<"T", "t">> [] lit[j].k = "lbrace" -> <<"T", "{">> [] lit[j].k = "rbrace" -> <<"T", "}">>
          [] lit[j].k = "ph" -> <<"S", lit[j].tr, DocShown(lit, j, args)>>]

(***************************************************************************)
(* Impl: `let name = &self.member;` for every field, the literal and the   *)
(* argument tokens handed to write!() unchanged, plus                      *)
(* additional_deref_args(): `name = *name` for every field that a NAMED    *)
(* Pointer placeholder mentions, unless an argument is aliased `name`.     *)
(* The transparent path (one bare placeholder) calls Trait::fmt on the     *)
(* binding itself when the expression is a field's name.                   *)
(***************************************************************************)
\* On the pinned tree transparent_call_on_fields handed the binding itself to Trait::fmt also when the
\* field's name was the ARGUMENT (`"{:p}", _0`), showing the field instead of the reference to it
\* (TLC counterexample <<ph next Pointer>> with the argument `_0`, confirmed by the probe; repaired).
ArgFieldNameIsItself == FALSE

DerefAdded(lit, args, f) ==
    /\ \E j \in 1..Len(lit) : lit[j].k = "ph" /\ lit[j].ref = <<"name", f>> /\ lit[j].tr = "Pointer"
    /\ AliasIdx(args, FieldAlias(f)) = {}

ImplShown(lit, j, args) ==
    LET d == Denotes(lit, j, args) IN
    IF d = 0
    THEN \* implicit capture of the binding `name` (a reference), or of the added `name = *name`
         IF DerefAdded(lit, args, lit[j].ref[2]) THEN <<lit[j].ref[2], 0>> ELSE <<lit[j].ref[2], 1>>
    ELSE ArgObj(args[d].e)

IsTransparent(lit, args) ==
    /\ Len(lit) = 1 /\ lit[1].k = "ph"
    /\ CASE lit[1].ref[1] \in {"next"} -> Len(args) = 1
         [] lit[1].ref[1] = "pos" -> lit[1].ref[2] = 0 /\ Len(args) = 1
         [] lit[1].ref[1] = "name" -> args = <<>> \/ (Len(args) = 1 /\ args[1].alias = FieldAlias(lit[1].ref[2]))
         [] lit[1].ref[1] = "alias" -> Len(args) = 1 /\ args[1].alias = lit[1].ref[2]

ImplText(lit, args) ==
    IF IsTransparent(lit, args)
    THEN LET d == Denotes(lit, 1, args)
             obj == IF d = 0 THEN <<lit[1].ref[2], 1>>      \* the expression is the identifier `name`
                    ELSE ArgObj(args[d].e)
             \* Trait::fmt(expr): a bare field name is passed as the binding (a reference) and the trait
             \* method is called on its referent: the FIELD ITSELF is shown; any other expression is
             \* wrapped as &(expr) and shown as it is
             isFieldName == (d = 0) \/ (ArgFieldNameIsItself /\ d # 0 /\ args[d].e[1] = "field")
             shown == IF isFieldName THEN <<obj[1], 0>> ELSE obj
         IN <<<<"S", lit[1].tr, shown>>>>
    ELSE [j \in 1..Len(lit) |->
            CASE lit[j].k = "text" -> <<"T", "t">> [] lit[j].k = "lbrace" -> <<"T", "{">> [] lit[j].k = "rbrace" -> <<"T", "}">>
              [] lit[j].k = "ph" -> <<"S", lit[j].tr, ImplShown(lit, j, args)>>]

\* two shown objects print alike unless the trait is Pointer and the depths differ
SameText(a, b) == Len(a) = Len(b) /\ \A j \in 1..Len(a) :
    IF a[j][1] = "T" THEN a[j] = b[j]
    ELSE b[j][1] = "S" /\ a[j][2] = b[j][2] /\ a[j][3][1] = b[j][3][1]
         /\ (a[j][2] = "Pointer" => a[j][3][2] = b[j][3][2])
TextAgrees(lit, args) == SameText(ImplText(lit, args), DocText(lit, args))
=============================================================================
