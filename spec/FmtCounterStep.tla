--------------------------- MODULE FmtCounterStep ---------------------------
(***************************************************************************)
(* The step functions of the implicit-argument machine (FmtCounter.tla):   *)
(* one placeholder per step.                                               *)
(*   doc side  (format_args!, std::fmt "Positional parameters" and         *)
(*              "Precision"): `.*` takes the next positional argument for  *)
(*              the precision FIRST, then an argument-less placeholder     *)
(*              takes the next one; explicit / named arguments never       *)
(*              advance the counter.  State: next.                         *)
(*   impl side (fmt/mod.rs Placeholder::parse_fmt_string): the counter n;  *)
(*              `if star { n += 1 }` and then                              *)
(*              `arg.unwrap_or_else(|| { n += 1; Positional(n - 1) })`.    *)
(* A placeholder is (implicit : BOOLEAN, star : BOOLEAN, idx : Int) - idx  *)
(* is the explicit index (named arguments behave like explicit ones: they  *)
(* are resolved without the counter).                                      *)
(* starFirst = TRUE is the code as it is; FALSE hands out the index before *)
(* the precision argument is counted (the negative control, and the        *)
(* seeded change C06n).                                                    *)
(***************************************************************************)
EXTENDS Integers

\* @typeAlias: fstate = {next: Int, n: Int, docArg: Int, implArg: Int, docPrec: Int, cntI: Int, cntS: Int};
FmtCounterStep_aliases == TRUE

\* @type: $fstate;
FInit == [next |-> 0, n |-> 0, docArg |-> 0, implArg |-> 0, docPrec |-> -1, cntI |-> 0, cntS |-> 0]

\* @type: ($fstate, Bool, Bool, Int, Bool) => $fstate;
FStep(s, implicit, star, idx, starFirst) ==
    LET next1 == IF star THEN s.next + 1 ELSE s.next
        n1    == IF star /\ starFirst THEN s.n + 1 ELSE s.n
        pos   == IF implicit THEN n1 ELSE idx                       \* Positional(n - 1) after n += 1
        n2    == IF implicit THEN n1 + 1 ELSE n1
        n3    == IF star /\ ~starFirst THEN n2 + 1 ELSE n2
    IN [next    |-> IF implicit THEN next1 + 1 ELSE next1,
        n       |-> n3,
        docArg  |-> IF implicit THEN next1 ELSE idx,
        implArg |-> pos,
        docPrec |-> IF star THEN s.next ELSE -1,
        cntI    |-> s.cntI + (IF implicit THEN 1 ELSE 0),
        cntS    |-> s.cntS + (IF star THEN 1 ELSE 0)]
=============================================================================
