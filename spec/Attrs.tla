--------------------------- MODULE Attrs ---------------------------
(***************************************************************************)
(* C17.  Synonymous attribute spellings are equivalent; contradictory      *)
(* ones are rejected.                                                      *)
(*                                                                         *)
(* Attribute processing is a fold over the attributes of one position      *)
(* (utils.rs attr::ParseMultiple::parse_attrs_with + merge_attrs).  A      *)
(* family describes one documented attribute grammar:                      *)
(*   atoms      the spellings that may appear as one `#[name(...)]`        *)
(*   Kind(a)    which alternative of the grammar the atom belongs to       *)
(*   Contrib(a) what the atom contributes, in canonical vocabulary (this   *)
(*              is where skip == ignore, bound == bounds, one              *)
(*              attribute with two types == two attributes with one)       *)
(*   singleKind the attributes of a position must all be of one kind       *)
(*   repeatable kinds that may occur several times and merge               *)
(*   corrupt    spellings the documentation does not allow (unknown        *)
(*              argument, pre-1.0 legacy syntax, meaningless argument)     *)
(* Result(list) = "REJECT" or the set of canonical contributions: two      *)
(* spellings are synonymous iff their Results are equal.                   *)
(***************************************************************************)
EXTENDS Naturals, Sequences, FiniteSets, TLC

Families == {"fmt_container", "fmt_enum", "debug_field", "from_variant", "from_struct", "asref_struct", "asref_field",
             "into_struct", "into_field", "legacy_field", "legacy_forms", "error_field", "ignored_variant_field",
             \* field attributes of Debug under a struct-level / variant-level `#[debug("...")]`: a field format is
             \* forbidden there, everything else is judged as on any field
             "debug_field_cfmt", "debug_field_vfmt",
             \* derive(Debug) on an ENUM declaration (with no variant at all, with variants): a format is rejected there
             \* ("an enum-level format attribute on Debug is rejected"), bound(...) is fine
             "debug_enum0", "debug_enum1"}
FmtForbidden == {"debug_field_cfmt", "debug_field_vfmt", "debug_enum0", "debug_enum1"}

Atoms(f) ==
    CASE f = "fmt_container" -> {"lit", "lit_comma", "lit_b", "bound_T", "bounds_T", "bound_U", "bound_TU", "legacy_fmt", "legacy_bound", "unknown"}
      [] f = "fmt_enum"      -> {"lit", "lit_wrap", "rename_snake", "rename_snake2", "rename_kebab", "rename_bad", "unknown", "bound_u8"}
      [] f = "debug_field"   -> {"skip", "ignore", "lit", "lit_comma", "unknown"}
      [] f \in {"debug_field_cfmt", "debug_field_vfmt"} -> {"skip", "ignore", "lit", "unknown", "legacy_fmt"}
      [] f \in {"debug_enum0", "debug_enum1"} -> {"lit", "lit_b", "bound_u8", "unknown"}
      [] f = "from_variant"  -> {"from", "skip", "ignore", "forward", "ty_a", "ty_b", "ty_ab", "ty_ab_comma", "legacy_types"}
      [] f = "from_struct"   -> {"forward", "ty_a", "ty_b", "ty_ab", "ty_ab_comma", "legacy_types", "variant_only_from"}
      [] f = "asref_struct"  -> {"forward", "ty_a", "ty_b", "ty_ab", "ty_ab_comma"}
      [] f = "asref_field"   -> {"bare", "skip", "ignore", "forward", "ty_a", "ty_b", "ty_ab"}
      [] f = "into_struct"   -> {"bare", "owned", "ref", "ref_mut", "owned_ref", "ref_refmut", "all3", "all3_comma", "ty_a", "ty_b", "ty_ab", "unknown_form",
                                 "legacy_types", "mixed_forms", "forms_nocomma", "groups_trailing", "group_trailing_outer", "group_then_bare"}
      [] f = "into_field"    -> {"skip", "ignore"}
      [] f = "legacy_field"  -> {"sel", "ignore", "forward", "unknown", "eq_value", "name_value", "lit_param", "not_foreign", "not_unneg", "dup_flag", "contra_flag", "contra_flag_rev", "dup_not"}
      [] f = "legacy_forms"  -> {"owned", "ref", "ref_mut", "owned_ref", "all3", "unknown", "list_param", "name_value", "not_foreign", "not_unneg", "dup_flag"}
      \* a field of a variant that carries `ignore`: its attributes are validated like any other field's
      [] f = "ignored_variant_field" -> {"unknown", "form_on_field", "list_param"}
      [] f = "error_field"   -> {"source", "not_source", "backtrace", "ignore", "source_backtrace", "unknown", "nested_not", "not_unknown",
                                 "list_param", "not_foreign", "not_unneg", "dup_flag", "contra_flag", "contra_flag_rev", "dup_not"}

Corrupt(f, a) == a \in {"legacy_fmt", "legacy_bound", "unknown", "legacy_types", "rename_bad", "unknown_form", "eq_value",
                         \* malformed parameter shapes of the State-based derives and of Into
                         "mixed_forms", "name_value", "lit_param", "list_param", "nested_not", "not_unknown",
                         \* `not(...)` around a flag of ANOTHER derive (`#[error(not(forward))]`, `#[deref(not(source))]`), or around a
                         \* parameter of this derive that has no negation (`not(ignore)`, `not(owned)`)
                         "not_foreign", "not_unneg",
                         \* two entries of a list with no comma between them (`#[into(ref(i32) ref_mut)]`)
                         "forms_nocomma",
                         \* one attribute giving a flag twice (`forward, forward`) or together with its negation (`source, not(source)`)
                         \* ... in either order (`not(source), source`), and the negation twice (`not(forward), not(forward)`)
                         "dup_flag", "contra_flag", "contra_flag_rev", "dup_not",
                         \* a reference-form word on a FIELD (they belong to the enum / the variant)
                         "form_on_field",
                         \* a bare `#[from]` chooses among VARIANTS: on a struct it means nothing and is rejected
                         \* (`#[from(skip)]` on a struct is a type list naming a type called `skip`: C08's subject)
                         "variant_only_from"}

Kind(f, a) ==
    CASE a \in {"lit", "lit_comma", "lit_b", "lit_wrap"} -> "fmt"
      [] a \in {"bound_T", "bounds_T", "bound_U", "bound_TU", "bound_u8"} -> "bound"
      [] a \in {"rename_snake", "rename_snake2", "rename_kebab"} -> "rename"
      [] a \in {"skip", "ignore"} -> (IF f \in {"legacy_field", "error_field"} THEN "legacy" ELSE "skip")
      [] a \in {"from", "bare"} -> "empty"       \* `#[into]` / `#[from]` / `#[as_ref]` without arguments
      [] a = "forward" -> (IF f = "legacy_field" THEN "legacy" ELSE "forward")
      [] a \in {"ty_a", "ty_b", "ty_ab", "ty_ab_comma"} -> (IF f = "into_struct" THEN "conv" ELSE "types")
      [] a \in {"groups_trailing", "group_trailing_outer", "group_then_bare"} -> "conv"
      [] a \in {"owned", "ref", "ref_mut", "owned_ref", "ref_refmut", "all3", "all3_comma"} ->
            (IF f = "into_struct" THEN "conv" ELSE "legacy")
      [] a \in {"sel", "source", "not_source", "backtrace", "source_backtrace"} -> "legacy"
      [] OTHER -> "corrupt"

Contrib(f, a) ==
    \* (`("x",)`: a comma right after the literal, as format_args! allows, is the literal alone)
    CASE a \in {"lit", "lit_comma"} -> {"fmt:a"} [] a = "lit_b" -> {"fmt:b"} [] a = "lit_wrap" -> {"fmt:wrap"}
      [] a \in {"bound_T", "bounds_T"} -> {"bound:T"} [] a = "bound_U" -> {"bound:U"} [] a = "bound_TU" -> {"bound:T", "bound:U"}
      [] a = "bound_u8" -> {"bound:u8"}
      [] a \in {"rename_snake", "rename_snake2"} -> {"rename:snake"} [] a = "rename_kebab" -> {"rename:kebab"}
      [] a \in {"skip", "ignore"} -> {"skip"}
      [] a \in {"from", "bare"} -> (IF f = "into_struct" THEN {"owned:self"} ELSE {"empty"})
      [] a = "forward" -> {"forward"}
      [] a = "ty_a" -> (IF f = "into_struct" THEN {"owned:a"} ELSE {"ty:a"})
      [] a = "ty_b" -> (IF f = "into_struct" THEN {"owned:b"} ELSE {"ty:b"})
      [] a \in {"ty_ab", "ty_ab_comma"} -> (IF f = "into_struct" THEN {"owned:a", "owned:b"} ELSE {"ty:a", "ty:b"})
      \* typed groups with a comma INSIDE the group and after it (`owned(i64,), ref(i32,)`; `ref(i32,),`), a group followed by the bare word
      [] a = "groups_trailing" -> {"owned:a", "ref:c"} [] a = "group_trailing_outer" -> {"ref:c"}
      [] a = "group_then_bare" -> {"owned:a", "owned:self", "ref:c"}
      [] a = "owned" -> {"owned:self"} [] a = "ref" -> {"ref:self"} [] a = "ref_mut" -> {"ref_mut:self"}
      [] a = "owned_ref" -> {"owned:self", "ref:self"} [] a = "ref_refmut" -> {"ref:self", "ref_mut:self"}
      [] a \in {"all3", "all3_comma"} -> {"owned:self", "ref:self", "ref_mut:self"}
      [] a = "sel" -> {"sel"} [] a = "source" -> {"source"} [] a = "not_source" -> {"not_source"}
      [] a = "backtrace" -> {"backtrace"} [] a = "source_backtrace" -> {"source", "backtrace"}
      [] OTHER -> {"corrupt"}

SingleKind(f) == f \in FmtForbidden \/ f \in {"debug_field", "from_variant", "from_struct", "asref_struct", "asref_field", "into_field", "into_struct"}
Repeatable(f) == CASE f \in {"fmt_container"} -> {"bound"}
                   [] f \in {"fmt_enum", "debug_enum0", "debug_enum1"} -> {"bound"}
                   [] f \in {"from_variant", "from_struct", "asref_struct", "asref_field"} -> {"types"}
                   [] f = "into_struct" -> {"conv"}
                   [] OTHER -> {}
\* the State-based (legacy) derives read a single attribute per position
SingleAttr(f) == f \in {"legacy_field", "legacy_forms", "error_field", "ignored_variant_field"}

REJECT == {<<"REJECT", 0>>}
Result(f, as) ==
    LET kinds == {Kind(f, as[i]) : i \in 1..Len(as)}
        count(k) == Cardinality({i \in 1..Len(as) : Kind(f, as[i]) = k})
    IN  IF \E i \in 1..Len(as) : Corrupt(f, as[i]) THEN REJECT
        ELSE IF f \in FmtForbidden /\ "fmt" \in kinds THEN REJECT
        ELSE IF SingleAttr(f) /\ Len(as) > 1 THEN REJECT
        ELSE IF SingleKind(f) /\ Cardinality(kinds) > 1 THEN REJECT
        ELSE IF \E k \in kinds : k \notin Repeatable(f) /\ count(k) > 1 THEN REJECT
        ELSE \* contributions with their multiplicity: listing the same type twice is not a synonym of listing it once
             LET all == UNION {Contrib(f, as[i]) : i \in 1..Len(as)} IN
             {<<c, Cardinality({i \in 1..Len(as) : c \in Contrib(f, as[i])})>> : c \in all}

(***************************************************************************)
(* Laws                                                                    *)
(***************************************************************************)
\* any order of independent attributes on the same item
Permuted(as, bs) == Len(as) = Len(bs) /\ \E p \in [1..Len(as) -> 1..Len(as)] :
                        (\A i, j \in 1..Len(as) : i # j => p[i] # p[j]) /\ bs = [i \in 1..Len(as) |-> as[p[i]]]
\* Attributes of other tools (doc comments, #[allow(..)], #[cfg_attr(..)], another derive's helper attribute) that stand
\* before, between or after a derive's own attributes are not its business: a list reads the same with or without them -
\* in particular two attributes that may not both be given are still two attributes when something stands between them.
Foreign == "foreign"
Strip(as) == SelectSeq(as, LAMBDA a : a # Foreign)
RECURSIVE Interleave(_)
Interleave(as) == IF as = <<>> THEN <<Foreign>> ELSE <<Foreign, Head(as)>> \o Interleave(Tail(as))
ResultF(f, as) == Result(f, Strip(as))
ForeignFree(f, as) == ResultF(f, Interleave(as)) = Result(f, as)
OrderFree(f, as, bs) == Permuted(as, bs) => Result(f, as) = Result(f, bs)
\* a corruption is never silently ignored: the result is REJECT, never that of the uncorrupted or empty list
RejectLaw(f, as) == (\E i \in 1..Len(as) : Corrupt(f, as[i])) => Result(f, as) = REJECT
=============================================================================
