SPECIFICATION Spec
CONSTANTS
  EmitCases = TRUE
  Derives = {"Add", "Sub", "BitAnd", "BitOr", "BitXor", "Mul", "Div", "Rem", "Shr", "Shl", "Not", "Neg", "AddAssign", "SubAssign", "BitAndAssign", "BitOrAssign", "BitXorAssign", "MulAssign", "DivAssign", "RemAssign", "ShrAssign", "ShlAssign", "Sum", "Product"}
  MaxFields = 2
  MaxItems = 2
INVARIANTS
  P_C10_EnumErrors
  P_C10_Assign
  P_C10_Fold
  Emit
CHECK_DEADLOCK FALSE
