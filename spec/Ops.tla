--------------------------- MODULE Ops ---------------------------
(***************************************************************************)
(* C10.  Derived operators act field-wise with operand order preserved.    *)
(* Operands are symbolic: <<"l", i>> / <<"r", i>> the i-th field of the    *)
(* left / right operand, <<"k">> a scalar, <<"e", "sum"|"product">> the    *)
(* empty sum / product of the field type, <<"x", j, i>> field i of the     *)
(* j-th item of an iterator.  <<"op", name, a, b>> is an uninterpreted,    *)
(* non-commutative application; <<"un", name, a>> a unary one.             *)
(* The module is the documented contract (Doc); the implementation side is *)
(* the real derive, replayed on an operand type that records what was      *)
(* applied to what (an instrumented, hash-mixing tag).                     *)
(***************************************************************************)
EXTENDS Naturals, Sequences, FiniteSets, TLC

AddLike  == {"Add", "Sub", "BitAnd", "BitOr", "BitXor"}
MulLike  == {"Mul", "Div", "Rem", "Shr", "Shl"}
Unary    == {"Not", "Neg"}
AddAssign == {"AddAssign", "SubAssign", "BitAndAssign", "BitOrAssign", "BitXorAssign"}
MulAssign == {"MulAssign", "DivAssign", "RemAssign", "ShrAssign", "ShlAssign"}
Folds    == {"Sum", "Product"}
AllDerives == AddLike \cup MulLike \cup Unary \cup AddAssign \cup MulAssign \cup Folds

\* the operator an assign derive is the in-place form of
BaseOp(d) == CASE d = "AddAssign" -> "Add" [] d = "SubAssign" -> "Sub" [] d = "BitAndAssign" -> "BitAnd"
               [] d = "BitOrAssign" -> "BitOr" [] d = "BitXorAssign" -> "BitXor" [] d = "MulAssign" -> "Mul"
               [] d = "DivAssign" -> "Div" [] d = "RemAssign" -> "Rem" [] d = "ShrAssign" -> "Shr"
               [] d = "ShlAssign" -> "Shl" [] OTHER -> d

\* shape: [enum : BOOLEAN, vs : sequence of variants [k : "tuple"|"named"|"unit", n : 0..3]] (a struct has one)
NF(v) == IF v.k = "unit" THEN 0 ELSE v.n

Supported(d, fwd, sh) ==
    LET isStruct == ~sh.enum /\ sh.vs[1].k # "unit" IN
    CASE d \in AddLike  -> (isStruct \/ sh.enum) /\ ~fwd
      [] d \in MulLike  -> IF fwd THEN isStruct \/ sh.enum ELSE isStruct
      [] d \in Unary    -> (isStruct \/ sh.enum) /\ ~fwd
      [] d \in AddAssign -> isStruct /\ ~fwd
      [] d \in MulAssign -> isStruct
      [] d \in Folds    -> isStruct /\ ~fwd

\* field-wise binary: field i = lhs.i op rhs.i
FieldWise(op, n) == [i \in 1..n |-> <<"op", op, <<"l", i>>, <<"r", i>>>>]
\* scalar: field i = field_i op k
Scalar(op, n)    == [i \in 1..n |-> <<"op", op, <<"l", i>>, <<"k">>>>]
UnaryMap(op, n)  == [i \in 1..n |-> <<"un", op, <<"l", i>>>>]
\* fold of m items starting from the field-wise empty sum/product
RECURSIVE FoldField(_, _, _, _)
FoldField(kind, op, i, m) == IF m = 0 THEN <<"e", kind>>
                             ELSE <<"op", op, FoldField(kind, op, i, m - 1), <<"x", m, i>>>>

\* struct results: a sequence of field terms
DocStruct(d, fwd, n, m) ==
    CASE d \in AddLike -> FieldWise(d, n)
      [] d \in MulLike -> IF fwd THEN FieldWise(d, n) ELSE Scalar(d, n)
      [] d \in Unary   -> UnaryMap(d, n)
      [] d \in AddAssign -> FieldWise(BaseOp(d), n)          \* `a op= b` leaves a equal to `a op b`
      [] d \in MulAssign -> IF fwd THEN FieldWise(BaseOp(d), n) ELSE Scalar(BaseOp(d), n)
      [] d = "Sum"     -> [i \in 1..n |-> FoldField("sum", "Add", i, m)]
      [] d = "Product" -> [i \in 1..n |-> FoldField("product", "Mul", i, m)]

\* enum results for the operand variants (a, b): <<"ok", a, fields>> | <<"mismatch">> | <<"unit">>
DocEnumBinary(d, sh, a, b) ==
    IF a # b THEN <<"mismatch">>
    ELSE IF sh.vs[a].k = "unit" THEN <<"unit">>
    ELSE <<"ok", a, FieldWise(d, NF(sh.vs[a]))>>
DocEnumUnary(d, sh, a) ==
    IF sh.vs[a].k = "unit" THEN <<"unit">> ELSE <<"ok", a, UnaryMap(d, NF(sh.vs[a]))>>

(***************************************************************************)
(* Extension beyond C10 (spec growth): what the two errors PRINT.  The     *)
(* operation is named by the operator trait's method.  Reported as an      *)
(* extension mismatch, never as a C10 verdict.                             *)
(***************************************************************************)
MethodOf(d) == CASE d = "Add" -> "add" [] d = "Sub" -> "sub" [] d = "BitAnd" -> "bitand" [] d = "BitOr" -> "bitor"
                 [] d = "BitXor" -> "bitxor" [] d = "Mul" -> "mul" [] d = "Div" -> "div" [] d = "Rem" -> "rem"
                 [] d = "Shr" -> "shr" [] d = "Shl" -> "shl" [] d = "Not" -> "not" [] d = "Neg" -> "neg" [] OTHER -> "?"
DocErrText(d, kind) == IF kind = "mismatch" THEN "Trying to " \o MethodOf(d) \o "() mismatched enum variants"
                       ELSE "Cannot " \o MethodOf(d) \o "() unit variants"

\* properties of the contract itself
\* every field of the result depends on exactly the same-numbered fields, left operand first
OrderPreserved(terms) == \A i \in 1..Len(terms) :
    terms[i][1] = "op" => terms[i][3] \in {<<"l", i>>} \cup {t \in {terms[i][3]} : t[1] \in {"op", "e"}}
=============================================================================
