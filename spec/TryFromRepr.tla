--------------------------- MODULE TryFromRepr ---------------------------
(***************************************************************************)
(* C12.  TryFrom<repr> is the exact inverse of the enum-to-integer cast.   *)
(*                                                                         *)
(* An enum is a sequence of variants [kind, disc]:                         *)
(*   kind \in {"unit","empty_tuple","empty_brace","tuple1","named1"}       *)
(*   disc : [op |-> "none"] or an expression tree                                 *)
(*            [op |-> "lit", a |-> n]  | "neg"(a) | "shl"(a,b) | "or"(a,b) *)
(*            | "add"(a,b) | "bnot"(a)   (a, b small naturals)             *)
(* Doc : Rust's discriminant rule (explicit value, else previous + 1,      *)
(*       counting variants with fields), try_from(n) = the field-less      *)
(*       variant with that discriminant.                                   *)
(* Impl: impl/src/try_from.rs - the constants are rebuilt *textually* as   *)
(*       `<last explicit discriminant> + <offset>`, so the value is what   *)
(*       Rust's precedence makes of that text.                             *)
(* Repr detection: impl/src/utils.rs attr::ReprInt (per attribute: the     *)
(*       last integer hint; across attributes: merge_attrs).               *)
(***************************************************************************)
EXTENDS Integers, Sequences, FiniteSets, TLC

FieldlessKinds == {"unit", "empty_tuple", "empty_brace"}

RECURSIVE Pow2(_)
Pow2(n) == IF n = 0 THEN 1 ELSE 2 * Pow2(n - 1)
RECURSIVE BitOr(_, _)
BitOr(a, b) == IF a = 0 THEN b ELSE IF b = 0 THEN a
               ELSE (IF a % 2 = 1 \/ b % 2 = 1 THEN 1 ELSE 0) + 2 * BitOr(a \div 2, b \div 2)

Lit(n) == [op |-> "lit", a |-> n, b |-> 0]
Eval(e) == CASE e.op = "lit" -> e.a
             [] e.op = "neg" -> 0 - e.a
             [] e.op = "shl" -> e.a * Pow2(e.b)
             [] e.op = "or"  -> BitOr(e.a, e.b)
             [] e.op = "add" -> e.a + e.b
             [] e.op = "bnot" -> 0 - e.a - 1          \* `!a` in a SIGNED repr type (two's complement); MC_TryFromRepr only
                                                      \* pairs it with signed reprs - the unsigned ones are a generated family
\* the value of the token text `<e> + k` under Rust's operator precedence
\* (unary minus > + > << > |)
EvalTextPlus(e, k) ==
    CASE e.op = "lit" -> e.a + k
      [] e.op = "neg" -> (0 - e.a) + k
      [] e.op = "add" -> e.a + e.b + k
      [] e.op = "bnot" -> (0 - e.a - 1) + k         \* unary `!` binds tighter than `+`
      [] e.op = "shl" -> e.a * Pow2(e.b + k)        \* a << (b + k)
      [] e.op = "or"  -> BitOr(e.a, e.b + k)        \* a | (b + k)

(***************************************************************************)
(* Doc: discriminants                                                      *)
(***************************************************************************)
RECURSIVE DocDiscs(_, _, _)
DocDiscs(vs, j, prev) ==       \* prev: discriminant of variant j-1 (or -1 before the first)
    IF j > Len(vs) THEN <<>>
    ELSE LET d == IF vs[j].disc.op = "none" THEN prev + 1 ELSE Eval(vs[j].disc)
         IN <<d>> \o DocDiscs(vs, j + 1, d)
Discs(vs) == DocDiscs(vs, 1, -1)

DocTry(vs, n) ==
    LET ds == Discs(vs)
        hits == {j \in 1..Len(vs) : vs[j].kind \in FieldlessKinds /\ ds[j] = n}
    IN IF hits = {} THEN 0 ELSE CHOOSE j \in hits : TRUE      \* 0 = Err(n)

(***************************************************************************)
(* Impl: constants `last_discriminant + inc`                               *)
(***************************************************************************)
Parenthesised == TRUE      \* FALSE on the pinned tree: `#last_discriminant + #inc` without parentheses

RECURSIVE ImplConsts(_, _, _, _)
ImplConsts(vs, j, last, inc) ==     \* last: expression tree of the last explicit discriminant
    IF j > Len(vs) THEN <<>>
    ELSE LET last2 == IF vs[j].disc.op = "none" THEN last ELSE vs[j].disc
             inc2  == IF vs[j].disc.op = "none" THEN inc ELSE 0
             v     == IF Parenthesised THEN Eval(last2) + inc2 ELSE EvalTextPlus(last2, inc2)
         IN <<v>> \o ImplConsts(vs, j + 1, last2, inc2 + 1)
Consts(vs) == ImplConsts(vs, 1, Lit(0), 0)

\* match val { C1 => V1, C2 => V2, ... }: first arm whose constant equals n, field-less variants only
ImplTry(vs, n) ==
    LET cs == Consts(vs)
        hits == {j \in 1..Len(vs) : vs[j].kind \in FieldlessKinds /\ cs[j] = n}
    IN IF hits = {} THEN 0 ELSE CHOOSE j \in hits : \A k \in hits : j <= k

(***************************************************************************)
(* Repr detection                                                          *)
(***************************************************************************)
IntTypes == {"u8", "u16", "u32", "u64", "u128", "usize", "i8", "i16", "i32", "i64", "i128", "isize"}
\* attrs: sequence of #[repr(...)] attributes, each a sequence of hints
DocRepr(attrs) ==
    LET ints == {attrs[i][j] : i \in {i \in 1..Len(attrs) : TRUE}, j \in 1..3} IN "unused"
AllHints(attrs) == UNION {{attrs[i][j] : j \in 1..Len(attrs[i])} : i \in 1..Len(attrs)}
DocReprTy(attrs) == LET ints == AllHints(attrs) \cap IntTypes IN
                    IF ints = {} THEN "isize" ELSE CHOOSE t \in ints : TRUE
RECURSIVE LastInt(_, _, _)
LastInt(hs, j, acc) == IF j > Len(hs) THEN acc
                       ELSE LastInt(hs, j + 1, IF hs[j] \in IntTypes THEN hs[j] ELSE acc)
RECURSIVE ImplMerge(_, _, _)
ImplMerge(attrs, i, acc) ==      \* acc: "none" | type | "error"
    IF i > Len(attrs) THEN acc
    ELSE LET new == LastInt(attrs[i], 1, "none") IN
         ImplMerge(attrs, i + 1,
                   IF acc = "error" THEN "error"
                   ELSE IF acc # "none" /\ new # "none" THEN "error"
                   ELSE IF acc = "none" THEN new ELSE acc)
ImplReprTy(attrs) == LET r == ImplMerge(attrs, 1, "none") IN IF r = "none" THEN "isize" ELSE r

\* Extension beyond C12 (spec growth): what the error PRINTS - the rejected integer, as its type's Debug prints it, in
\* backticks (reported as an extension mismatch, never as a C12 verdict)
DocErrTemplate == "`{n}` does not correspond to a unit variant"

(***************************************************************************)
(* Properties of one enum                                                  *)
(***************************************************************************)
Domain(vs) == LET ds == Discs(vs) IN UNION {{ds[j] - 1, ds[j], ds[j] + 1} : j \in 1..Len(vs)} \cup {0}
Inverse(vs) == \A n \in Domain(vs) : ImplTry(vs, n) = DocTry(vs, n)
\* try_from(cast(v)) = v for every field-less variant, by the documented rule alone
DocInverse(vs) == \A j \in 1..Len(vs) : vs[j].kind \in FieldlessKinds => DocTry(vs, Discs(vs)[j]) = j
ReprRight(attrs) == ImplReprTy(attrs) = DocReprTy(attrs)
=============================================================================
