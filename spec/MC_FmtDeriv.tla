--------------------------- MODULE MC_FmtDeriv ---------------------------
(* Every derivation of the std::fmt grammar for one placeholder, built     *)
(* from its components (one initial state per derivation), optionally      *)
(* embedded in surrounding text / escapes / a second placeholder.          *)
EXTENDS FmtGrammar, Json
CONSTANTS Tier, EmitCases
VARIABLES comp, lit

ArgChoices   == IF Tier = "quick" THEN {<<>>, <<"1">>, <<"a">>, <<"_", "0">>, <<"_", "0", "1">>}
                ELSE {<<>>, <<"0">>, <<"1">>, <<"a">>, <<"_", "0">>, <<"_", "0", "1">>}
FillAlign    == IF Tier = "quick" THEN {<<>>, <<"<">>, <<"*", ">">>}
                ELSE {<<>>, <<"<">>, <<"^">>, <<">">>, <<"*", "<">>, <<"0", ">">>, <<"}", "^">>}
SignChoices  == IF Tier = "quick" THEN {<<>>, <<"+">>} ELSE {<<>>, <<"+">>, <<"-">>}
AltChoices   == {<<>>, <<"#">>}
ZeroChoices  == {<<>>, <<"0">>}
WidthChoices == IF Tier = "quick" THEN {<<>>, <<"1">>, <<"1", "$">>, <<"a", "$">>}
                ELSE {<<>>, <<"1">>, <<"1", "$">>, <<"a", "$">>, <<"0", "$">>, <<"2", "1">>}
PrecChoices  == IF Tier = "quick" THEN {<<>>, <<".", "1">>, <<".", "*">>, <<".", "a", "$">>}
                ELSE {<<>>, <<".", "1">>, <<".", "1", "$">>, <<".", "a", "$">>, <<".", "*">>, <<".", "0">>}
TypeChoices  == {<<>>, <<"?">>, <<"x", "?">>, <<"X", "?">>, <<"o">>, <<"x">>, <<"X">>, <<"p">>, <<"b">>,
                 <<"e">>, <<"E">>}
WsChoices    == IF Tier = "quick" THEN {<<>>, <<" ">>, <<"W3">>} ELSE {<<>>, <<" ">>, <<" ", "T">>, <<"W3">>, <<"T", "W3", " ">>}
\* context: what surrounds the placeholder
Contexts     == IF Tier = "quick" THEN {"bare", "second"}
                ELSE {"bare", "text", "esc", "second", "star_first"}

Components == [arg : ArgChoices, fa : FillAlign, sign : SignChoices, alt : AltChoices, zero : ZeroChoices,
               width : WidthChoices, prec : PrecChoices, ty : TypeChoices, ws : WsChoices, ctx : Contexts]

SpecChars(c) == c.fa \o c.sign \o c.alt \o c.zero \o c.width \o c.prec \o c.ty
HasSpecChars(c) == SpecChars(c) # <<>>
\* with and without ':' when the spec is empty is covered by the ctx "bare"/"text" split below
Placeholder(c, colon) == <<"{">> \o c.arg \o (IF colon THEN <<":">> ELSE <<>>) \o SpecChars(c) \o c.ws \o <<"}">>
Render(c) ==
    LET colon == HasSpecChars(c) \/ c.ctx \in {"text"}
        p == Placeholder(c, colon)
    IN CASE c.ctx = "bare"   -> p
         [] c.ctx = "text"   -> <<"a", " ">> \o p \o <<"!">>
         [] c.ctx = "esc"    -> <<"{", "{">> \o p \o <<"}", "}">>
         [] c.ctx = "second" -> <<"{", "}">> \o p \o <<"{", ":", "?", "}">>
         [] c.ctx = "star_first" -> <<"{", ":", ".", "*", "}">> \o p \o <<"{", "}">>

\* one step from an empty initial state, so that TLC's workers share the enumeration
NoComp == [arg |-> <<>>, fa |-> <<>>, sign |-> <<>>, alt |-> <<>>, zero |-> <<>>, width |-> <<>>, prec |-> <<>>,
           ty |-> <<>>, ws |-> <<>>, ctx |-> "init"]
Init == comp = NoComp /\ lit = <<>>
\* first half of the choice (shared among TLC's workers), then the rest
Half == [arg : ArgChoices, fa : FillAlign, sign : SignChoices, alt : AltChoices, zero : ZeroChoices,
         width : {<<>>}, prec : {<<>>}, ty : {<<>>}, ws : {<<>>}, ctx : {"half"}]
ChooseHalf == comp.ctx = "init" /\ comp' \in Half /\ lit' = <<>>
ChooseRest == comp.ctx = "half" /\ \E w \in WidthChoices, p \in PrecChoices, t \in TypeChoices, x \in WsChoices, c \in Contexts :
                  /\ comp' = [comp EXCEPT !.width = w, !.prec = p, !.ty = t, !.ws = x, !.ctx = c]
                  /\ lit' = Render(comp')
Next == ChooseHalf \/ ChooseRest
Spec == Init /\ [][Next]_<<comp, lit>>

\* The recogniser applied to a generated derivation returns the components it was built from
\* (the specification checks itself).
MainIndex == CASE comp.ctx \in {"bare", "text", "esc"} -> 1 [] OTHER -> 2
ExpectTy == CASE comp.ty = <<>> -> "Display" [] comp.ty = <<"?">> -> "Debug"
              [] comp.ty = <<"x", "?">> -> "LowerDebug" [] comp.ty = <<"X", "?">> -> "UpperDebug"
              [] OTHER -> LetterType(comp.ty[1])
\* a zero flag directly followed by nothing but '$'-width "0$"... the only ambiguity of the grammar:
\* "0" + width "1$" reads as zero flag then width; zero "0" + width "" + prec etc. fine; but
\* zero <<>> with width "0$" is the parameter, and zero "0" followed by width <<"$"...>> cannot occur.
P_C03_RoundTrip == comp.ctx \notin {"init", "half"} =>
    LET r == StdParse(lit) IN
    /\ r.ok
    /\ Len(r.phs) = (CASE comp.ctx \in {"bare", "text", "esc"} -> 1 [] comp.ctx = "second" -> 3
                       [] comp.ctx = "star_first" -> 3)
    /\ LET ph == r.phs[MainIndex] IN
        /\ ph.arg.txt = comp.arg
        /\ ph.spec.ty = ExpectTy
        /\ ph.spec.fill = (Len(comp.fa) = 2)
        /\ (ph.spec.align # "none") = (comp.fa # <<>>)
        /\ (ph.spec.sign # "none") = (comp.sign # <<>>)
        /\ ph.spec.alt = (comp.alt # <<>>)
        /\ ph.spec.zero = (comp.zero # <<>>)
        /\ (ph.spec.width.k # "none") = (comp.width # <<>>)
        /\ (ph.spec.prec.k # "none" \/ ph.spec.star) = (comp.prec # <<>>)

CaseRec(s, sr, dr) == [chars |-> s, stdOk |-> StdOkR(sr), grammarOk |-> sr.ok, oos |-> sr.ok /\ sr.lenient,
               phs |-> sr.phs, res |-> Resolve(sr.phs, 1, 0, TRUE),
               dmOk |-> dr.ok, dmAgree |-> AgreeR(sr, dr)]
All(checkAgree) == comp.ctx \notin {"init", "half"} =>
                   LET sr == StdParse(lit)
                       dr == DmParse(lit)
                   IN /\ Assert(NoSilentAcceptR(sr, dr), <<"P_C03_NoSilentAccept", lit>>)
                      /\ Assert(CounterLawR(sr), <<"P_C03_Counter", lit>>)
                      /\ Assert(MachineLawR(sr), <<"P_C03_Machine", lit>>)
                      /\ Assert(checkAgree => AgreeR(sr, dr), <<"P_C03_Agree", lit>>)
                      /\ (EmitCases => PrintT(<<"CASE", ToJson(CaseRec(lit, sr, dr))>>))
AllWithAgree == All(TRUE)
AllNoAgree   == All(FALSE)
=============================================================================
