SPECIFICATION Spec
CONSTANTS
  MaxFields = 3
  EmitCases = TRUE
  FullNamed3 = FALSE
INVARIANTS
  P_C09_Select
  P_C09_NoPanic
  P_C09_Exhaustive
  P_C09_Bound
  P_C09_IgnoreStable
  P_Ext_Provide
  P_C09_Sane
  Emit
CHECK_DEADLOCK FALSE
