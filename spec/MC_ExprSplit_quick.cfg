SPECIFICATION Spec
CONSTANTS
  MaxArgs = 2
  EmitCases = TRUE
  AliasForms = {"ident", "rawident", "castgeneric2", "binor", "closure2", "less", "reference", "not", "qpathref"}
INVARIANTS
  P_C18_Progress
  P_C16_Split
  P_C16_IdentOnly
  P_C16_KnownTight
  Emit
CHECK_DEADLOCK FALSE
