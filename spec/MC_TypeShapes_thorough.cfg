SPECIFICATION Spec
CONSTANTS
  Depth = 3
  EmitCases = TRUE
INVARIANTS
  P_C04_Contains
  Emit
CHECK_DEADLOCK FALSE
