------------------------------ MODULE DiscStep ------------------------------
(***************************************************************************)
(* The step functions of the discriminant machine (DiscCounter.tla), as    *)
(* constant-level operators on a state record, so that the SAME text is    *)
(*  - the transition relation Apalache / TLAPS reason about (DiscCounter), *)
(*  - folded by TLC over every bounded enum and compared with DocDiscs /   *)
(*    ImplConsts of TryFromRepr.tla (MC_TryFromRepr, P_C12_Machine).       *)
(* IncAfter is what try_from.rs leaves in `inc` after an explicit          *)
(* discriminant has been used (1); the broken machine of the negative      *)
(* control leaves 0 there ("inc += 1" skipped on that path).               *)
(***************************************************************************)
EXTENDS Integers

\* @typeAlias: dstate = {prev: Int, lastv: Int, inc: Int, docOut: Int, implOut: Int};
DiscStep_aliases == TRUE

\* @type: $dstate;
DInit == [prev |-> -1, lastv |-> 0, inc |-> 0, docOut |-> 0, implOut |-> 0]

\* @type: ($dstate, Int, Int) => $dstate;
DExplicit(s, d, incAfter) ==
    [prev |-> d, lastv |-> d, inc |-> incAfter, docOut |-> d, implOut |-> d + 0]

\* @type: ($dstate) => $dstate;
DImplicit(s) ==
    [prev |-> s.prev + 1, lastv |-> s.lastv, inc |-> s.inc + 1, docOut |-> s.prev + 1, implOut |-> s.lastv + s.inc]
=============================================================================
