--------------------------- MODULE MC_FromStr ---------------------------
EXTENDS FromStr, Json
CONSTANTS MaxLen, MaxVariants, EmitCases, Alphabet
VARIABLES vs, s, phase

V(n, r) == [name |-> n, raw |-> r]
Pool == {V(<<"F", "o", "o">>, FALSE), V(<<"F", "O", "O">>, FALSE), V(<<"f", "o", "o">>, FALSE),
         V(<<"B", "a">>, FALSE), V(<<"B", "A">>, FALSE), V(<<"f", "n">>, TRUE), V(<<"F", "n">>, FALSE),
         V(<<"a">>, FALSE), V(<<"U+C4", "a">>, FALSE), V(<<"U+E4", "a">>, FALSE)}

\* enums wider than MaxVariants with SEVERAL groups of names that differ only by case (each group needs its exact arms)
Foo == V(<<"F", "o", "o">>, FALSE)  FOO == V(<<"F", "O", "O">>, FALSE)  foo == V(<<"f", "o", "o">>, FALSE)
Ba == V(<<"B", "a">>, FALSE)  BA == V(<<"B", "A">>, FALSE)
WideEnums == {<<Foo, FOO, Ba, BA>>, <<Ba, Foo, BA, FOO>>, <<Foo, FOO, foo, Ba, BA, V(<<"a">>, FALSE)>>,
              <<V(<<"f", "n">>, TRUE), V(<<"F", "n">>, FALSE), V(<<"U+C4", "a">>, FALSE), V(<<"U+E4", "a">>, FALSE), Ba>>}
Init == vs \in {<<>>} \cup WideEnums /\ s = <<>> /\ phase = "enum"
AddVariant == phase = "enum" /\ Len(vs) < MaxVariants /\ \E v \in Pool :
                 /\ \A j \in 1..Len(vs) : vs[j].name # v.name
                 /\ vs' = Append(vs, v) /\ UNCHANGED <<s, phase>>
StartStrings == phase = "enum" /\ vs # <<>> /\ phase' = "str" /\ UNCHANGED <<vs, s>>
AddChar == phase = "str" /\ Len(s) < MaxLen /\ \E c \in Alphabet : s' = Append(s, c) /\ UNCHANGED <<vs, phase>>
Next == AddVariant \/ StartStrings \/ AddChar
Spec == Init /\ [][Next]_<<vs, s, phase>>

P_C13_Exact   == phase = "str" => Exact(vs, s)
P_C13_OwnName == phase = "str" /\ s = <<>> => OwnName(vs)
Emit == EmitCases /\ phase = "str" =>
    PrintT(<<"CASE", ToJson([vs |-> vs, s |-> s, doc |-> DocParse(vs, s)])>>)
=============================================================================
