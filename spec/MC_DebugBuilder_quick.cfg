SPECIFICATION Spec
CONSTANTS
  MaxFields = 2
  EmitCases = TRUE
  Values = {"A", "M", "X", "U", "T", "S", "E", "Z", "L"}
INVARIANTS
  P_C06_TraceEq
  P_C06_Closing
  P_C06_KnownTight
  P_C06_FailStop
  Emit
CHECK_DEADLOCK FALSE
