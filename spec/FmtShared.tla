--------------------------- MODULE FmtShared ---------------------------
(***************************************************************************)
(* C07.  Enum-level format: wraps through `_variant`, otherwise is only a  *)
(* default.                                                                *)
(*                                                                         *)
(* variant = [kind : "unit" | "t1" | "n1" | "t2",                          *)
(*            own  : "none" | "general" | "bare" | "text",                 *)
(*            vr   : BOOLEAN]   variant-level rename_all = "UPPERCASE"     *)
(* er      = enum-level rename_all: "none" | "lower"                       *)
(* shared  = one of the literal/argument forms in SharedForms              *)
(* Texts are token sequences: "T:<text>" literal text, "NAME" the variant  *)
(* name ("NAME_L"/"NAME_U": converted to lowercase / UPPERCASE by the      *)
(* rename_all in force - the variant's own, else the enum's), "F0"/"F1" a  *)
(* field shown under the derived trait.                                    *)
(* <<"REJECT">> = the derive must fail to compile.                         *)
(*                                                                         *)
(* Doc*: the property statement.  Impl*: display.rs `shared_attr_info`,    *)
(* `generate_body`, the `_variant` specifier check of `expand_enum`, and   *)
(* debug.rs' rejection of an enum-level format.                            *)
(***************************************************************************)
EXTENDS Naturals, Sequences, FiniteSets, TLC

SharedForms == {"none", "variant", "wrap", "twice", "pos_arg", "pos_arg_bare", "alias", "alias_bare",
                "text", "field", "variant_field", "dbg", "padded", "pos_dbg", "twice_padded", "alias_dbg", "pos_after_alias",
                \* enum-level formats that are ONE bare placeholder (the transparent-call path) and do not mention `_variant`:
                \* a constant expression argument, a field by name, a named constant argument
                "bare_expr", "bare_field", "bare_alias_expr",
                \* a `_variant` placeholder with ONE specifier of each remaining kind: sign, `#`, precision
                "signed", "alt", "prec"}
Mentions(s) == s \in {"variant", "wrap", "twice", "pos_arg", "pos_arg_bare", "alias", "alias_bare",
                      "variant_field", "dbg", "padded", "pos_dbg", "twice_padded", "alias_dbg", "pos_after_alias",
                      "signed", "alt", "prec"}
\* a `_variant` placeholder carrying a specifier or a non-Display trait - ANY of them ("twice_padded": the second of two;
\* "alias_dbg": through an alias)
BadVariantSpec(s) == s \in {"dbg", "padded", "pos_dbg", "twice_padded", "alias_dbg", "signed", "alt", "prec"}
\* the shared literal is exactly one bare Display placeholder denoting `_variant`
SharedIsBareVariant(s) == s \in {"variant", "pos_arg_bare", "alias_bare"}
\* fields the shared literal itself refers to by name
SharedUsesField0(s) == s \in {"field", "variant_field", "bare_field"}

HasField0(v) == v.kind \in {"t1", "t2"}        \* a binding called `_0`
NFields(v) == CASE v.kind = "unit" -> 0 [] v.kind \in {"t1", "n1"} -> 1 [] v.kind = "t2" -> 2

REJECT == <<"REJECT">>

(***************************************************************************)
(* Doc                                                                     *)
(***************************************************************************)
\* what the variant prints by itself
NameTok(v, er) == IF v.vr THEN <<"NAME_U">> ELSE IF er = "lower" THEN <<"NAME_L">> ELSE <<"NAME">>
Own(v, er) ==
    CASE v.own = "general" -> (IF v.kind = "t2" THEN <<"T:V ", "F0", "T: ", "F1">>
                               ELSE IF v.kind = "unit" THEN <<"T:V ", "T:1">> ELSE <<"T:V ", "F0">>)
      [] v.own = "bare"    -> <<"F0">>
      [] v.own = "text"    -> <<"T:txt">>
      [] v.own = "none"    -> (CASE v.kind = "unit" -> NameTok(v, er)
                                 [] v.kind \in {"t1", "n1"} -> <<"F0">>
                                 [] v.kind = "t2" -> REJECT)      \* several fields need an attribute

\* the shared literal with `_variant` replaced by inner
Subst(s, inner) ==
    CASE s \in {"variant", "pos_arg_bare", "alias_bare"} -> inner
      [] s \in {"wrap", "pos_arg", "alias", "pos_after_alias"} -> <<"T:[">> \o inner \o <<"T:]">>
      [] s = "twice" -> inner \o <<"T:-">> \o inner
      [] s = "variant_field" -> inner \o <<"T:/">> \o <<"F0">>
SharedDefault(s) == CASE s = "text" -> <<"T:shared">> [] s = "field" -> <<"T:f:", "F0">>
                      [] s \in {"bare_expr", "bare_alias_expr"} -> <<"T:8">> [] s = "bare_field" -> <<"F0">>

DocText(v, s, D, er) ==
    IF D = "Debug" /\ s # "none" THEN REJECT                        \* no enum-level format on Debug
    ELSE IF s = "none" THEN Own(v, er)
    ELSE IF Mentions(s)
         THEN IF BadVariantSpec(s) THEN REJECT
              ELSE IF Own(v, er) = REJECT THEN REJECT
              ELSE IF SharedUsesField0(s) /\ ~HasField0(v) THEN REJECT     \* unknown name `_0`
              ELSE Subst(s, Own(v, er))
    ELSE IF v.own # "none" THEN Own(v, er)
    ELSE IF SharedUsesField0(s) /\ ~HasField0(v) THEN REJECT
    ELSE SharedDefault(s)

(***************************************************************************)
(* Impl                                                                    *)
(***************************************************************************)
ImplText(v, s, D, er) ==
    IF D = "Debug" THEN (IF s # "none" THEN REJECT ELSE Own(v, er))
    ELSE IF s # "none" /\ BadVariantSpec(s) THEN REJECT              \* expand_enum's check
    ELSE
    LET containsVariant == IF s = "none" THEN TRUE ELSE Mentions(s)
        \* "If shared_attr is a transparent call to _variant, then we consider it being absent."
        sharedTransparent == s # "none" /\ SharedIsBareVariant(s)     \* transparent_call() is Some, trait Display
        hasShared == s # "none" /\ (~sharedTransparent \/ D # "Display" \/ ~containsVariant)
        wrapping  == hasShared /\ containsVariant
        \* --- body
        body == IF v.own # "none" THEN Own(v, er)                         \* format_args!(own) | delegate | write!(own)
                ELSE IF wrapping \/ ~hasShared
                     THEN (CASE NFields(v) = 0 -> (LET ra == IF v.vr THEN "upper" ELSE er       \* attrs.rename_all.get_or_insert(container's)
                                                     IN  CASE ra = "upper" -> <<"NAME_U">> [] ra = "lower" -> <<"NAME_L">>
                                                           [] OTHER -> <<"NAME">>)
                             [] NFields(v) = 1 -> <<"F0">> [] OTHER -> REJECT)
                     ELSE <<>>                                        \* left empty: the shared default fills it
        wrapInto == IF v.own # "none" THEN wrapping ELSE hasShared
    IN  IF body = REJECT THEN REJECT
        ELSE IF ~wrapInto THEN body
        ELSE IF SharedUsesField0(s) /\ ~HasField0(v) THEN REJECT     \* rustc: cannot find value `_0`
        ELSE IF body = <<>> THEN SharedDefault(s)
        ELSE Subst(s, body)                                          \* match body { _variant => shared }

Agrees(v, s, D, er) == ImplText(v, s, D, er) = DocText(v, s, D, er)
=============================================================================
