------------------------- MODULE FmtCounter_proofs -------------------------
(* TLAPS proofs for FmtCounter.tla (kept apart: Apalache does not know the TLAPS module). *)
EXTENDS FmtCounter, TLAPS

THEOREM InitInv == Init => IndInv
  BY DEF Init, IndInv, TypeOK, Agree, CounterLaw, FInit

THEOREM StepInv == IndInv /\ [Next]_vars => IndInv'
  BY DEF IndInv, TypeOK, Agree, CounterLaw, Next, Placeholder, vars, Becomes, St, FStep

THEOREM Safety == Spec => [](Agree /\ CounterLaw)
  <1>1. IndInv => Agree /\ CounterLaw  BY DEF IndInv
  <1>2. QED  BY InitInv, StepInv, <1>1, PTL DEF Spec
=============================================================================
