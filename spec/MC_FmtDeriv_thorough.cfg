SPECIFICATION Spec
CONSTANTS
  Tier = "thorough"
  EmitCases = TRUE
INVARIANTS
  P_C03_RoundTrip
  AllWithAgree
CHECK_DEADLOCK FALSE
