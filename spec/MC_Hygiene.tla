--------------------------- MODULE MC_Hygiene ---------------------------
EXTENDS Hygiene, Json
VARIABLES r, done
Init == r = <<"", "", "">> /\ done = FALSE
Pick == ~done /\ done' = TRUE /\ r' \in Bare
Next == Pick
Spec == Init /\ [][Next]_<<r, done>>
\* every bare reference of every code path breaks in some scope: report each (TLC -continue)
Emit == done => PrintT(<<"CASE", ToJson([ref |-> r, hygienic |-> Hygienic(r),
                                        breaks |-> {IF sc.nostd THEN "no_std" ELSE IF sc.prelude THEN (IF sc.shadows = {} THEN "normal" ELSE CHOOSE n \in sc.shadows : TRUE)
                                                    ELSE "no_prelude" : sc \in {s \in Scopes : ~Resolves(r, s)}}])>>)
P_C15_Hygienic == done => Hygienic(r)
=============================================================================
