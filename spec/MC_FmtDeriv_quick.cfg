SPECIFICATION Spec
CONSTANTS
  Tier = "quick"
  EmitCases = TRUE
INVARIANTS
  P_C03_RoundTrip
  AllWithAgree
CHECK_DEADLOCK FALSE
