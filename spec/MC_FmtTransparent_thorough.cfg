SPECIFICATION Spec
CONSTANTS
  EmitCases = TRUE
  DerivedTraits = {"Display", "Debug", "Octal", "LowerHex", "UpperHex", "Pointer", "Binary", "LowerExp", "UpperExp"}
  PhTypes = {"Display", "Debug", "Octal", "LowerHex", "UpperHex", "Pointer", "Binary", "LowerExp", "UpperExp", "LowerDebug", "UpperDebug"}
INVARIANTS
  P_C05_Iff
  P_C05_IffShared
  P_C05_Trait
  Emit
CHECK_DEADLOCK FALSE
