--------------------------- MODULE MC_ExplicitBounds ---------------------------
EXTENDS ExplicitBounds, Json
CONSTANTS Traits, EmitCases
VARIABLE c

Cases == {x \in [D : Traits, kind : {"struct", "enum"}, bpos : {"container", "variant", "both"}, gf : BOOLEAN,
                 shape : {"unit", "one", "two"}, other : {"none", "unit", "generic"}, spelling : {"bound", "bounds"},
                 split : BOOLEAN, uses : BOOLEAN, lit : BOOLEAN, sh : {"none", "wrap", "default"}] : WellFormed(x)}
Init == c \in Cases
Next == UNCHANGED c
Spec == Init /\ [][Next]_c

P_C04_ExplicitBounds == Agree(c)
P_C04_Sensitive == Sensitive
Emit == EmitCases => PrintT(<<"CASE", ToJson([c |-> c, preds |-> DocPreds(c)])>>)
=============================================================================
