--------------------------- MODULE MC_IntoAttr ---------------------------
EXTENDS IntoAttr, Json
CONSTANTS MaxFields, EmitCases
VARIABLES st, phase
Attrs == Content \cup {Top, Parens0}
Typed(a) == a.k = "top" \/ \E i \in 1..3 : Of(a, Forms[i]) \in {"typed", "both"}
Init == phase = 0 /\ st = [n |-> 0, skip |-> {}, sa |-> None, fk |-> 0, fa |-> Empty]
Choose == /\ phase = 0 /\ phase' = 1
          /\ \E n \in 0..MaxFields, skip \in SUBSET (1..MaxFields), sa \in Attrs \cup {None}, fk \in 0..MaxFields, fa \in Attrs :
               /\ skip \subseteq 1..n /\ fk <= n
               /\ (fk = 0 => fa = Empty)
               \* a listed type needs something to convert
               /\ (sa.k # "none" /\ Typed(sa) => Len(Components(n, skip)) >= 1)
               \* the same impl twice is not a valid input: the struct-level conversion of a lone field and that
               \* field's own conversion, both into the field type
               /\ ~(fk # 0 /\ Components(n, skip) = <<fk>>
                    /\ \E x \in DocImpls(sa, fk, fa), y \in DocImpls(sa, fk, fa) :
                         x[1] = "struct" /\ y[1] = "field" /\ x[2] = y[2] /\ x[3] = "bare" /\ y[3] = "bare")
               /\ st' = [n |-> n, skip |-> skip, sa |-> sa, fk |-> fk, fa |-> fa]
Next == Choose
Spec == Init /\ [][Next]_<<st, phase>>
P_C08_IntoImpls == phase = 1 => SameImpls(st.sa, st.fk, st.fa)
\* a field attribute alone never produces a struct-level conversion
P_C08_FieldOnly == phase = 1 /\ st.sa.k = "none" /\ st.fk # 0 => \A x \in DocImpls(st.sa, st.fk, st.fa) : x[1] = "field"
Emit == EmitCases /\ phase = 1 =>
    PrintT(<<"CASE", ToJson([st |-> st, impls |-> DocImpls(st.sa, st.fk, st.fa), comps |-> Components(st.n, st.skip)])>>)
=============================================================================
