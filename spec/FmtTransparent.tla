--------------------------- MODULE FmtTransparent ---------------------------
(***************************************************************************)
(* C05.  When do the caller's formatting flags pass through?               *)
(*                                                                         *)
(* A case: derived trait D, a shape (1 or 2 fields, tuple or named), an    *)
(* attribute (none, or a literal described by its structure) and an        *)
(* argument list form.                                                     *)
(*   lit = [pre, post : BOOLEAN,          text before / after              *)
(*          esc  : BOOLEAN,               that text is an escaped brace    *)
(*                                        (`{{` before, `}}` after)        *)
(*          nph  : 0..2,                  0: text only ("ab", or with      *)
(*                                        escapes when post: "a{{b}}");   *)
(*                                        2: a second placeholder `{1}`    *)
(*          ref  : "next","pos0","pos1","pos2","pos_wrap0","name_field",   *)
(*                 "name_other",                                           *)
(*          ty   : one of the 11 format types,                             *)
(*          mod  : "none","ws" (`{x }`),"colon" (`{x:}`),"colon_ws"        *)
(*                 (`{x: }`),"width","fill","left","center","right",       *)
(*                 "sign" (+),"minus" (-),"alt","zero","prec"]             *)
(*   args \in {"none","pos_field","pos_expr","named_match","named_nomatch",*)
(*             "two"}                                                      *)
(* Doc*: the property statement.  Impl*: FmtAttribute::transparent_call /  *)
(* transparent_call_on_fields / Expansion::generate_body.                  *)
(* Outcome: <<"pass", trait, target>> | <<"inert">> | <<"error">>          *)
(*   target \in {"field","arg1"}                                           *)
(***************************************************************************)
EXTENDS Naturals, Sequences, FiniteSets, TLC

Traits9 == {"Display", "Debug", "Octal", "LowerHex", "UpperHex", "Pointer", "Binary", "LowerExp", "UpperExp"}
Types11 == Traits9 \cup {"LowerDebug", "UpperDebug"}
TraitOf(ty) == IF ty \in {"LowerDebug", "UpperDebug"} THEN "Debug" ELSE ty

\* "named_extra": the matching named argument and a second named argument nothing refers to (`v = .., w = ..`)
NArgs(a) == CASE a = "none" -> 0 [] a \in {"two", "named_extra"} -> 2 [] OTHER -> 1

(***************************************************************************)
(* What format_args! makes of the placeholder's reference                  *)
(***************************************************************************)
\* "arg1" | "arg2" | "field" | "error"
Denotes(lit, args) ==
    CASE lit.ref \in {"next", "pos0"} -> IF NArgs(args) >= 1 THEN "arg1" ELSE "error"
      [] lit.ref = "pos1" -> IF NArgs(args) >= 2 THEN "arg2" ELSE "error"
      [] lit.ref \in {"pos2", "pos_wrap0"} -> "error"        \* pos_wrap0: the index 2^64, which is 0 modulo 2^64
      [] lit.ref = "name_field" -> IF args = "none" THEN "field"
                                   ELSE IF args \in {"named_match", "named_extra"} THEN "arg1" ELSE "error"   \* unused argument
      [] lit.ref = "name_other" -> IF args \in {"named_match", "named_extra"} THEN "arg1" ELSE "error"
\* every explicit argument must be used by some placeholder
AllUsed(lit, args) ==
    CASE args = "two" -> lit.nph = 2 /\ lit.ref \in {"next", "pos0"}     \* `{} {1}`
      [] args = "named_extra" -> FALSE                                  \* `w` is never used: rustc rejects the literal
      [] OTHER -> TRUE
\* the second placeholder is `{1}`: needs a second argument
SecondOk(lit, args) == lit.nph = 2 => NArgs(args) = 2

RustcAccepts(lit, args) == IF lit.nph = 0 THEN args = "none"          \* nothing refers to an argument
                           ELSE Denotes(lit, args) # "error" /\ AllUsed(lit, args) /\ SecondOk(lit, args)

\* spellings of "no modifier at all": nothing, trailing whitespace, an empty format spec, both
Blank == {"none", "ws", "colon", "colon_ws"}
Bare(lit) == lit.nph = 1 /\ ~lit.pre /\ ~lit.post /\ lit.mod \in Blank
             /\ lit.ty \notin {"LowerDebug", "UpperDebug"}

(***************************************************************************)
(* Doc                                                                     *)
(***************************************************************************)
DocOutcome(hasAttr, nfields, D, lit, args) ==
    IF ~hasAttr
    THEN IF nfields = 1 THEN <<"pass", D, "field">> ELSE <<"error">>      \* several fields need an attribute
    ELSE IF ~RustcAccepts(lit, args) THEN <<"error">>
    ELSE IF Bare(lit) /\ NArgs(args) <= 1
         THEN <<"pass", TraitOf(lit.ty), IF Denotes(lit, args) = "field" THEN "field" ELSE "arg1">>
    ELSE <<"inert">>

(***************************************************************************)
(* Impl: transparent_call()                                                *)
(***************************************************************************)
IndexChecked == TRUE      \* FALSE on the pinned tree: the `Integer(_)` arm ignored the index

ImplTransparent(lit, args) ==
    /\ Bare(lit)                                  \* (1) one placeholder consuming the literal, (2) no modifiers
    /\ CASE lit.ref = "next" -> NArgs(args) = 1
         [] lit.ref = "pos0" -> NArgs(args) = 1
         [] lit.ref \in {"pos1", "pos2", "pos_wrap0"} -> IF IndexChecked THEN FALSE ELSE NArgs(args) = 1
         [] lit.ref \in {"name_field", "name_other"} -> args = "none" \/ args = "named_match"

ImplOutcome(hasAttr, nfields, D, lit, args) ==
    IF ~hasAttr
    THEN IF nfields = 1 THEN <<"pass", D, "field">> ELSE <<"error">>
    ELSE IF ImplTransparent(lit, args)
         THEN \* the literal never reaches format_args!; the expression is the argument or the named binding
              IF lit.ref \in {"name_field", "name_other"} /\ args = "none"
              THEN (IF lit.ref = "name_field" THEN <<"pass", TraitOf(lit.ty), "field">> ELSE <<"error">>)  \* unknown name
              ELSE <<"pass", TraitOf(lit.ty), "arg1">>
         ELSE IF RustcAccepts(lit, args) THEN <<"inert">> ELSE <<"error">>

Iff(hasAttr, nfields, D, lit, args) ==
    ImplOutcome(hasAttr, nfields, D, lit, args) = DocOutcome(hasAttr, nfields, D, lit, args)

(***************************************************************************)
(* The same variant under an enum-level attribute that mentions `_variant` *)
(*   sh \in {"none", "bare_variant" ("{_variant}"), "wrap" ("[{_variant}]")}*)
(* Doc: an enum-level attribute is "another attribute-driven case": the    *)
(* caller's flags leave the output unchanged.  The one exception the code  *)
(* documents (display.rs: "If shared_attr is a transparent call to         *)
(* _variant, then we consider it being absent") is `{_variant}` under the  *)
(* derived trait itself, i.e. Display, since `_variant` must be Display:   *)
(* there the variant's own outcome applies.                                *)
(***************************************************************************)
\* sh = "default": an enum-level literal WITHOUT `_variant` ("dflt"): used for, and only for, variants without an
\* attribute of their own (C07) - a variant with its own attribute is judged by that attribute alone
DocSharedDefault(hasAttr, inner) == IF hasAttr THEN inner ELSE <<"inert">>
DocShared(sh, D, inner) ==
    IF sh = "none" \/ inner[1] = "error" THEN inner
    ELSE IF sh = "bare_variant" /\ D = "Display" THEN inner
    ELSE <<"inert">>
ImplShared(sh, D, inner) ==
    LET containsVariant == TRUE
        calledTrait == "Display"                                   \* `{_variant}` carries no type
        hasShared == sh # "none" /\ (sh # "bare_variant" \/ calledTrait # D \/ ~containsVariant)
    IN  IF inner[1] = "error" THEN inner
        ELSE IF hasShared THEN <<"inert">>                          \* match <body> { _variant => write!(f, shared) }
        ELSE inner
\* Impl for "default": has_shared_attr, not wrapping: the variant's own attribute (transparent or not) is expanded as
\* on a struct; a variant without one gets `write!(f, <shared>)`
ImplSharedDefault(hasAttr, inner) == IF hasAttr THEN inner ELSE <<"inert">>
IffShared(sh, hasAttr, nfields, D, lit, args) ==
    IF sh = "default"
    THEN ImplSharedDefault(hasAttr, ImplOutcome(hasAttr, nfields, D, lit, args)) = DocSharedDefault(hasAttr, DocOutcome(hasAttr, nfields, D, lit, args))
    ELSE ImplShared(sh, D, ImplOutcome(hasAttr, nfields, D, lit, args)) = DocShared(sh, D, DocOutcome(hasAttr, nfields, D, lit, args))
=============================================================================
