SPECIFICATION Spec
CONSTANTS
  Traits = {"Display", "Debug", "LowerHex"}
  EmitCases = TRUE
INVARIANTS
  P_C04_ExplicitBounds
  P_C04_Sensitive
  Emit
CHECK_DEADLOCK FALSE
