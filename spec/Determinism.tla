--------------------------- MODULE Determinism ---------------------------
(***************************************************************************)
(* C19.  Expansion is a deterministic pure function of the derive input.   *)
(*                                                                         *)
(* Processes p \in Proc are compiler invocations; each has a hash seed     *)
(* (std's RandomState draws one per process).  An expansion iterates the   *)
(* keys of a hashed collection: the order is Order(hasher, seed, keys).    *)
(*   Hasher = "Fixed"  : utils::DeterministicState - the order does not    *)
(*                       depend on the seed                                *)
(*   Hasher = "Seeded" : std RandomState - it does                         *)
(* seed[p] stands for everything AMBIENT in a process that is not the      *)
(* derive input: the hash seed, but equally the environment variables      *)
(* (RUSTC_BOOTSTRAP, RUSTUP_TOOLCHAIN, locale, time zone), the working     *)
(* directory, heap addresses, and the byte offsets of the item in its      *)
(* source file; "Seeded" is any dependence on it.  The replay varies all   *)
(* of these between the processes it compares.                             *)
(* `global` models state shared between expansions of one process (the     *)
(* implementation has none: NextGlobal is the identity when Stateless).    *)
(* Expand(p, i) appends to the history of p and records the output.        *)
(***************************************************************************)
EXTENDS Naturals, Sequences, FiniteSets, TLC
CONSTANTS Proc, Input, Hasher, Stateless, Seeds

VARIABLES seed, history, out, global
vars == <<seed, history, out, global>>

None == <<"none">>
\* the keys of an input in the order the hasher yields them: with a fixed hasher a canonical order,
\* with a seeded one a rotation by the seed (any seed-dependent permutation would do)
Keys(i) == <<i, i + 10, i + 20>>
Rot(s, k) == [j \in 1..Len(s) |-> s[((j - 1 + k) % Len(s)) + 1]]
Order(h, sd, ks) == IF h = "Fixed" THEN ks ELSE Rot(ks, sd)
Render(i, order, g) == <<i, order, IF Stateless THEN 0 ELSE g>>
NextGlobal(g, i) == IF Stateless THEN g ELSE g + 1

Init == /\ seed \in [Proc -> Seeds]
        /\ history = [p \in Proc |-> <<>>]
        /\ out = [p \in Proc |-> [i \in Input |-> None]]
        /\ global = [p \in Proc |-> 0]
Expand(p, i) ==
    /\ Len(history[p]) < 2
    /\ history' = [history EXCEPT ![p] = Append(@, i)]
    /\ out' = [out EXCEPT ![p][i] = Render(i, Order(Hasher, seed[p], Keys(i)), global[p])]
    /\ global' = [global EXCEPT ![p] = NextGlobal(@, i)]
    /\ UNCHANGED seed
Next == \E p \in Proc, i \in Input : Expand(p, i)
Spec == Init /\ [][Next]_vars

\* the same input yields the same tokens in every process, whatever was expanded before
Function == \A p, q \in Proc, i \in Input : out[p][i] # None /\ out[q][i] # None => out[p][i] = out[q][i]
\* and re-expanding it in the same process changes nothing (action property)
Stable == [][\A p \in Proc, i \in Input : out[p][i] # None => out'[p][i] = out[p][i]]_vars
=============================================================================
