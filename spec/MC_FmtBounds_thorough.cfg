SPECIFICATION Spec
CONSTANTS
  EmitCases = TRUE
  Traits = {"Display", "Debug", "LowerHex", "Pointer"}
  UseTraits = {"Display", "Debug", "LowerHex"}
  MaxUses = 2
INVARIANTS
  P_C04_Sufficient
  P_C04_NotExcessive
  Emit
CHECK_DEADLOCK FALSE
