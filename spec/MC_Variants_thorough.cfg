SPECIFICATION Spec
CONSTANTS
  MaxVariants = 3
  EmitCases = TRUE
  AllowNamed = TRUE
INVARIANTS
  P_C11_Partition
  P_C11_TryIntoExact
  P_C11_Groups
  Emit
CHECK_DEADLOCK FALSE
