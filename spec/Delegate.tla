--------------------------- MODULE Delegate ---------------------------
(***************************************************************************)
(* C14.  Delegating derives operate on exactly the selected field.         *)
(*                                                                         *)
(* fields: sequence of per-field attribute marks                           *)
(*   "none" | "sel" (#[attr]) | "ign" (#[attr(ignore)] / skip)             *)
(*   | "fwd" (#[attr(forward)]) | "tys" (#[as_ref(Ty, ..)])                *)
(* sattr : struct-level attribute "none" | "fwd" | "tys"                   *)
(* family: "legacy" (Deref, DerefMut, Index, IndexMut, IntoIterator: the   *)
(*          State-based derives) or "asref" (AsRef, AsMut)                 *)
(* Doc*: the documentation's selection rule.  Impl*: State::new_impl's     *)
(* `default_enabled` (taken from the FIRST attributed field) +             *)
(* assert_single_enabled_field; as/mod.rs for AsRef.                       *)
(* Result: <<"fields", set, mode>> | <<"error">>                           *)
(***************************************************************************)
EXTENDS Naturals, Sequences, FiniteSets, TLC

Positive(a) == a \in {"sel", "fwd", "tys"}
N(fs) == Len(fs)

(***************************************************************************)
(* Doc                                                                     *)
(***************************************************************************)
\* the struct-level attribute of the legacy derives only supplies a default (forward) for the selected field
ModeOf(mark, sattr) == IF mark = "fwd" \/ sattr = "fwd" THEN "fwd" ELSE "sel"
DocLegacy(fs, sattr) ==
    LET pos == {i \in 1..N(fs) : Positive(fs[i])}
        ign == {i \in 1..N(fs) : fs[i] = "ign"}
    IN  IF pos # {} THEN (IF Cardinality(pos) = 1
                         THEN <<"fields", pos, ModeOf(fs[CHOOSE i \in pos : TRUE], sattr)>> ELSE <<"error">>)
        ELSE LET rest == (1..N(fs)) \ ign IN
             IF Cardinality(rest) = 1 THEN <<"fields", rest, ModeOf("none", sattr)>> ELSE <<"error">>

\* AsRef / AsMut: a struct attribute needs exactly one field; otherwise the positively attributed fields,
\* or - when there are only skips or nothing - every field that is not skipped
DocAsRef(fs, sattr) ==
    LET pos == {i \in 1..N(fs) : Positive(fs[i])}
        ign == {i \in 1..N(fs) : fs[i] = "ign"}
    IN  IF sattr # "none"
        THEN (IF N(fs) = 1 /\ fs[1] = "none" THEN <<"fields", {1}, sattr>> ELSE <<"error">>)
        ELSE IF pos # {} THEN (IF ign # {} THEN <<"error">> ELSE <<"fields", pos, "per-field">>)
        ELSE IF (1..N(fs)) \ ign = {} THEN <<"fields", {}, "sel">> ELSE <<"fields", (1..N(fs)) \ ign, "sel">>

(***************************************************************************)
(* Impl                                                                    *)
(***************************************************************************)
\* get_meta_info: enabled = Some(true) for a positive mark, Some(false) for ignore
EnabledOf(a) == CASE Positive(a) -> "yes" [] a = "ign" -> "no" [] OTHER -> "unset"
ImplLegacy(fs, sattr) ==
    LET attributed == {i \in 1..N(fs) : EnabledOf(fs[i]) # "unset"}
        first == IF attributed = {} THEN 0 ELSE CHOOSE i \in attributed : \A j \in attributed : i <= j
        \* default_enabled = !first_match.enabled
        defaultEnabled == IF first = 0 THEN TRUE ELSE EnabledOf(fs[first]) = "no"
        enabled == {i \in 1..N(fs) : EnabledOf(fs[i]) = "yes" \/ (EnabledOf(fs[i]) = "unset" /\ defaultEnabled)}
    IN  IF Cardinality(enabled) # 1 THEN <<"error">>           \* assert_single_enabled_field
        ELSE LET i == CHOOSE i \in enabled : TRUE IN
             <<"fields", enabled, ModeOf(fs[i], sattr)>>      \* info.into_full(defaults): forward inherited

ImplAsRef(fs, sattr) == DocAsRef(fs, sattr)       \* as/mod.rs follows the documented rule structurally

\* the documented attribute styles: nothing (one field), exactly one positive mark and no ignore,
\* ignores on all fields but one and no positive mark, or both at once with every field marked (the selected
\* field carries `forward`/`#[attr]`, each other field an explicit ignore)
Documented(fs, sattr) ==
    LET pos == {i \in 1..N(fs) : Positive(fs[i])}
        ign == {i \in 1..N(fs) : fs[i] = "ign"}
    IN  /\ (sattr # "none" => N(fs) = 1)      \* a struct-level attribute is documented for newtypes only
        /\ \/ (pos = {} /\ ign = {})
           \/ (pos # {} /\ ign = {})
           \/ (pos = {} /\ ign # {})
           \/ (pos # {} /\ ign # {} /\ pos \cup ign = 1..N(fs))

Which(fs, sattr) == Documented(fs, sattr) => ImplLegacy(fs, sattr) = DocLegacy(fs, sattr)
=============================================================================
