--------------------------- MODULE MC_Features ---------------------------
EXTENDS Features, Json
BrokenEdges == {e \in Edges : ~EdgeOk(e)}
ASSUME PrintT(<<"CASE", ToJson([broken |-> BrokenEdges, edges |-> Cardinality(Edges), items |-> Cardinality(DOMAIN Guard),
                                   helpers |-> {<<fs, DocHelpers(fs)>> : fs \in ProbeSets}])>>)
P_C20_NoDanglingAll == NoDanglingAll
P_C20_NoDangling == NoDangling
P_C20_Exposure == Exposure
P_C20_HelperExposure == HelperExposure
=============================================================================
