SPECIFICATION Spec
CONSTANTS
  MaxFields = 2
  EmitCases = TRUE
INVARIANTS
  P_C08_IntoImpls
  P_C08_FieldOnly
  Emit
CHECK_DEADLOCK FALSE
