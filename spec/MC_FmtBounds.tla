--------------------------- MODULE MC_FmtBounds ---------------------------
EXTENDS FmtBounds, Json
CONSTANTS EmitCases, Traits, UseTraits, MaxUses
VARIABLES c, phase

Params == {"T", "U", "none"}
FieldsOf(n, lvl) == [1..n -> [p : Params, fa : IF lvl = "debug_fields" THEN {"none", "skip", "fmt"} ELSE {"none", "skip"},
                              fref : 0..n]]
UseSet(n) == [f : 1..n, how : {"name", "pos", "alias", "posalias", "expr", "shadow", "shadowto"}, tr : UseTraits]
UsesOf(n) == {<<>>} \cup {<<u>> : u \in UseSet(n)}
             \cup (IF MaxUses >= 2 THEN {<<u, v>> : u \in UseSet(n), v \in UseSet(n)} ELSE {})
             \* always: two DIFFERENT fields by name, in both orders (a scan that stops at the first placeholder whose
             \* field is not generic loses the bound of a later one)
             \cup {p \in {<<u, v>> : u \in UseSet(n), v \in UseSet(n)} : p[1].how = "name" /\ p[2].how = "name" /\ p[1].f # p[2].f}
             \* always: ONE field twice in a row under two different traits (`{a} ({a:?})`): both bounds are needed
             \cup {p \in {<<u, v>> : u \in UseSet(n), v \in UseSet(n)} :
                      p[1].f = p[2].f /\ p[1].how = "name" /\ p[2].how = "name" /\ p[1].tr # p[2].tr}
             \* always: a field passed POSITIONALLY next to a named argument of the same name that stands for the other field
             \* (`"{} {a:?}", a, a = b`): the positional `a` is the field, only `{a}` is the alias
             \cup {p \in {<<u, v>> : u \in UseSet(n), v \in UseSet(n)} :
                      p[1].f = p[2].f /\ {p[1].how, p[2].how} = {"pos", "shadowto"}}
Levels == {"struct", "variant", "debug_fields", "shared_default", "shared_wrap"}

\* star: the literal starts with `{s:.*}` (explicit value, precision from the next positional argument) - every later
\* implicit placeholder is shifted by one, the bounds are not
Empty == [D |-> "Display", level |-> "init", fields |-> <<>>, hasAttr |-> FALSE, uses |-> <<>>, star |-> FALSE]
Init == c = Empty /\ phase = 0
\* two steps so that TLC's workers share the enumeration
Choose1 == phase = 0 /\ phase' = 1 /\ \E d \in Traits, l \in Levels, n \in 1..2 :
             \E fs \in FieldsOf(n, l) :
               /\ (\A i \in 1..n : (fs[i].fa # "fmt" => fs[i].fref = 0) /\ (fs[i].fa = "fmt" => fs[i].fref # 0))
               /\ c' = [D |-> d, level |-> l, fields |-> fs, hasAttr |-> FALSE, uses |-> <<>>, star |-> FALSE]
Choose2 == phase = 1 /\ phase' = 2 /\ \E h \in BOOLEAN, us \in UsesOf(Len(c.fields)), st \in BOOLEAN :
               /\ (st => h /\ c.level \in {"struct", "variant"})
               /\ c' = [c EXCEPT !.hasAttr = h, !.uses = us, !.star = st]
               /\ WellFormed(c')
               /\ (h => us # <<>>)
               \* at most one positional-style use (the rendering gives each its own argument, in order)
Next == Choose1 \/ Choose2
Spec == Init /\ [][Next]_<<c, phase>>

P_C04_Sufficient   == phase = 2 => Sufficient(c)
P_C04_NotExcessive == phase = 2 => NotExcessive(c)
Emit == EmitCases /\ phase = 2 =>
    PrintT(<<"CASE", ToJson([c |-> c, doc |-> DocBounds(c), impl |-> ImplBounds(c)])>>)
=============================================================================
