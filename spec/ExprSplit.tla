--------------------------- MODULE ExprSplit ---------------------------
(***************************************************************************)
(* C16.  Format arguments are split where Rust's expression grammar splits *)
(* them.                                                                   *)
(*                                                                         *)
(* Doc: an argument list is *generated* from expression forms, so the      *)
(* ground truth (which commas separate arguments) is known by              *)
(* construction; the harness validates it against syn's full Expr parser.  *)
(* Impl: impl/src/parsing.rs `Expr::parse` + `parse_terminated`,           *)
(* transcribed alternative by alternative.                                 *)
(*                                                                         *)
(* Tokens are strings.  Punctuation is one character per token, as the     *)
(* scanner sees it (`>>` is ">", ">"; `->` is "-", ">"; `||` is "|","|"),  *)
(* except "::" which the scanner recognises as a unit (path_sep).          *)
(* "G(" "G[" "G{" are delimited groups: one token tree each.               *)
(***************************************************************************)
EXTENDS Naturals, Sequences, FiniteSets, TLC

Idents == {"a", "b", "c", "d", "f", "m", "x", "K", "V", "A", "B", "T", "M", "X", "u8", "sentinel", "r#type"}
Groups == {"G(", "G[", "G{"}
IsIdent(t) == t \in Idents

(***************************************************************************)
(* Expression forms (each a token sequence that is ONE Rust expression)    *)
(***************************************************************************)
Forms == [
  ident        |-> <<"x">>,
  \* a keyword as a raw identifier: one identifier token, handed over as written (`r#type`, never `type`)
  rawident     |-> <<"r#type">>,
  literal      |-> <<"1">>,
  call         |-> <<"f", "G(">>,
  method       |-> <<"x", ".", "m", "G(">>,
  field        |-> <<"x", ".", "a">>,
  index        |-> <<"x", "G[">>,
  block        |-> <<"G{">>,
  macro        |-> <<"m", "!", "G(">>,
  reference    |-> <<"&", "x">>,
  not          |-> <<"!", "x">>,
  path         |-> <<"a", "::", "b">>,
  turbofish    |-> <<"f", "::", "<", "A", ",", "B", ">", "G(">>,
  turbomethod  |-> <<"x", ".", "m", "::", "<", "A", ",", "B", ">", "G(">>,
  turbonested  |-> <<"f", "::", "<", "M", "<", "K", ",", "V", ">", ",", "B", ">", "G(">>,
  turbochain   |-> <<"f", "::", "<", "A", ",", "B", ">", "G(", ".", "m", "G(">>,
  turbofnptr   |-> <<"f", "::", "<", "fn", "G(", "-", ">", "B", ">", "G(">>,
  turbofnptr2  |-> <<"f", "::", "<", "fn", "G(", "-", ">", "B", ",", "A", ">", "G(">>,
  \* an arrow TWO levels deep in the generic arguments: `f::<M<fn() -> B>, A>()`, `x as M<M<fn() -> K>, V>`
  turbofnnest  |-> <<"f", "::", "<", "M", "<", "fn", "G(", "-", ">", "B", ">", ",", "A", ">", "G(">>,
  castfnnest   |-> <<"x", "as", "M", "<", "M", "<", "fn", "G(", "-", ">", "K", ">", ",", "V", ">">>,
  qpath        |-> <<"<", "A", "as", "T", "<", "B", ",", "X", ">", ">", "::", "X">>,
  qpathcall    |-> <<"<", "A", "as", "T", "<", "B", ",", "X", ">", ">", "::", "f", "G(">>,
  \* the opening `<` directly followed by punctuation (proc_macro spacing Joint): `<&A as T<B, X>>::X`
  qpathref     |-> <<"<", "&", "A", "as", "T", "<", "B", ",", "X", ">", ">", "::", "X">>,
  qpathptr     |-> <<"<", "*", "const", "A", "as", "T", "<", "B", ",", "X", ">", ">", "::", "X">>,
  qpathglobal  |-> <<"<", "::", "a", "::", "A", "as", "T", "<", "B", ",", "X", ">", ">", "::", "X">>,
  qpathgeneric |-> <<"<", "&", "M", "<", "K", ",", "V", ">", "as", "T", ">", "::", "X">>,
  turboref     |-> <<"f", "::", "<", "&", "A", ",", "B", ">", "G(">>,
  cast         |-> <<"x", "as", "u8">>,
  castgeneric1 |-> <<"x", "as", "M", "<", "K", ">">>,
  castgeneric2 |-> <<"x", "as", "M", "<", "K", ",", "V", ">">>,
  castglobal   |-> <<"x", "as", "::", "a", "::", "M", "<", "K", ",", "V", ">">>,
  castptr      |-> <<"x", "as", "*", "const", "M", "<", "K", ",", "V", ">">>,
  castref      |-> <<"x", "as", "&", "M", "<", "K", ",", "V", ">">>,
  castarith    |-> <<"x", "as", "u8", "*", "a">>,
  \* an ASSOCIATED-TYPE BINDING inside generic arguments (`, X = u8` looks like the start of a named format argument):
  \* `x as &dyn T<B, X = u8>`, `f::<dyn T<A, X = B>>()`
  castbinding  |-> <<"x", "as", "&", "dyn", "T", "<", "B", ",", "X", "=", "u8", ">">>,
  turbobinding |-> <<"f", "::", "<", "dyn", "T", "<", "A", ",", "X", "=", "B", ">", ">", "G(">>,
  closure0     |-> <<"|", "|", "x">>,
  closure1     |-> <<"|", "a", "|", "a">>,
  closure2     |-> <<"|", "a", ",", "b", "|", "a", "+", "b">>,
  moveclosure  |-> <<"move", "|", "a", ",", "b", "|", "a">>,
  \* closures introduced by other keywords: the `|` after `async` / `async move` opens a parameter list as well
  \* a closure with a return type, a cast to a fn pointer: the type after `->` has generic arguments
  closureret   |-> <<"|", "a", "|", "-", ">", "M", "<", "K", ",", "V", ">", "G{">>,
  castfnret    |-> <<"x", "as", "fn", "G(", "-", ">", "M", "<", "K", ",", "V", ">">>,
  asyncclosure |-> <<"async", "|", "a", ",", "b", "|", "a">>,
  asyncmove    |-> <<"async", "move", "|", "a", ",", "b", "|", "a">>,
  less         |-> <<"a", "<", "b">>,
  greater      |-> <<"c", ">", "d">>,
  lesseq       |-> <<"a", "<", "=", "b">>,
  shl          |-> <<"a", "<", "<", "b">>,
  shr          |-> <<"a", ">", ">", "b">>,
  range        |-> <<"a", ".", ".", "b">>,
  eq           |-> <<"a", "=", "=", "b">>,
  add          |-> <<"a", "+", "b">>,
  binor        |-> <<"a", "|", "b">>,
  binor2       |-> <<"a", "|", "b", "|", "c">>,
  oror         |-> <<"a", "|", "|", "b">>,
  ifelse       |-> <<"if", "a", "G{", "else", "G{">>,
  try          |-> <<"f", "G(", "?">>
]
FormNames == DOMAIN Forms

(***************************************************************************)
(* Impl: the scanner                                                       *)
(***************************************************************************)
At(ts, i) == IF i >= 1 /\ i <= Len(ts) THEN ts[i] ELSE "EOF"

\* FALSE on the pinned tree (TLC counterexamples `x as M<K, V>` and `f::<fn() -> B, A>()`, confirmed
\* against the real scanner); repaired by a `fix:` commit in /repo.
CastFix  == TRUE
ArrowFix == TRUE
\* FALSE before the repair that made `->` (a closure's return type, a fn pointer's) start a type, and let the type after
\* `as` contain a fn pointer's argument list and arrow: `|x| -> M<K, V> { .. }`, `x as fn(A) -> M<K, V>` were split
ArrowTyFix == TRUE

\* balanced_pair: cursor right after the first `open`; returns the index after the matching
\* `close`, 0 if the input ends first (`c.token_tree()?`).  "-" ">" (an arrow) is skipped as a
\* unit; `close` is tried before `open`.
RECURSIVE Bal(_, _, _, _, _)
Bal(ts, i, o, c, count) ==
    IF count = 0 THEN i
    ELSE IF i > Len(ts) THEN 0
    ELSE IF ArrowFix /\ ts[i] = "-" /\ At(ts, i + 1) = ">" THEN Bal(ts, i + 2, o, c, count)
    ELSE IF ts[i] = c THEN Bal(ts, i + 1, o, c, count - 1)
    ELSE IF ts[i] = o THEN Bal(ts, i + 1, o, c, count + 1)
    ELSE Bal(ts, i + 1, o, c, count)

\* `cast`: "as" followed by the path of the type: (:: | <...> | & | * | lifetime | ident)*
TypeIdents == Idents \cup {"fn", "as", "move", "if", "else", "const", "mut", "dyn"}
RECURSIVE CastTail(_, _)
CastTail(ts, i) ==
    LET t == At(ts, i)
        g == IF t = "<" THEN Bal(ts, i + 1, "<", ">", 1) ELSE 0
    IN  IF t = "::" THEN CastTail(ts, i + 1)
        ELSE IF g # 0 THEN CastTail(ts, g)
        ELSE IF t \in {"&", "*"} \/ t \in TypeIdents THEN CastTail(ts, i + 1)
        ELSE IF ArrowTyFix /\ t = "G(" THEN CastTail(ts, i + 1)
        ELSE IF ArrowTyFix /\ t = "-" /\ At(ts, i + 1) = ">" THEN CastTail(ts, i + 2)
        ELSE i

\* one iteration of take_until1's `alt[...]` at a position that is not a comma
StepEnd(ts, i) ==
    LET a == IF ts[i] = "::" /\ At(ts, i + 1) = "<" THEN Bal(ts, i + 2, "<", ">", 1) ELSE 0
        b0 == IF ts[i] = "<" THEN Bal(ts, i + 1, "<", ">", 1) ELSE 0
        b == IF b0 # 0 /\ At(ts, b0) = "::" THEN b0 + 1 ELSE 0
        c == IF ts[i] = "|" THEN Bal(ts, i + 1, "|", "|", 1) ELSE 0
        d == IF CastFix /\ ts[i] = "as" THEN CastTail(ts, i + 1) ELSE 0
        e == IF ArrowTyFix /\ ts[i] = "-" /\ At(ts, i + 1) = ">" THEN CastTail(ts, i + 2) ELSE 0
    IN  IF a # 0 THEN a ELSE IF b # 0 THEN b ELSE IF c # 0 THEN c ELSE IF d # 0 THEN d ELSE IF e # 0 THEN e ELSE i + 1

RECURSIVE ScanExpr(_, _)
ScanExpr(ts, i) == IF i > Len(ts) \/ ts[i] = "," THEN i ELSE ScanExpr(ts, StepEnd(ts, i))

\* Expr::parse at i: [ok, end, ident]
ExprAt(ts, i) ==
    IF IsIdent(At(ts, i)) /\ At(ts, i + 1) \in {"EOF", ","}
        THEN [ok |-> TRUE, end |-> i + 1, ident |-> TRUE]
    ELSE LET e == ScanExpr(ts, i) IN [ok |-> e > i, end |-> e, ident |-> FALSE]

\* FmtArgument::parse: optional `ident =` alias (peek ident, peek2 `=`), then Expr
ArgAt(ts, i) ==
    LET hasAlias == IsIdent(At(ts, i)) /\ At(ts, i + 1) = "=" /\ At(ts, i + 2) # "="   \* not `==`
        e == ExprAt(ts, IF hasAlias THEN i + 2 ELSE i)
    IN  [ok |-> e.ok, end |-> e.end, ident |-> e.ident /\ ~hasAlias, alias |-> hasAlias,
         from |-> i]

\* parse_terminated: returns the sequence of [from, to, ident] or <<"error">>
RECURSIVE ImplList(_, _, _)
ImplList(ts, i, acc) ==
    IF i > Len(ts) THEN acc
    ELSE LET a == ArgAt(ts, i) IN
         IF ~a.ok THEN <<[from |-> 0, to |-> 0, ident |-> FALSE]>>
         ELSE LET acc2 == Append(acc, [from |-> a.from, to |-> a.end - 1, ident |-> a.ident]) IN
              IF a.end > Len(ts) THEN acc2
              ELSE IF ts[a.end] = "," THEN ImplList(ts, a.end + 1, acc2)
              ELSE <<[from |-> 0, to |-> 0, ident |-> FALSE]>>
ImplSplit(ts) == ImplList(ts, 1, <<>>)

(***************************************************************************)
(* Doc: the list as generated.  An argument is [form, alias]               *)
(***************************************************************************)
ArgTokens(arg) == (IF arg.alias THEN <<"b", "=">> ELSE <<>>) \o Forms[arg.form]
RECURSIVE ListTokens(_, _)
ListTokens(args, trailing) ==
    IF args = <<>> THEN <<>>
    ELSE IF Len(args) = 1 THEN ArgTokens(args[1]) \o (IF trailing THEN <<",">> ELSE <<>>)
    ELSE ArgTokens(args[1]) \o <<",">> \o ListTokens(Tail(args), trailing)
RECURSIVE DocFrom(_, _, _)
DocFrom(args, j, pos) ==
    IF j > Len(args) THEN <<>>
    ELSE LET n == Len(ArgTokens(args[j])) IN
         <<[from |-> pos, to |-> pos + n - 1,
            ident |-> args[j].form \in {"ident", "rawident"} /\ ~args[j].alias]>> \o DocFrom(args, j + 1, pos + n + 1)
DocSplit(args) == DocFrom(args, 1, 1)

(***************************************************************************)
(* Known deviation of the implementation (known_findings.jsonl):           *)
(*  KD2 binary `|` is taken for the start of a closure parameter list and  *)
(*      paired with the next `|`, even across an argument-separating comma *)
(*      (`a | b, c | d`).  Telling a closure from a binary `|` needs the   *)
(*      expression context the token scanner does not keep.                *)
(* (KD1 `x as M<K, V>` and KD3 `f::<fn() -> B, A>()` were repaired.)       *)
(***************************************************************************)
KD1(args) == ~CastFix /\ \E j \in 1..Len(args) : args[j].form = "castgeneric2"
BarForms == {"binor", "binor2", "oror", "closure0", "closure1", "closure2", "moveclosure", "asyncclosure", "asyncmove", "closureret"}
KD2(args) == \E j \in 1..Len(args) : args[j].form \in {"binor", "binor2"}
               /\ \E k \in 1..Len(args) : k # j /\ args[k].form \in BarForms
KD3(args) == ~ArrowFix /\ \E j \in 1..Len(args) : args[j].form = "turbofnptr2"
KnownDeviation(args) == KD1(args) \/ KD2(args) \/ KD3(args)

SplitAgrees(args, trailing) == ImplSplit(ListTokens(args, trailing)) = DocSplit(args)
=============================================================================
