SPECIFICATION Spec
CONSTANTS
  Traits = {"Display", "Debug", "LowerHex", "Octal", "Binary", "UpperHex", "LowerExp", "UpperExp", "Pointer"}
  EmitCases = TRUE
INVARIANTS
  P_C04_ExplicitBounds
  P_C04_Sensitive
  Emit
CHECK_DEADLOCK FALSE
