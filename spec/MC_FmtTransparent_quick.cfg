SPECIFICATION Spec
CONSTANTS
  EmitCases = TRUE
  DerivedTraits = {"Display", "LowerHex", "Debug"}
  PhTypes = {"Display", "Debug", "LowerHex", "LowerDebug", "Pointer"}
INVARIANTS
  P_C05_Iff
  P_C05_IffShared
  P_C05_Trait
  Emit
CHECK_DEADLOCK FALSE
