SPECIFICATION Spec
INVARIANTS
  P_C20_NoDangling
  P_C20_Exposure
  P_C20_HelperExposure
  P_C20_NoDanglingAll
CHECK_DEADLOCK FALSE
