SPECIFICATION Spec
CONSTANTS
  Derives = {"Add", "Sub", "BitAnd", "BitOr", "BitXor", "AddAssign", "SubAssign", "BitAndAssign", "BitOrAssign", "BitXorAssign", "AsMut", "AsRef", "Constructor", "Debug", "Deref", "DerefMut", "Display", "Binary", "Octal", "LowerHex", "UpperHex", "LowerExp", "UpperExp", "Pointer", "Error", "From", "FromStr", "Index", "IndexMut", "Into", "IntoIterator", "IsVariant", "Mul", "Div", "Rem", "Shr", "Shl", "MulAssign", "DivAssign", "RemAssign", "ShrAssign", "ShlAssign", "Not", "Neg", "Sum", "Product", "TryFrom", "TryInto", "TryUnwrap", "Unwrap"}
  EmitCases = TRUE
  BodySet = {"bare", "empty_parens", "ident", "two_idents", "unknown_ident", "int_literal", "string_literal", "eq_string", "nested_list", "nested_literal", "legacy_types_int", "legacy_fmt", "path", "not_wrapped", "type_list", "unit_type", "tuple_type", "ref_list", "duplicate_attr", "trailing_comma", "fmt_literal", "fmt_bad_literal", "fmt_unicode", "fmt_huge_number", "fmt_args_deep", "keyword", "punct_soup", "group_soup", "word_repr", "word_forward", "word_skip", "nested_trailing", "nested_trailing2", "fmt_variant", "fmt_variant_wrap", "types_nocomma", "forms_nocomma", "not_wrapped", "path", "path_global", "path_call", "path_generic", "legacy_in_owned", "legacy_in_ref", "legacy_in_ref_mut", "rename_lower", "rename_upper", "rename_pascal", "rename_camel", "rename_snake", "rename_scream", "rename_kebab", "rename_screamkebab", "legacy_fmt_int", "legacy_fmt_none", "legacy_fmt_nonstr", "legacy_fmt_only_args"}
INVARIANTS
  P_C18_Domain
  Emit
PROPERTIES
  P_C18_Terminates
CHECK_DEADLOCK FALSE
