----------------------------- MODULE FmtCounter -----------------------------
(***************************************************************************)
(* C03, unbounded part: the implicit positional counter, for literals with *)
(* ANY number of placeholders.  FmtGrammar.tla resolves the placeholders   *)
(* of every bounded literal (Resolve); this module is the same counter as  *)
(* a state machine consuming one placeholder per step (FmtCounterStep),    *)
(* so that                                                                 *)
(*   - Apalache shows IndInv inductive over unbounded integers,            *)
(*   - TLAPS proves Spec => []Agree (FmtCounter_proofs),                   *)
(*   - the machine with the index handed out BEFORE `.*` is counted is     *)
(*     refuted (NextBroken, the negative control),                         *)
(*   - TLC (MC_FmtDeriv / MC_FmtStrings, P_C03_Machine) folds FStep over   *)
(*     the placeholders of every bounded literal and compares with         *)
(*     Resolve, which ties the machine to the module replayed into the     *)
(*     real parser.                                                        *)
(***************************************************************************)
EXTENDS Integers, FmtCounterStep

VARIABLES
    \* @type: Int;
    next,
    \* @type: Int;
    n,
    \* @type: Int;
    docArg,
    \* @type: Int;
    implArg,
    \* @type: Int;
    docPrec,
    \* @type: Int;
    cntI,
    \* @type: Int;
    cntS

\* @type: <<Int, Int, Int, Int, Int, Int, Int>>;
vars == <<next, n, docArg, implArg, docPrec, cntI, cntS>>

\* @type: $fstate;
St == [next |-> next, n |-> n, docArg |-> docArg, implArg |-> implArg, docPrec |-> docPrec, cntI |-> cntI, cntS |-> cntS]
\* @type: ($fstate) => Bool;
Becomes(t) == /\ next' = t.next /\ n' = t.n /\ docArg' = t.docArg /\ implArg' = t.implArg
              /\ docPrec' = t.docPrec /\ cntI' = t.cntI /\ cntS' = t.cntS

Init == /\ next = FInit.next /\ n = FInit.n /\ docArg = FInit.docArg /\ implArg = FInit.implArg
        /\ docPrec = FInit.docPrec /\ cntI = FInit.cntI /\ cntS = FInit.cntS

Placeholder(implicit, star, idx) == Becomes(FStep(St, implicit, star, idx, TRUE))
Next == \E implicit \in BOOLEAN, star \in BOOLEAN, idx \in Nat : Placeholder(implicit, star, idx)
NextBroken == \E implicit \in BOOLEAN, star \in BOOLEAN, idx \in Nat : Becomes(FStep(St, implicit, star, idx, FALSE))

Spec == Init /\ [][Next]_vars

TypeOK == /\ next \in Int /\ n \in Int /\ docArg \in Int /\ implArg \in Int
          /\ docPrec \in Int /\ cntI \in Int /\ cntS \in Int

\* every placeholder gets the argument format_args! gives it
Agree == docArg = implArg
\* the counter is the number of argument-less placeholders plus the number of `.*` so far (explicit ones never advance it),
\* and the precision of a `.*` placeholder is taken from the argument BEFORE the value's
CounterLaw == next = cntI + cntS
IndInv == /\ TypeOK
          /\ n = next
          /\ CounterLaw
          /\ cntI >= 0 /\ cntS >= 0
          /\ Agree
          /\ docPrec < next
=============================================================================
