--------------------------- MODULE Features ---------------------------
(***************************************************************************)
(* C20.  Every feature works on its own: the cfg gating graph.             *)
(*                                                                         *)
(* FeaturesData (generated from the working tree by lib/props/c20.py):     *)
(*   Feature        the derive features of the two manifests               *)
(*   Guard          item -> condition in DNF over features (a set of       *)
(*                  conjunctions, each a set of features; {{}} = always)   *)
(*   Edges          <<a, b>>: item a needs item b (a module uses a helper  *)
(*                  of utils.rs, an expansion names a facade type, a       *)
(*                  derive lives in a module, a module names an optional   *)
(*                  crate that a feature must activate)                    *)
(* State: the set `on` of enabled features (closed: the facade's feature f *)
(* enables the proc-macro crate's f).                                      *)
(***************************************************************************)
EXTENDS Naturals, Sequences, FiniteSets, TLC, FeaturesData

Holds(dnf, on) == \E c \in dnf : c \subseteq on
Mentioned(a) == UNION Guard[a]

\* edge-wise, for ALL feature sets: only the features the two guards mention matter
EdgeOk(e) == \A on \in SUBSET (Mentioned(e[1]) \cup Mentioned(e[2])) :
                 Holds(Guard[e[1]], on) => Holds(Guard[e[2]], on)
NoDanglingAll == \A e \in Edges : EdgeOk(e)

VARIABLE on
Init == on = {}
Enable(f) == Cardinality(on) < 2 /\ f \notin on /\ on' = on \cup {f}
Next == \E f \in Feature : Enable(f)
Spec == Init /\ [][Next]_on
\* state-wise, for every single feature and every pair
NoDangling == \A e \in Edges : Holds(Guard[e[1]], on) => Holds(Guard[e[2]], on)
\* a derive is exposed exactly with its feature
Exposure == \A d \in DOMAIN DeriveFeature : Holds(Guard[d], on) <=> DeriveFeature[d] \in on

\* The helper types of the facade and the features that own each of them: the documented contract ("exposes exactly the
\* derives and helper types of the enabled features"), fixed here and NOT extracted from the tree.
HelperOwner == [BinaryError |-> {"add", "mul"}, WrongVariantError |-> {"add", "mul"}, UnitError |-> {"add", "mul", "not"},
                FromStrError |-> {"from_str"}, TryFromReprError |-> {"try_from"}, TryIntoError |-> {"try_into"},
                TryUnwrapError |-> {"try_unwrap"}]
DocHelpers(fs) == {h \in DOMAIN HelperOwner : HelperOwner[h] \cap fs # {}}
\* where the extracted facade names a helper in a guarded `pub use`, the guard is the owner table's (state-wise);
\* what the built crate REALLY exports - globs included - is observed by the exposure probes and compared with DocHelpers
HelperExposure == \A h \in DOMAIN HelperOwner :
    ("facade:" \o h) \in DOMAIN Guard => (Holds(Guard["facade:" \o h], on) <=> HelperOwner[h] \cap on # {})
=============================================================================
