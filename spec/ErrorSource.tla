--------------------------- MODULE ErrorSource ---------------------------
(***************************************************************************)
(* C09.  Which field `Error::source()` returns.                            *)
(*                                                                         *)
(* Doc*: the documented selection rules (impl/doc/error.md + the property  *)
(*       statement), over the declared fields.                             *)
(* Impl*: impl/src/error.rs, with its two index spaces kept apart:         *)
(*       selection runs over the ENABLED (non-ignored) fields and yields   *)
(*       an index into that list; patterns (`matcher`), `len` and the      *)
(*       inferred bound are taken over ALL fields.                         *)
(*                                                                         *)
(* A layout is a sequence of fields                                        *)
(*   [attr, name, ty]                                                      *)
(*   attr \in {"none","source","not_source","backtrace","not_backtrace",   *)
(*             "ignore","source_backtrace"} and the two-parameter spellings*)
(*             "nb_source" = #[error(not(backtrace), source)], "source_nb",*)
(*             "ns_backtrace" = #[error(not(source), backtrace)],          *)
(*             "backtrace_ns" (every parameter of one attribute counts,    *)
(*             in any order)                                               *)
(*   name \in {"source","backtrace","other"}   (meaningful when named)     *)
(*   ty   \in {"err","generic","assoc","box","bt"} ("bt": a type whose path *)
(*             ends in `Backtrace`)                                        *)
(***************************************************************************)
EXTENDS Naturals, Sequences, FiniteSets, TLC

Attrs == {"none", "source", "not_source", "backtrace", "not_backtrace", "ignore", "source_backtrace",
          "nb_source", "source_nb", "ns_backtrace", "backtrace_ns"}
Names == {"source", "backtrace", "other"}
Types == {"err", "generic", "assoc", "box", "bt", "bterr"}     \* "assoc": `T::Assoc` of a type parameter
\* the rules look at the NAME of the type: "bterr" is a user error type that happens to be called `Backtrace`
NamedBacktrace(ty) == ty \in {"bt", "bterr"}

SrcFlag(a) == CASE a \in {"source", "source_backtrace", "nb_source", "source_nb"} -> "yes"
                [] a \in {"not_source", "ns_backtrace", "backtrace_ns"} -> "no" [] OTHER -> "unset"
BtFlag(a)  == CASE a \in {"backtrace", "source_backtrace", "ns_backtrace", "backtrace_ns"} -> "yes"
                [] a \in {"not_backtrace", "nb_source", "source_nb"} -> "no" [] OTHER -> "unset"
Ignored(f) == f.attr = "ignore"

All(l)     == 1..Len(l)
Enabled(l) == {i \in All(l) : ~Ignored(l[i])}

(***************************************************************************)
(* Doc                                                                     *)
(***************************************************************************)
\* default (attribute-less) candidates, by the documented rules; `len` counts the declared fields
DocDefaultSource(l, named, i) ==
    IF named THEN l[i].name = "source" ELSE Len(l) = 1 /\ ~NamedBacktrace(l[i].ty)
DocDefaultBacktrace(l, named, i) ==
    IF named THEN l[i].name = "backtrace" \/ NamedBacktrace(l[i].ty) ELSE NamedBacktrace(l[i].ty)

\* result: <<"field", i>> | <<"none">> | <<"error">>
Pick(explicit, inferred) ==
    IF Cardinality(explicit) > 1 THEN <<"error">>
    ELSE IF Cardinality(explicit) = 1 THEN <<"field", CHOOSE i \in explicit : TRUE>>
    ELSE IF Cardinality(inferred) > 1 THEN <<"error">>
    ELSE IF Cardinality(inferred) = 1 THEN <<"field", CHOOSE i \in inferred : TRUE>>
    ELSE <<"none">>

DocBacktrace(l, named) ==
    Pick({i \in Enabled(l) : BtFlag(l[i].attr) = "yes"},
         {i \in Enabled(l) : BtFlag(l[i].attr) = "unset" /\ DocDefaultBacktrace(l, named, i)})

DocSourceDirect(l, named) ==
    Pick({i \in Enabled(l) : SrcFlag(l[i].attr) = "yes"},
         {i \in Enabled(l) : SrcFlag(l[i].attr) = "unset" /\ DocDefaultSource(l, named, i)})

\* "... or the non-backtrace field of a two-field tuple"
DocSource(l, named) ==
    LET d == DocSourceDirect(l, named)
        b == DocBacktrace(l, named)
    IN  IF d[1] = "error" \/ b[1] = "error" THEN <<"error">>
        ELSE IF d[1] = "field" THEN d
        ELSE IF ~named /\ Len(l) = 2 /\ b[1] = "field"
             THEN LET o == 3 - b[2] IN
                  IF o \in Enabled(l) /\ SrcFlag(l[o].attr) # "no" THEN <<"field", o>> ELSE <<"none">>
        ELSE <<"none">>

(***************************************************************************)
(* Impl                                                                    *)
(***************************************************************************)
\* IndexFix: the enabled->all mapping through `field_indexes` (FALSE on the pinned tree)
IndexFix == TRUE

EnabledSeq(l) == LET RECURSIVE Go(_) Go(i) == IF i > Len(l) THEN <<>> ELSE
                         (IF Ignored(l[i]) THEN <<>> ELSE <<i>>) \o Go(i + 1)
                 IN Go(1)        \* field_indexes (1-based): position k in the enabled list -> declared index

\* parse_field_impl over the enabled list: result is a position k in the enabled list
ImplPick(l, named, flagOf(_), default(_, _, _)) ==
    LET es == EnabledSeq(l)
        explicit == {k \in 1..Len(es) : flagOf(l[es[k]].attr) = "yes"}
        inferred == {k \in 1..Len(es) : flagOf(l[es[k]].attr) = "unset" /\ default(l, named, es[k])}
    IN Pick(explicit, inferred)

ImplSel(l, named) ==
    LET es == EnabledSeq(l)
        s  == ImplPick(l, named, SrcFlag, DocDefaultSource)   \* the closures are the documented defaults, len = ALL
        b  == ImplPick(l, named, BtFlag, DocDefaultBacktrace)
    IN  IF s[1] = "error" \/ b[1] = "error" THEN [res |-> "error", k |-> 0, panic |-> FALSE]
        ELSE IF s[1] = "field" THEN [res |-> "field", k |-> s[2], panic |-> FALSE]
        ELSE \* infer_source_field(&state.fields, ..): needs exactly two DECLARED fields
             IF ~named /\ Len(l) = 2 /\ b[1] = "field"
             THEN IF IndexFix
                  THEN LET oAll == 3 - es[b[2]]
                           pos  == {k \in 1..Len(es) : es[k] = oAll}
                       IN IF pos = {} THEN [res |-> "none", k |-> 0, panic |-> FALSE]
                          ELSE LET k == CHOOSE k \in pos : TRUE IN
                               IF SrcFlag(l[es[k]].attr) # "no" THEN [res |-> "field", k |-> k, panic |-> FALSE]
                               ELSE [res |-> "none", k |-> 0, panic |-> FALSE]
                  ELSE LET k == ((b[2] - 1 + 1) % 2) + 1 IN       \* (backtrace + 1) % 2, 0-based
                       IF k > Len(es) THEN [res |-> "none", k |-> 0, panic |-> TRUE]   \* infos[source] out of range
                       ELSE IF SrcFlag(l[es[k]].attr) # "no" THEN [res |-> "field", k |-> k, panic |-> FALSE]
                       ELSE [res |-> "none", k |-> 0, panic |-> FALSE]
             ELSE [res |-> "none", k |-> 0, panic |-> FALSE]

\* the declared field that source() hands out:
\*  struct : self.<members[k]>            (enabled list: right field)
\*  variant: matcher(&[k]) binds declared field k (ALL fields) unless mapped through field_indexes
ImplSource(l, named, isVariant) ==
    LET sel == ImplSel(l, named)
        es  == EnabledSeq(l)
    IN  IF sel.panic THEN <<"panic">>
        ELSE IF sel.res = "error" THEN <<"error">>
        ELSE IF sel.res = "none" THEN <<"none">>
        ELSE IF isVariant /\ ~IndexFix THEN <<"field", sel.k>> ELSE <<"field", es[sel.k]>>

\* the field whose type decides the inferred `T: Error` bound: state.fields[k] unless fixed
ImplBoundField(l, named) ==
    LET sel == ImplSel(l, named)
        es  == EnabledSeq(l)
    IN  IF sel.res # "field" THEN 0 ELSE IF IndexFix THEN es[sel.k] ELSE sel.k

(***************************************************************************)
(* Extension beyond C09: what `provide()` offers for a `Backtrace` request *)
(* (error.md, "When and how does it derive provide()").                    *)
(*   the detected backtrace field, if it is a Backtrace itself, is         *)
(*   provided by reference; if the backtrace field IS the source, the      *)
(*   request is forwarded to the source's own provide(); a separate source *)
(*   is asked after the backtrace was provided (first provider wins).      *)
(* Result: <<"field", i>> | <<"from_source", i>> | <<"none">> | <<"error">>*)
(***************************************************************************)
DocProvide(l, named) ==
    LET b == DocBacktrace(l, named)
        s == DocSource(l, named)
    IN  IF b[1] = "error" \/ s[1] = "error" THEN <<"error">>
        ELSE IF b[1] # "field" THEN <<"none">>
        ELSE IF s = b THEN <<"from_source", b[2]>>
        ELSE <<"field", b[2]>>
\* Impl: render_provide_as_struct / ..._enum_variant_match_arm; the index mapping is the one of IndexFix
ImplProvide(l, named, isVariant) ==
    LET es == EnabledSeq(l)
        sel == ImplSel(l, named)
        b  == ImplPick(l, named, BtFlag, DocDefaultBacktrace)
    IN  IF sel.panic THEN <<"panic">>
        ELSE IF sel.res = "error" \/ b[1] = "error" THEN <<"error">>
        ELSE IF b[1] # "field" THEN <<"none">>
        ELSE LET bAll == IF isVariant /\ ~IndexFix THEN b[2] ELSE es[b[2]] IN
             IF sel.res = "field" /\ sel.k = b[2] THEN <<"from_source", bAll>> ELSE <<"field", bAll>>
Provide(l, named, isVariant) == ImplProvide(l, named, isVariant) = DocProvide(l, named)

(***************************************************************************)
(* The enum around a variant: its companion variant                        *)
(*   comp \in {"unit" (`Other`), "ignored" (`#[error(ignore)] Ign(E)`),     *)
(*             "sourced" (`W { source: E }`), "ignored_src" (`#[error(ignore)]*)
(*             Ign(#[error(source)] E)`: a field attribute inside an       *)
(*             ignored variant does not bring it back)}                    *)
(* Doc: a value of the companion variant has the source its own layout     *)
(* gives (none / none - the whole variant is ignored / its field); the     *)
(* generated `match` must cover every variant, whatever the mix.           *)
(* Impl: render_enum - one arm per ENABLED variant that has a source; a    *)
(* catch-all `_ => None` is added when there are fewer arms than variants  *)
(* (ALL variants, ignored ones included).                                  *)
(***************************************************************************)
DocCompanion(comp) == IF comp = "sourced" THEN <<"field", 1>> ELSE <<"none">>
ImplMatchCovers(l, named, comp) ==
    LET mainArm == IF ImplSel(l, named).res = "field" THEN 1 ELSE 0
        compArm == IF comp = "sourced" THEN 1 ELSE 0
        arms == mainArm + compArm
        variants == 2                                   \* state.variants.len(): ignored ones count
        wildcard == arms # 0 /\ arms < variants
    IN  arms = 0 \/ wildcard \/ arms = variants          \* arms = 0: the body is `None` without a match
Exhaustive(l, named, comp) == ImplMatchCovers(l, named, comp)

(***************************************************************************)
(* Properties of one layout                                                *)
(***************************************************************************)
Select(l, named, isVariant) == ImplSource(l, named, isVariant) = DocSource(l, named)
NoPanic(l, named)           == ~ImplSel(l, named).panic
BoundRight(l, named)        == DocSource(l, named)[1] = "field" => ImplBoundField(l, named) = DocSource(l, named)[2]
\* marking a non-selected, attribute-less field `ignore` never changes the selected field
WithIgnore(l, j) == [l EXCEPT ![j].attr = "ignore"]
IgnoreStable(l, named) ==
    \A j \in All(l) :
        LET d == DocSource(l, named) IN
        (d[1] = "field" /\ d[2] # j /\ l[j].attr = "none"
            /\ DocBacktrace(l, named) # <<"field", j>>)      \* (the backtrace field takes part in the 2-tuple rule)
        => DocSource(WithIgnore(l, j), named) = d
=============================================================================
