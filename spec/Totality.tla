--------------------------- MODULE Totality ---------------------------
(***************************************************************************)
(* C18.  Expansion is total: an implementation or a diagnostic, in bounded *)
(* time - never an internal failure.                                       *)
(*                                                                         *)
(* The pipeline as a small state machine per expansion request:            *)
(*   requested --Parse--> parsed | rejected(diagnostic)                    *)
(*   parsed   --Expand--> emitted(impl) | rejected(diagnostic)             *)
(* plus the failure transitions the property forbids:                      *)
(*   * --Abort(kind)--> aborted      kind \in InternalKinds                *)
(*   * --Hang--> hung                                                      *)
(* The specification's Next contains only the allowed transitions; a       *)
(* recorded execution of the real expanders is a behaviour of it iff no    *)
(* forbidden transition happened (Trace_Totality).                         *)
(*                                                                         *)
(* The case space (MC_Totality) is derive x item shape x attribute         *)
(* position x attribute body form, so that every helper attribute of every *)
(* derive meets every malformed body form on every item kind.              *)
(***************************************************************************)
EXTENDS Naturals, Sequences, FiniteSets, TLC

InternalKinds == {"index_out_of_bounds", "unwrap_none", "unwrap_err", "unreachable", "unimplemented",
                  "arithmetic_overflow", "slice_or_char_boundary", "expect_failed", "bare_assert", "refcell",
                  "stack_overflow", "capacity_overflow", "built_unparsable_tokens", "dependency_assertion"}
Outcomes == {"impl", "diagnostic"} \cup {"internal:" \o k : k \in InternalKinds} \cup {"timeout"}
Allowed(o) == o \in {"impl", "diagnostic"}

\* classification of a panic payload (shared, as a table, with the harness; see lib/props/c18.py):
\* deliberate, descriptive panics for unsupported item kinds count as diagnostics - the compiler shows their text
Shapes == {"unit_struct", "tuple0", "tuple1", "tuple1_unit", "tuple2", "named0", "named1", "named2", "enum_empty", "enum_unit",
           "enum_tuple", "enum_named", "enum_mixed", "union", "generic_struct", "generic_enum", "raw_names",
           \* raw identifiers as the names of field-less variants, of a struct and its fields, of a newtype
           "raw_unit_enum", "raw_struct", "raw_newtype",
           \* field types containing EXPRESSIONS: an array length that is a constant's path, a call, a const block
           "array_const",
           \* field-less items that nevertheless have a where-clause
           "unit_where", "tuple0_where", "named0_where", "enum_empty_where",
           \* enums with EXPLICIT DISCRIMINANTS of every spelling rustc accepts for the repr: literals at and beyond the
           \* ends of isize / i64 / u64 (decimal, hex with separators, suffixed), casts, shifts, blocks, char literals
           "enum_disc64", "enum_disc128", "enum_disc_exprs",
           \* unit items whose NAMES are unusual: non-ASCII first letters (1 char = 2..4 bytes), underscores only, one
           \* character, a raw identifier, digits after the first character
           "enum_odd_names", "struct_odd_name", "struct_underscores",
           \* the ATTRIBUTED variant has two fields (tuple / named): type lists of the wrong arity land here
           "enum_pair", "enum_pair_named"}
\* "field_pair": the first AND the second field carry an attribute each (two bodies): the derives that read all
\* fields' attributes together (which marks may be mixed) have code only this reaches
Positions == {"none", "item", "variant", "field", "field_pair"}
PairBodies == {"bare", "ident", "word_skip", "word_forward", "type_list"}
Bodies == {"bare", "empty_parens", "ident", "two_idents", "unknown_ident", "int_literal", "string_literal",
           "eq_string", "nested_list", "nested_literal", "legacy_types_int", "legacy_fmt", "path", "not_wrapped",
           "type_list", "unit_type", "tuple_type", "ref_list", "duplicate_attr", "trailing_comma", "fmt_literal", "fmt_bad_literal",
           "fmt_unicode", "fmt_huge_number", "fmt_args_deep", "keyword", "punct_soup", "group_soup",
           \* the single words the attribute grammars know (they open the main path of derives that need one: TryFrom's repr)
           "word_repr", "word_forward", "word_skip",
           \* trailing commas inside and after a nested list
           "nested_trailing", "nested_trailing2",
           \* literals mentioning `_variant` (the enum-level wrapping path of the Display-like derives), bare and wrapped
           "fmt_variant", "fmt_variant_wrap",
           \* list entries with no comma between them
           "types_nocomma", "forms_nocomma",
           \* parameters that are paths, not single identifiers: several segments, a leading `::`, a call on a path
           "path_global", "path_call", "path_generic",
           \* the legacy `types(..)` list inside each of the reference-kind wrappers
           "legacy_in_owned", "legacy_in_ref", "legacy_in_ref_mut",
           \* `rename_all = "<casing>"` for each of the eight casings (the Display-like derives convert the item's / variant's name)
           "rename_lower", "rename_upper", "rename_pascal", "rename_camel", "rename_snake", "rename_scream", "rename_kebab", "rename_screamkebab",
           \* the legacy `fmt = ..` form with nothing usable after it: a non-string value, no value at all, several non-strings
           "legacy_fmt_int", "legacy_fmt_none", "legacy_fmt_nonstr", "legacy_fmt_only_args"}

\* a position only exists on shapes that have it
HasPosition(shape, pos) ==
    CASE pos = "none" -> TRUE
      [] pos = "item" -> TRUE
      [] pos = "variant" -> shape \in {"enum_unit", "enum_tuple", "enum_named", "enum_mixed", "generic_enum", "raw_names", "raw_unit_enum",
                                           "enum_disc64", "enum_disc128", "enum_disc_exprs", "enum_odd_names", "enum_pair", "enum_pair_named"}
      [] pos = "field" -> shape \notin {"unit_struct", "tuple0", "named0", "enum_empty", "enum_unit", "raw_unit_enum",
                                          "unit_where", "tuple0_where", "named0_where", "enum_empty_where",
                                          "enum_disc64", "enum_disc128", "enum_disc_exprs", "enum_odd_names", "struct_odd_name", "struct_underscores"}
      [] pos = "field_pair" -> shape \in {"tuple2", "named2", "enum_mixed", "raw_struct", "union", "array_const", "enum_pair", "enum_pair_named"}
=============================================================================
