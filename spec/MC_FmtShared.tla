--------------------------- MODULE MC_FmtShared ---------------------------
EXTENDS FmtShared, Json
CONSTANTS MaxVariants, EmitCases, Traits
VARIABLES vs, s, D

Variants == {v \in [kind : {"unit", "t1", "n1", "t2"}, own : {"none", "general", "bare", "text"}] :
                (v.kind = "unit" => v.own # "bare")}
Init == vs = <<>> /\ s \in SharedForms /\ D \in Traits
Add  == Len(vs) < MaxVariants /\ \E v \in Variants : vs' = Append(vs, v) /\ UNCHANGED <<s, D>>
Next == Add
Spec == Init /\ [][Next]_<<vs, s, D>>

P_C07 == \A j \in 1..Len(vs) : Agrees(vs[j], s, D)
\* a default never leaks into a variant that has its own attribute; a wrapper always shows
P_C07_DefaultOnly == \A j \in 1..Len(vs) :
    (s # "none" /\ ~Mentions(s) /\ vs[j].own # "none" /\ D # "Debug") => DocText(vs[j], s, D) = Own(vs[j])
P_C07_Wrap == \A j \in 1..Len(vs) :
    (s = "wrap" /\ D # "Debug" /\ Own(vs[j]) # REJECT) => DocText(vs[j], s, D) = <<"T:[">> \o Own(vs[j]) \o <<"T:]">>
EnumDoc == [j \in 1..Len(vs) |-> DocText(vs[j], s, D)]
Emit == EmitCases /\ vs # <<>> =>
    PrintT(<<"CASE", ToJson([vs |-> vs, s |-> s, D |-> D, doc |-> EnumDoc,
                             reject |-> \E j \in 1..Len(vs) : EnumDoc[j] = REJECT])>>)
=============================================================================
