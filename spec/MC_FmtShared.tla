--------------------------- MODULE MC_FmtShared ---------------------------
EXTENDS FmtShared, Json
CONSTANTS MaxVariants, EmitCases, Traits
VARIABLES vs, s, D, er

Variants == {v \in [kind : {"unit", "t1", "n1", "t2"}, own : {"none", "general", "bare", "text"}, vr : BOOLEAN] :
                /\ (v.kind = "unit" => v.own # "bare")
                /\ (v.vr => v.kind = "unit" /\ v.own = "none" /\ D # "Debug")}   \* where a casing shows
\* three-variant enums (beyond MaxVariants): every kind of "own" side by side, an attributed variant BETWEEN two others
FV(k, o) == [kind |-> k, own |-> o, vr |-> FALSE]
WideEnums == {<<FV("t1", "none"), FV("t1", "general"), FV("t1", "none")>>, <<FV("unit", "none"), FV("t1", "bare"), FV("n1", "none")>>,
              <<FV("t1", "text"), FV("unit", "text"), FV("t2", "general")>>}
Init == vs \in {<<>>} \cup WideEnums /\ s \in SharedForms /\ D \in Traits /\ er \in {"none", "lower"} /\ (D = "Debug" => er = "none")
Add  == Len(vs) < MaxVariants /\ \E v \in Variants : vs' = Append(vs, v) /\ UNCHANGED <<s, D, er>>
Next == Add
Spec == Init /\ [][Next]_<<vs, s, D, er>>

P_C07 == \A j \in 1..Len(vs) : Agrees(vs[j], s, D, er)
\* a default never leaks into a variant that has its own attribute; a wrapper always shows
P_C07_DefaultOnly == \A j \in 1..Len(vs) :
    (s # "none" /\ ~Mentions(s) /\ vs[j].own # "none" /\ D # "Debug") => DocText(vs[j], s, D, er) = Own(vs[j], er)
P_C07_Wrap == \A j \in 1..Len(vs) :
    (s = "wrap" /\ D # "Debug" /\ Own(vs[j], er) # REJECT) => DocText(vs[j], s, D, er) = <<"T:[">> \o Own(vs[j], er) \o <<"T:]">>
EnumDoc == [j \in 1..Len(vs) |-> DocText(vs[j], s, D, er)]
Emit == EmitCases /\ vs # <<>> =>
    PrintT(<<"CASE", ToJson([vs |-> vs, s |-> s, D |-> D, er |-> er, doc |-> EnumDoc,
                             reject |-> \E j \in 1..Len(vs) : EnumDoc[j] = REJECT])>>)
=============================================================================
