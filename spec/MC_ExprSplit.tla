--------------------------- MODULE MC_ExprSplit ---------------------------
EXTENDS ExprSplit, Json
CONSTANTS MaxArgs, EmitCases, AliasForms
VARIABLES args

Init == args = <<>>
Add  == Len(args) < MaxArgs /\ \E f \in FormNames, al \in BOOLEAN :
            /\ (al => f \in AliasForms)
            /\ args' = Append(args, [form |-> f, alias |-> al])
Next == Add
Spec == Init /\ [][Next]_args

P_C16_Split == \A tr \in BOOLEAN : (args # <<>> \/ ~tr) => SplitAgrees(args, tr) \/ KnownDeviation(args)
\* an argument counts as a plain field reference only if it is a single identifier
P_C16_IdentOnly == \A tr \in {FALSE} :
    LET r == ImplSplit(ListTokens(args, tr)) IN
    \A j \in 1..Len(r) : r[j].from # 0 /\ r[j].ident => r[j].from = r[j].to
\* the known-deviation classes are not vacuous and not over-approximated where it is cheap to say so:
\* a list without any '|' form and without a comma-carrying cast always splits right
P_C16_KnownTight == (~\E j \in 1..Len(args) : args[j].form \in {"binor", "binor2"})
                        => SplitAgrees(args, FALSE)

\* C18: every step of the scanner consumes at least one token (take_until1 terminates)
P_C18_Progress == LET ts == ListTokens(args, TRUE) IN \A i \in 1..Len(ts) : StepEnd(ts, i) > i

CaseRec == [args |-> args, tokens |-> ListTokens(args, FALSE), doc |-> DocSplit(args),
            impl |-> ImplSplit(ListTokens(args, FALSE)), known |-> KnownDeviation(args),
            kds |-> (IF KD1(args) THEN <<"KD1">> ELSE <<>>) \o (IF KD2(args) THEN <<"KD2">> ELSE <<>>)
                    \o (IF KD3(args) THEN <<"KD3">> ELSE <<>>)]
Emit == EmitCases /\ args # <<>> => PrintT(<<"CASE", ToJson(CaseRec)>>)
=============================================================================
