--------------------------- MODULE DebugBuilder ---------------------------
(***************************************************************************)
(* C06.  core::fmt's DebugTuple / DebugStruct / PadAdapter (the text std's *)
(* #[derive(Debug)] produces) next to derive_more's own DebugTuple and     *)
(* Padded (src/fmt.rs), as literal builder state machines.                 *)
(*                                                                         *)
(* Output is a string.  A value is shown by a sequence of write_str        *)
(* chunks, under formatter options o = [alt, w]:                           *)
(*   alt: `#` (pretty)       w: some other option (width, fill, precision, *)
(*   sign, hex-debug) is set - atoms echo what they see.                   *)
(* Values: "A" one-line atom (echoes the options), "M" an atom writing two *)
(* lines in two chunks, "X" an atom writing "x:" and then "p\nq" in ONE    *)
(* chunk, "U" a nested unit value, "T" a nested tuple of one "A", "S" a    *)
(* nested struct with one field "A", "Z" an atom writing nothing, "L" an    *)
(* atom whose output ends with a newline (the separator after it starts a  *)
(* fresh, indented line), "E" an atom that writes "e" and then             *)
(* FAILS (returns Err): the symbol "!" in an output marks the point where  *)
(* the error is raised - nothing after it is ever written (View).          *)
(***************************************************************************)
EXTENDS Naturals, Sequences, FiniteSets, TLC

NL == "\n"
Opt(alt, w) == [alt |-> alt, w |-> w]

\* --- PadAdapter / Padded: indent by 4 after every newline; state = on_newline -----------------
RECURSIVE SplitLines(_)     \* split_inclusive('\n') of a string given as sequence of 1-char strings
SplitLines(cs) ==
    IF cs = <<>> THEN <<>>
    ELSE LET idx == {i \in 1..Len(cs) : cs[i] = NL} IN
         IF idx = {} THEN <<cs>>
         ELSE LET i == CHOOSE i \in idx : \A j \in idx : i <= j IN
              <<SubSeq(cs, 1, i)>> \o SplitLines(SubSeq(cs, i + 1, Len(cs)))

RECURSIVE PadLines(_, _, _)   \* lines, on_newline, acc  ->  [out, on]
PadLines(ls, on, acc) ==
    IF ls = <<>> THEN [out |-> acc, on |-> on]
    ELSE LET l == Head(ls) IN
         PadLines(Tail(ls), l[Len(l)] = NL, acc \o (IF on THEN <<" ", " ", " ", " ">> ELSE <<>>) \o l)
RECURSIVE PadChunks(_, _, _)
PadChunks(chunks, on, acc) ==
    IF chunks = <<>> THEN [out |-> acc, on |-> on]
    ELSE LET r == PadLines(SplitLines(Head(chunks)), on, <<>>) IN
         PadChunks(Tail(chunks), r.on, acc \o r.out)

RECURSIVE Flatten(_)
Flatten(chunks) == IF chunks = <<>> THEN <<>> ELSE Head(chunks) \o Flatten(Tail(chunks))

\* --- values -------------------------------------------------------------------------------
Echo(o) == (IF o.alt THEN <<"#">> ELSE <<>>) \o (IF o.w THEN <<"w">> ELSE <<>>)

RECURSIVE CoreShow(_, _), CoreTuple(_, _, _, _), CoreStruct(_, _, _, _)
\* chunks written by value v under options o through core's builders
CoreShow(v, o) ==
    CASE v = "A" -> <<<<"a">> \o Echo(o)>>
      [] v = "M" -> <<<<"m", NL>>, <<"n">>>>
      [] v = "X" -> <<<<"x", ":">>, <<"p", NL, "q">>>>
      [] v = "U" -> <<<<"U">>>>
      [] v = "E" -> <<<<"e">>, <<"!">>>>
      [] v = "Z" -> <<>>                         \* writes nothing at all
      [] v = "L" -> <<<<"l", NL>>>>              \* its output ENDS with a newline
      [] v = "T" -> <<CoreTuple(<<"T">>, <<"A">>, FALSE, o)>>
      [] v = "S" -> <<CoreStruct(<<"S">>, <<"A">>, FALSE, o)>>

\* core::fmt::DebugTuple: name, fields (values), non-exhaustive finish?, options -> output string
RECURSIVE CoreTupleFields(_, _, _, _)
CoreTupleFields(fs, i, o, acc) ==
    IF i > Len(fs) THEN acc
    ELSE IF o.alt
         THEN LET pre == IF i = 1 THEN <<"(", NL>> ELSE <<>>
                  r   == PadChunks(CoreShow(fs[i], o) \o <<<<",", NL>>>>, TRUE, <<>>)   \* same adapter, same options
              IN CoreTupleFields(fs, i + 1, o, acc \o pre \o r.out)
         ELSE LET pre == IF i = 1 THEN <<"(">> ELSE <<",", " ">>
              IN CoreTupleFields(fs, i + 1, o, acc \o pre \o Flatten(CoreShow(fs[i], o)))
CoreTuple(name, fs, ne, o) ==
    LET body == CoreTupleFields(fs, 1, o, name)
        n == Len(fs)
    IN IF ~ne
       THEN IF n > 0 THEN body \o (IF n = 1 /\ name = <<>> /\ ~o.alt THEN <<",">> ELSE <<>>) \o <<")">> ELSE body
       ELSE IF n > 0 THEN (IF o.alt THEN body \o <<" ", " ", " ", " ", ".", ".", NL, ")">>
                           ELSE body \o <<",", " ", ".", ".", ")">>)
            ELSE body \o <<"(", ".", ".", ")">>

\* core::fmt::DebugStruct with field names f1, f2, ...
RECURSIVE CoreStructFields(_, _, _, _)
CoreStructFields(fs, i, o, acc) ==
    IF i > Len(fs) THEN acc
    ELSE LET nm == <<"f", ":", " ">> IN
         IF o.alt
         THEN LET pre == IF i = 1 THEN <<" ", "{", NL>> ELSE <<>>
                  r   == PadChunks(<<nm>> \o CoreShow(fs[i], o) \o <<<<",", NL>>>>, TRUE, <<>>)
              IN CoreStructFields(fs, i + 1, o, acc \o pre \o r.out)
         ELSE LET pre == IF i = 1 THEN <<" ", "{", " ">> ELSE <<",", " ">>
              IN CoreStructFields(fs, i + 1, o, acc \o pre \o nm \o Flatten(CoreShow(fs[i], o)))
CoreStruct(name, fs, ne, o) ==
    LET body == CoreStructFields(fs, 1, o, name)
        n == Len(fs)
    IN IF ~ne THEN (IF n > 0 THEN body \o (IF o.alt THEN <<"}">> ELSE <<" ", "}">>) ELSE body)
       ELSE IF n > 0 THEN (IF o.alt THEN body \o <<" ", " ", " ", " ", ".", ".", NL, "}">>
                           ELSE body \o <<",", " ", ".", ".", " ", "}">>)
            ELSE body \o <<" ", "{", " ", ".", ".", " ", "}">>

(***************************************************************************)
(* derive_more: src/fmt.rs.  In pretty mode a field is written through     *)
(* `format_args!("{value:#?}")`: a FRESH formatter that has `#` and        *)
(* nothing else.                                                           *)
(***************************************************************************)
RECURSIVE DmShow(_, _), DmTuple(_, _, _, _)
DmShow(v, o) ==
    CASE v = "A" -> <<<<"a">> \o Echo(o)>>
      [] v = "M" -> <<<<"m", NL>>, <<"n">>>>
      [] v = "X" -> <<<<"x", ":">>, <<"p", NL, "q">>>>
      [] v = "U" -> <<<<"U">>>>
      [] v = "E" -> <<<<"e">>, <<"!">>>>
      [] v = "Z" -> <<>>
      [] v = "L" -> <<<<"l", NL>>>>
      [] v = "T" -> <<DmTuple(<<"T">>, <<"A">>, FALSE, o)>>
      [] v = "S" -> <<CoreStruct(<<"S">>, <<"A">>, FALSE, o)>>      \* named structs use core's builder

RECURSIVE DmTupleFields(_, _, _, _)
DmTupleFields(fs, i, o, acc) ==
    IF i > Len(fs) THEN acc
    ELSE IF o.alt
         THEN LET pre == IF i = 1 THEN <<"(", NL>> ELSE <<>>
                  inner == Opt(TRUE, FALSE)                                  \* "{value:#?}"
                  r   == PadChunks(DmShow(fs[i], inner) \o <<<<",", NL>>>>, TRUE, <<>>)
              IN DmTupleFields(fs, i + 1, o, acc \o pre \o r.out)
         ELSE LET pre == IF i = 1 THEN <<"(">> ELSE <<",", " ">>
              IN DmTupleFields(fs, i + 1, o, acc \o pre \o Flatten(DmShow(fs[i], o)))
DmTuple(name, fs, ne, o) ==
    LET body == DmTupleFields(fs, 1, o, name)
        n == Len(fs)
    IN IF ~ne
       THEN IF n > 0 THEN body \o (IF n = 1 /\ name = <<>> /\ ~o.alt THEN <<",">> ELSE <<>>) \o <<")">> ELSE body
       ELSE IF n > 0 THEN (IF o.alt THEN body \o <<" ", " ", " ", " ", ".", ".", NL, ")">>
                           ELSE body \o <<",", " ", ".", ".", ")">>)
            ELSE body \o <<"(", ".", ".", ")">>

\* Known deviation (known_findings.jsonl): options other than `#` do not reach the fields of a tuple
\* in pretty mode - stable Rust offers no way to wrap a Formatter while keeping its options.
EchoesOptions(v) == v \in {"A", "T", "S"}
KnownDeviation(fs, o) == o.alt /\ o.w /\ \E i \in 1..Len(fs) : EchoesOptions(fs[i])

(***************************************************************************)
(* Failure.  Both builders thread a `result` through every call            *)
(* (`self.result = self.result.and_then(..)`, `?` inside): after the first *)
(* error nothing more is written and the error is what `finish` returns.   *)
(* View(out): what is observable of an output containing the error mark.   *)
(* SinkView(out, b): the same through a writer that fails ONCE, when the   *)
(* b+1-th byte arrives (it keeps the b bytes, and would accept later       *)
(* writes again - an implementation that goes on after an error shows).    *)
(***************************************************************************)
ErrAt(out) == IF \E i \in 1..Len(out) : out[i] = "!"
              THEN CHOOSE i \in 1..Len(out) : out[i] = "!" /\ \A j \in 1..(i - 1) : out[j] # "!"
              ELSE 0
View(out) == LET i == ErrAt(out) IN
             IF i = 0 THEN [text |-> out, ok |-> TRUE] ELSE [text |-> SubSeq(out, 1, i - 1), ok |-> FALSE]
SinkView(out, b) == LET v == View(out) IN
                    IF b < Len(v.text) THEN [text |-> SubSeq(v.text, 1, b), ok |-> FALSE] ELSE v
FailStop(name, fs, ne, o) ==
    LET c == CoreTuple(name, fs, ne, o)
        d == DmTuple(name, fs, ne, o)
    IN \A b \in 0..Len(c) : SinkView(d, b) = SinkView(c, b)

TraceEq(name, fs, ne, o) == View(DmTuple(name, fs, ne, o)) = View(CoreTuple(name, fs, ne, o))
=============================================================================
