SPECIFICATION Spec
CONSTANTS
  MaxVariants = 2
  MaxFields = 2
  EmitCases = TRUE
INVARIANTS
  P_C08_ImplSet
  P_C08_RoundTrip
  P_C08_Order
  P_C08_IntoMerge
  Emit
CHECK_DEADLOCK FALSE
