---------------------------- MODULE DiscCounter ----------------------------
(***************************************************************************)
(* C12, unbounded part.  TryFromRepr.tla compares the documented           *)
(* discriminant rule (DocDiscs) with the reconstruction in try_from.rs     *)
(* (ImplConsts) on every enum of <= MaxVariants variants.  This module is  *)
(* the same pair of computations written as a state machine that consumes  *)
(* ONE VARIANT PER STEP, so that the equality can be established for       *)
(* enums of ANY length and discriminants of ANY magnitude:                  *)
(*                                                                         *)
(*   doc side  : prev  - the discriminant of the previous variant          *)
(*                       (-1 before the first one)                         *)
(*   impl side : lastv - the value of the last explicit discriminant       *)
(*                       expression (0 before the first explicit one)      *)
(*               inc   - the offset try_from.rs adds to it                 *)
(*   docOut / implOut : the discriminant each side assigns to the variant  *)
(*                       consumed by the last step                          *)
(*                                                                         *)
(* try_from.rs (as repaired by 56e824b and 9cacb68: the offset is added to *)
(* the parenthesised expression, in the repr type, wrapping - exact for    *)
(* every enum rustc accepts):                                              *)
(*     for variant in variants {                                           *)
(*         if let Some(d) = explicit { last_discriminant = d; inc = 0; }   *)
(*         const = last_discriminant + inc;  inc += 1;                     *)
(*     }                                                                   *)
(*                                                                         *)
(* Three tools decide it:                                                  *)
(*   - Apalache: IndInv is inductive (Init => IndInv; IndInv /\ Next =>    *)
(*     IndInv') over unbounded integers,                                   *)
(*   - TLAPS: THEOREM Spec => []Agree, proved from the same invariant,     *)
(*   - TLC (MC_TryFromRepr): Run(vs) - this machine folded over a concrete *)
(*     enum - equals both DocDiscs and ImplConsts of TryFromRepr.tla on    *)
(*     every bounded enum, which ties the machine to the module that is    *)
(*     replayed into the real derive.                                      *)
(***************************************************************************)
EXTENDS Integers, DiscStep

VARIABLES
    \* @type: Int;
    prev,
    \* @type: Int;
    lastv,
    \* @type: Int;
    inc,
    \* @type: Int;
    docOut,
    \* @type: Int;
    implOut

\* @type: <<Int, Int, Int, Int, Int>>;
vars == <<prev, lastv, inc, docOut, implOut>>

\* @type: $dstate;
St == [prev |-> prev, lastv |-> lastv, inc |-> inc, docOut |-> docOut, implOut |-> implOut]
\* @type: ($dstate) => Bool;
Becomes(t) == /\ prev' = t.prev /\ lastv' = t.lastv /\ inc' = t.inc
              /\ docOut' = t.docOut /\ implOut' = t.implOut

Init == /\ prev = DInit.prev /\ lastv = DInit.lastv /\ inc = DInit.inc
        /\ docOut = DInit.docOut /\ implOut = DInit.implOut

\* a variant with an explicit discriminant whose value is d
Explicit(d) == Becomes(DExplicit(St, d, 1))
\* a variant without one (with or without fields: both count)
Implicit == Becomes(DImplicit(St))

Next == Implicit \/ \E d \in Int : Explicit(d)

\* negative control (must NOT be inductive): the offset is not advanced past the explicit variant
NextBroken == Implicit \/ \E d \in Int : Becomes(DExplicit(St, d, 0))

Spec == Init /\ [][Next]_vars

TypeOK == /\ prev \in Int /\ lastv \in Int /\ inc \in Int /\ docOut \in Int /\ implOut \in Int

\* the two sides assign the same discriminant to every variant
Agree == docOut = implOut

\* the inductive invariant: the impl side's next implicit constant is the doc side's next discriminant
IndInv == /\ TypeOK
          /\ lastv + inc = prev + 1
          /\ inc >= 0
          /\ Agree

=============================================================================
