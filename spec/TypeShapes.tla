--------------------------- MODULE TypeShapes ---------------------------
(***************************************************************************)
(* C04 (part).  Which field types "contain a type parameter" and therefore *)
(* get a formatting bound.                                                 *)
(*                                                                         *)
(* A type is a small tree: a leaf ("param": the type parameter T,          *)
(* "concrete": i32) under at most Depth wrappers.  Wrappers are the        *)
(* syntactic forms of syn::Type / syn::Path that fmt/mod.rs'               *)
(* ContainsGenericsExt distinguishes:                                      *)
(*   wrap      W<X>                 generic argument of a path             *)
(*   array     [X; 2]               paren  (X)        ptr   *const X       *)
(*   ref       &'static X           slice  &'static [X]                    *)
(*   fn_in     fn(X) -> u8          fn_out fn(u8) -> X                     *)
(*   tuple     (u8, X)                                                     *)
(*   dyn_arg   Box<dyn TrA<X>>      generic argument of a trait bound      *)
(*   dyn_assoc Box<dyn TrO<Out=X>>  associated-type binding                *)
(*   dyn_fn_in Box<dyn Fn(X) -> u8> dyn_fn_out Box<dyn Fn(u8) -> X>        *)
(*                                  (parenthesised path arguments)         *)
(*   qself     <X as TrQ>::Assoc    qualified self                         *)
(*   qtrait    <i32 as TrQA<X>>::Assoc   argument of the trait of a        *)
(*                                  qualified path (concrete self type)    *)
(*   qgat      <i32 as TrG>::Of<X>  argument of a generic associated type  *)
(*   proj      X::Assoc             (only directly on the parameter)       *)
(*   second    W2<u8, X>            a later generic argument               *)
(* Doc: the type needs a bound iff the parameter occurs anywhere in it.    *)
(* Impl: the transcription of `contains_generics` (structural recursion    *)
(* with one rule per syntactic form).                                      *)
(***************************************************************************)
EXTENDS Naturals, Sequences, FiniteSets, TLC

Wrappers == {"wrap", "array", "paren", "ptr", "ref", "slice", "fn_in", "fn_out", "tuple", "dyn_arg", "dyn_assoc",
             "dyn_fn_in", "dyn_fn_out", "qself", "proj", "second", "qtrait", "qgat"}
Leaves == {"param", "concrete"}

\* a type = <<leaf, w1, w2, ...>>: leaf wrapped by w1 (innermost) then w2 ...
WellFormed(t) == /\ t[1] \in Leaves
                 /\ \A i \in 2..Len(t) : t[i] \in Wrappers
                 /\ \A i \in 2..Len(t) : t[i] = "proj" => (i = 2 /\ t[1] = "param")     \* `T::Assoc` only

DocContains(t) == t[1] = "param"

\* Impl: contains_generics, innermost first.  Every arm passes the answer of its element(s) through; the arms that
\* answer `false` whatever is inside (Lifetime / Const / Constraint arguments, ImplTrait, Infer, Macro, Never) cannot
\* wrap a type parameter in a field type.
ImplArm(w, inner) ==
    CASE w \in {"array", "paren", "ptr", "ref", "slice"} -> inner                 \* elem.contains_generics
      [] w \in {"fn_in", "fn_out"} -> inner                                       \* inputs.any || output
      [] w = "tuple" -> inner                                                     \* elems.any
      [] w \in {"wrap", "second"} -> inner                                        \* GenericArgument::Type
      [] w = "dyn_arg" -> inner                                                   \* TraitBound path -> Type argument
      [] w = "dyn_assoc" -> inner                                                 \* GenericArgument::AssocType
      [] w \in {"dyn_fn_in", "dyn_fn_out"} -> inner                               \* PathArguments::Parenthesized
      [] w = "qself" -> inner                                                     \* qself.ty.contains_generics
      [] w \in {"qtrait", "qgat"} -> inner                                        \* ... || path.contains_generics (every segment)
      [] w = "proj" -> inner                                                      \* first segment is the parameter
ImplContains(t) ==
    LET RECURSIVE Go(_)
        Go(i) == IF i = 1 THEN t[1] = "param" ELSE ImplArm(t[i], Go(i - 1))
    IN Go(Len(t))

Agrees(t) == ImplContains(t) = DocContains(t)
=============================================================================
