--------------------------- MODULE MC_FmtText ---------------------------
EXTENDS FmtText, Json
CONSTANTS EmitCases, MaxPieces, MaxArgs, PhTraits, NFields
VARIABLES lit, args, done

Refs == {<<"name", 1>>, <<"name", 2>>, <<"next">>, <<"pos", 0>>, <<"pos", 1>>, <<"alias", "v">>}
Pieces == {[k |-> "text", ref |-> <<"x">>, tr |-> "Display"], [k |-> "lbrace", ref |-> <<"x">>, tr |-> "Display"],
           [k |-> "rbrace", ref |-> <<"x">>, tr |-> "Display"]}
          \cup [k : {"ph"}, ref : Refs, tr : PhTraits]
Exprs == {<<"field", 1>>, <<"field", 2>>, <<"deref", 1>>, <<"selfdot", 1>>, <<"const">>}
ArgSet == [alias : {"", "v", "f1"}, e : Exprs]

Init == lit = <<>> /\ args = <<>> /\ done = FALSE
AddPiece == ~done /\ args = <<>> /\ Len(lit) < MaxPieces /\ \E p \in Pieces : lit' = Append(lit, p) /\ UNCHANGED <<args, done>>
AddArg   == ~done /\ lit # <<>> /\ Len(args) < MaxArgs /\ \E a \in ArgSet : args' = Append(args, a) /\ UNCHANGED <<lit, done>>
Finish   == ~done /\ lit # <<>> /\ Valid(lit, args, NFields) /\ done' = TRUE /\ UNCHANGED <<lit, args>>
Next == AddPiece \/ AddArg \/ Finish
Spec == Init /\ [][Next]_<<lit, args, done>>

P_C02_Text == done => TextAgrees(lit, args)
Emit == EmitCases /\ done =>
    PrintT(<<"CASE", ToJson([lit |-> lit, args |-> args, doc |-> DocText(lit, args), impl |-> ImplText(lit, args),
                             transparent |-> IsTransparent(lit, args)])>>)
=============================================================================
