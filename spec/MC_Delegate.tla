--------------------------- MODULE MC_Delegate ---------------------------
EXTENDS Delegate, Json
CONSTANTS MaxFields, EmitCases
VARIABLES fs, sattr

Marks == {"none", "sel", "ign", "fwd", "tys"}
\* a few field lists wider than MaxFields: the selected field in the middle / at the end, behind ignored or unmarked ones
WideFs == {<<"ign", "ign", "sel">>, <<"none", "sel", "none">>, <<"ign", "none", "ign">>, <<"none", "none", "fwd">>,
           <<"ign", "tys", "ign">>, <<"sel", "ign", "none">>, <<"ign", "fwd", "ign">>}
Init == fs \in {<<>>} \cup WideFs /\ sattr \in {"none", "fwd", "tys"}
Add == Len(fs) < MaxFields /\ \E m \in Marks : fs' = Append(fs, m) /\ UNCHANGED sattr
Next == Add
Spec == Init /\ [][Next]_<<fs, sattr>>

LegacyOk == \A i \in 1..Len(fs) : fs[i] # "tys"
P_C14_Which == fs # <<>> /\ LegacyOk /\ sattr # "tys" => Which(fs, sattr)
\* never a neighbour: whatever is selected carries a positive mark, or is the only field not ignored
P_C14_Single == fs # <<>> /\ LegacyOk /\ sattr # "tys" /\ Documented(fs, sattr) =>
    LET d == DocLegacy(fs, sattr) IN d[1] = "fields" => Cardinality(d[2]) = 1
Emit == EmitCases /\ fs # <<>> =>
    PrintT(<<"CASE", ToJson([fs |-> fs, sattr |-> sattr, documented |-> Documented(fs, sattr),
                             legacy |-> IF LegacyOk /\ sattr # "tys" THEN DocLegacy(fs, sattr) ELSE <<"na">>,
                             legacyImpl |-> IF LegacyOk /\ sattr # "tys" THEN ImplLegacy(fs, sattr) ELSE <<"na">>,
                             asref |-> DocAsRef(fs, sattr)])>>)
=============================================================================
