--------------------------- MODULE MC_TypeShapes ---------------------------
EXTENDS TypeShapes, Json
CONSTANTS Depth, EmitCases
VARIABLE t
Init == t \in {<<l>> : l \in Leaves}
Wrap == Len(t) <= Depth /\ \E w \in Wrappers : WellFormed(Append(t, w)) /\ t' = Append(t, w)
Next == Wrap
Spec == Init /\ [][Next]_t
P_C04_Contains == Agrees(t)
Emit == EmitCases => PrintT(<<"CASE", ToJson([t |-> t, needsBound |-> DocContains(t)])>>)
=============================================================================
