--------------------------- MODULE MC_Totality ---------------------------
EXTENDS Totality, Json
CONSTANTS Derives, EmitCases, BodySet
VARIABLES req, st

Init == req = [d |-> "", shape |-> "", pos |-> "", body |-> "", body2 |-> ""] /\ st = "idle"
Request == st = "idle" /\ st' = "requested"
           /\ \E d \in Derives, s \in Shapes, p \in Positions, b \in BodySet :
                /\ HasPosition(s, p) /\ (p = "none" => b = "bare") /\ (p = "field_pair" => b \in PairBodies)
                /\ \E b2 \in (IF p = "field_pair" THEN PairBodies ELSE {""}) :
                     req' = [d |-> d, shape |-> s, pos |-> p, body |-> b, body2 |-> b2]
\* the allowed continuations (the forbidden ones are simply not part of Next)
Parse   == st = "requested" /\ st' \in {"parsed", "rejected"} /\ UNCHANGED req
Expand  == st = "parsed" /\ st' \in {"emitted", "rejected"} /\ UNCHANGED req
Next == Request \/ Parse \/ Expand
Spec == Init /\ [][Next]_<<req, st>> /\ WF_<<req, st>>(Parse) /\ WF_<<req, st>>(Expand)

P_C18_Domain == st \in {"idle", "requested", "parsed", "emitted", "rejected"}
\* bounded time: every request ends in an implementation or a diagnostic
P_C18_Terminates == (st = "requested") ~> (st \in {"emitted", "rejected"})
Emit == EmitCases /\ st = "requested" => PrintT(<<"CASE", ToJson(req)>>)
=============================================================================
