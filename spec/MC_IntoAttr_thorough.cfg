SPECIFICATION Spec
CONSTANTS
  MaxFields = 3
  EmitCases = TRUE
INVARIANTS
  P_C08_IntoImpls
  P_C08_FieldOnly
  Emit
CHECK_DEADLOCK FALSE
