--------------------------- MODULE FromStr ---------------------------
(***************************************************************************)
(* C13.  FromStr for field-less enums: a string parses to variant V iff it *)
(* equals V's name ignoring case when no other variant has the same        *)
(* lower-cased name, or equals it exactly when one does.                   *)
(* Names and strings are sequences of characters (1-char strings; "U+C4" / *)
(* "U+E4" stand for the non-ASCII pair A-umlaut / a-umlaut).  A raw        *)
(* identifier variant `r#fn` has the NAME "fn".                            *)
(* Impl: from_str.rs enum_from - grouping by the lower-cased identifier    *)
(* text, then one arm per group (unguarded) or per member (guarded).       *)
(***************************************************************************)
EXTENDS Naturals, Sequences, FiniteSets, TLC

LowerChar(c) == CASE c = "F" -> "f" [] c = "O" -> "o" [] c = "B" -> "b" [] c = "A" -> "a" [] c = "R" -> "r"
                  [] c = "Z" -> "z" [] c = "N" -> "n"
                  [] c = "U+C4" -> "U+E4"                       \* case folding is Unicode's (str::to_lowercase), not ASCII's
                  [] OTHER -> c
Lower(s) == [i \in 1..Len(s) |-> LowerChar(s[i])]

\* a variant: [name (what the user reads and writes, without r#), raw : BOOLEAN]
Name(v) == v.name

(***************************************************************************)
(* Doc                                                                     *)
(***************************************************************************)
DocParse(vs, s) ==      \* index of the variant, 0 = Err(FromStrError)
    LET G == {j \in 1..Len(vs) : Lower(Name(vs[j])) = Lower(s)}
    IN  IF Cardinality(G) = 1 THEN CHOOSE j \in G : TRUE
        ELSE IF Cardinality(G) > 1
             THEN (IF \E j \in G : Name(vs[j]) = s THEN CHOOSE j \in G : Name(vs[j]) = s ELSE 0)
        ELSE 0

(***************************************************************************)
(* Impl                                                                    *)
(***************************************************************************)
Unraw == TRUE      \* FALSE on the pinned tree: `variant.ident.to_string()` keeps the `r#` prefix
IdentText(v) == IF v.raw /\ ~Unraw THEN <<"r", "#">> \o v.name ELSE v.name

ImplParse(vs, s) ==
    LET key(j) == Lower(IdentText(vs[j]))
        \* match src.to_lowercase() { key => V, ... | key if src == "Name" => V, ... , _ => Err }
        arms == {j \in 1..Len(vs) :
                    /\ key(j) = Lower(s)
                    /\ (Cardinality({k \in 1..Len(vs) : key(k) = key(j)}) > 1 => IdentText(vs[j]) = s)}
    IN IF arms = {} THEN 0 ELSE CHOOSE j \in arms : TRUE

Exact(vs, s) == ImplParse(vs, s) = DocParse(vs, s)
OwnName(vs) == \A j \in 1..Len(vs) : DocParse(vs, Name(vs[j])) = j
\* an enum is well-formed if its identifiers are pairwise distinct
WellFormed(vs) == \A j, k \in 1..Len(vs) : j # k => vs[j].name # vs[k].name
=============================================================================
