SPECIFICATION Spec
CONSTANTS
  MaxFields = 3
  EmitCases = TRUE
INVARIANTS
  P_C14_Which
  P_C14_Single
  Emit
CHECK_DEADLOCK FALSE
