SPECIFICATION Spec
CONSTANTS
  MaxAttrs = 3
  EmitCases = TRUE
INVARIANTS
  P_C17_OrderFree
  P_C17_Reject
  Emit
CHECK_DEADLOCK FALSE
