SPECIFICATION Spec
CONSTANTS
  MaxVariants = 3
  EmitCases = TRUE
  Kinds = {"unit", "empty_tuple", "tuple1"}
INVARIANTS
  P_C12_Inverse
  P_C12_DocInverse
  P_C12_Repr
  P_C12_Machine
  Emit
CHECK_DEADLOCK FALSE
