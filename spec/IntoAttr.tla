--------------------------- MODULE IntoAttr ---------------------------
(***************************************************************************)
(* C08 (part).  The attribute grammar of derive(Into) and the impl set it  *)
(* stands for (impl/doc/into.md; into.rs `ConversionsAttribute`).          *)
(*                                                                         *)
(* One attribute's content is, per reference form owned / ref / ref_mut,   *)
(* one of  "no"  (form not mentioned)                                      *)
(*         "bare" (`ref`: the field types themselves)                      *)
(*         "typed" (`ref(Ty)`: the listed type)                            *)
(* or the special content "top": top-level types `#[into(Ty)]`, which are  *)
(* owned conversions into the listed type.  All three "no" is `#[into]`.   *)
(*                                                                         *)
(* A struct has n fields, a set `skip` of skipped ones, an optional struct *)
(* attribute `sa` and at most one field `fk` carrying its own attribute    *)
(* `fa` (it may be skipped as well).                                       *)
(*                                                                         *)
(* An impl is <<level, form, kind>>: level "struct" (the tuple of the      *)
(* non-skipped fields) or "field" (the single attributed field); kind      *)
(* "bare" (into the field types) or "typed" (into the listed type).        *)
(***************************************************************************)
EXTENDS Naturals, Sequences, FiniteSets, TLC

Forms == <<"owned", "ref", "ref_mut">>
\* k: "none" (no attribute), "top" (top-level types), "forms" (per-form content; all "no" = `#[into]`)
\* "both": the keyword twice in one attribute, bare and with a type (`ref, ref(Ty)`): each mention contributes
Vals == {"no", "bare", "typed", "both"}
Content == {c \in [k : {"forms"}, owned : Vals, ref : Vals, ref_mut : Vals] :
               Cardinality({f \in {"owned", "ref", "ref_mut"} :
                               (f = "owned" /\ c.owned = "both") \/ (f = "ref" /\ c.ref = "both") \/ (f = "ref_mut" /\ c.ref_mut = "both")}) <= 1}
Of(a, f) == CASE f = "owned" -> a.owned [] f = "ref" -> a.ref [] f = "ref_mut" -> a.ref_mut
Empty == [k |-> "forms", owned |-> "no", ref |-> "no", ref_mut |-> "no"]
Top   == [k |-> "top", owned |-> "no", ref |-> "no", ref_mut |-> "no"]
None  == [k |-> "none", owned |-> "no", ref |-> "no", ref_mut |-> "no"]
\* `#[into()]`: a list of top-level types with no type in it - it stands for no conversion at all (and is NOT `#[into]`)
Parens0 == [k |-> "parens0", owned |-> "no", ref |-> "no", ref_mut |-> "no"]

(***************************************************************************)
(* Doc                                                                     *)
(***************************************************************************)
\* the conversions an attribute stands for: `#[into]` alone is the plain owned conversion
DocAtoms(a) ==
    IF a.k = "top" THEN {<<"owned", "typed">>}
    ELSE IF a.k = "parens0" THEN {}
    ELSE IF a = Empty THEN {<<"owned", "bare">>}
    ELSE {<<Forms[i], Of(a, Forms[i])>> : i \in {i \in 1..3 : Of(a, Forms[i]) \in {"bare", "typed"}}}
         \cup UNION {{<<Forms[i], "bare">>, <<Forms[i], "typed">>} : i \in {i \in 1..3 : Of(a, Forms[i]) = "both"}}
\* "In such cases [a field attribute], no conversion into a tuple of all fields is generated, unless an explicit
\*  struct attribute is present."
DocImpls(sa, fk, fa) ==
    LET structLevel == IF sa.k # "none" THEN DocAtoms(sa) ELSE IF fk = 0 THEN {<<"owned", "bare">>} ELSE {}
        fieldLevel  == IF fk # 0 THEN DocAtoms(fa) ELSE {}
    IN  {<<"struct", at[1], at[2]>> : at \in structLevel} \cup {<<"field", at[1], at[2]>> : at \in fieldLevel}
\* the components of the struct-level conversion: the non-skipped fields in declaration order
Components(n, skip) == SelectSeq([i \in 1..n |-> i], LAMBDA i : i \notin skip)

(***************************************************************************)
(* Impl: ConversionsAttribute::parse fills, per form, `consider_fields_ty` *)
(* (bare keyword) and `tys` (listed types); top-level types go to          *)
(* owned.tys; Default has owned.consider_fields_ty = true.  expand() emits *)
(* a form when `consider_fields_ty || !tys.is_empty()`.                    *)
(***************************************************************************)
Conv(a, f) == IF a.k = "top" THEN [fields |-> FALSE, tys |-> f = "owned"]
              ELSE IF a.k = "parens0" THEN [fields |-> FALSE, tys |-> FALSE]        \* Either::Right with nothing pushed
              ELSE [fields |-> Of(a, f) \in {"bare", "both"}, tys |-> Of(a, f) \in {"typed", "both"}]
Default(f) == [fields |-> f = "owned", tys |-> FALSE]
ImplConvs(a) == IF a.k = "forms" /\ a = Empty THEN [f \in {"owned", "ref", "ref_mut"} |-> Default(f)]     \* Either::Left(empty)
                ELSE [f \in {"owned", "ref", "ref_mut"} |-> Conv(a, f)]
ImplAtoms(convs) ==
    {<<f, "bare">> : f \in {f \in {"owned", "ref", "ref_mut"} : convs[f].fields}}
    \cup {<<f, "typed">> : f \in {f \in {"owned", "ref", "ref_mut"} : convs[f].tys}}
ImplImpls(sa, fk, fa) ==
    LET \* struct_attr.or_else(|| fields_convs.all(is_none).then(default))
        structConvs == IF sa.k # "none" THEN {ImplConvs(sa)}
                       ELSE IF fk = 0 THEN {[f \in {"owned", "ref", "ref_mut"} |-> Default(f)]} ELSE {}
        fieldConvs  == IF fk # 0 THEN {ImplConvs(fa)} ELSE {}
    IN  UNION {{<<"struct", at[1], at[2]>> : at \in ImplAtoms(c)} : c \in structConvs}
        \cup UNION {{<<"field", at[1], at[2]>> : at \in ImplAtoms(c)} : c \in fieldConvs}

SameImpls(sa, fk, fa) == ImplImpls(sa, fk, fa) = DocImpls(sa, fk, fa)
=============================================================================
