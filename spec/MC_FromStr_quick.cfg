SPECIFICATION Spec
CONSTANTS
  MaxLen = 3
  MaxVariants = 3
  EmitCases = TRUE
  Alphabet = {"F", "f", "O", "o", "n", "B", "a", "U+C4", "U+E4"}
INVARIANTS
  P_C13_Exact
  P_C13_OwnName
  Emit
CHECK_DEADLOCK FALSE
