--------------------------- MODULE MC_FmtTransparent ---------------------------
EXTENDS FmtTransparent, Json
CONSTANTS EmitCases, DerivedTraits, PhTypes
VARIABLES c

NoLit == [pre |-> FALSE, post |-> FALSE, esc |-> FALSE, nph |-> 1, ref |-> "next", ty |-> "Display", mod |-> "none"]
Lits == [pre : BOOLEAN, post : BOOLEAN, esc : BOOLEAN, nph : 0..2,
         ref : {"next", "pos0", "pos1", "pos2", "pos_wrap0", "name_field", "name_other"},
         ty : PhTypes, mod : {"none", "ws", "colon", "colon_ws", "width", "fill", "left", "center", "right", "sign", "minus", "alt", "zero", "prec"}]
ArgForms == {"none", "pos_field", "pos_expr", "named_match", "named_nomatch", "two", "named_extra"}

Shareds == {"none", "bare_variant", "wrap", "default"}
\* tc: the attribute's argument list ends with a comma (`("{_0}",)`, `("{}", _0,)`), as format_args! allows: a spelling, never a
\* difference - Doc and Impl outcomes do not depend on it
Cases == [hasAttr : {TRUE}, nfields : 1..2, named : BOOLEAN, D : DerivedTraits, lit : Lits, args : ArgForms, sh : Shareds, tc : BOOLEAN]
         \cup [hasAttr : {FALSE}, nfields : 1..2, named : BOOLEAN, D : DerivedTraits \ {"Debug"}, lit : {NoLit}, args : {"none"}, sh : Shareds, tc : {FALSE}]

\* keep the space to the interesting part: text/second placeholder/modifiers are varied one at a time
Interesting(x) ==
    /\ (x.lit.esc => (x.lit.pre \/ x.lit.post) /\ x.lit.nph = 1)       \* `{{{_0}`, `{_0}}}`, and both: `{{{_0}}}`
    /\ (x.lit.pre => (~x.lit.post \/ x.lit.esc) /\ x.lit.nph = 1 /\ x.lit.mod = "none")
    /\ (x.lit.post => x.lit.nph \in {0, 1} /\ x.lit.mod = "none")
    /\ (x.lit.nph = 2 => x.lit.mod = "none" /\ x.lit.ref \in {"next", "pos0"})
    \* a literal without placeholders: plain text, or text with `{{`/`}}` escapes (post); never an argument
    /\ (x.lit.nph = 0 => ~x.lit.pre /\ x.lit.mod = "none" /\ x.lit.ref = "next" /\ x.lit.ty = "Display" /\ x.args = "none" /\ x.sh = "none")
    /\ (x.args = "two" <=> x.nfields = 2 /\ x.hasAttr)
    /\ (x.tc => x.lit.mod \in {"none", "width"} /\ ~x.lit.pre /\ ~x.lit.post /\ x.lit.nph = 1 /\ x.sh = "none")
    /\ (x.lit.mod \in {"colon", "colon_ws"} => x.lit.ty = "Display")    \* an EMPTY spec: with a type it is "none"/"ws"
    /\ (x.named => x.lit.ref = "name_field" \/ ~x.hasAttr)          \* field names only matter there
    /\ (x.lit.mod \notin Blank => x.args \in {"none", "pos_field"})
    /\ ((x.lit.pre \/ (x.lit.post /\ x.lit.nph # 0) \/ x.lit.nph = 2) => x.lit.ty \in {"Display", "Debug"} /\ x.D \in {"Display", "Debug"})
    /\ (x.sh # "none" => /\ x.D # "Debug"                        \* no enum-level format on Debug (C07)
                          /\ x.lit.mod = "none" /\ ~x.lit.pre /\ ~x.lit.post /\ x.lit.nph = 1
                          /\ x.args \in {"none", "pos_field"} /\ x.lit.ref \in {"next", "name_field", "pos1"})
    /\ (x.lit.ref = "name_other" => x.args \in {"none", "named_match", "pos_field", "named_extra"})
    /\ (x.args = "named_extra" => x.lit.ref \in {"name_other", "name_field"} /\ x.lit.nph = 1 /\ x.sh = "none")

Init == c = [hasAttr |-> FALSE, nfields |-> 0, named |-> FALSE, D |-> "Display", lit |-> NoLit, args |-> "none", sh |-> "none", tc |-> FALSE]
Next == c.nfields = 0 /\ c' \in {x \in Cases : Interesting(x)}
Spec == Init /\ [][Next]_c

P_C05_Iff == c.nfields # 0 => Iff(c.hasAttr, c.nfields, c.D, c.lit, c.args)
P_C05_IffShared == c.nfields # 0 => IffShared(c.sh, c.hasAttr, c.nfields, c.D, c.lit, c.args)
\* non-vacuity: pass-through only ever names the placeholder's own trait
P_C05_Trait == c.nfields # 0 /\ c.hasAttr =>
    LET d == DocOutcome(c.hasAttr, c.nfields, c.D, c.lit, c.args) IN d[1] = "pass" => d[2] = TraitOf(c.lit.ty)
Emit == EmitCases /\ c.nfields # 0 =>
    PrintT(<<"CASE", ToJson([c |-> c, doc |-> IF c.sh = "default" THEN DocSharedDefault(c.hasAttr, DocOutcome(c.hasAttr, c.nfields, c.D, c.lit, c.args))
                                            ELSE DocShared(c.sh, c.D, DocOutcome(c.hasAttr, c.nfields, c.D, c.lit, c.args)),
                             impl |-> IF c.sh = "default" THEN ImplSharedDefault(c.hasAttr, ImplOutcome(c.hasAttr, c.nfields, c.D, c.lit, c.args))
                                             ELSE ImplShared(c.sh, c.D, ImplOutcome(c.hasAttr, c.nfields, c.D, c.lit, c.args))])>>)
=============================================================================
