--------------------------- MODULE FmtGrammar ---------------------------
(***************************************************************************)
(* The std::fmt format-literal grammar as `format_args!` interprets it     *)
(* (Std*, the contract of C03) next to derive_more's own literal parser    *)
(* impl/src/fmt/parsing.rs + Placeholder::parse_fmt_string (Dm*, shaped    *)
(* like the code: same order of alternatives, same look-aheads).           *)
(*                                                                         *)
(* A literal is a sequence of characters; a character is a string naming   *)
(* a class representative ("a", "0", "{", "U2" = a 2-byte XID_Start        *)
(* character, "U3"/"U4" = 3/4-byte non-identifier characters, "T" = tab).  *)
(* Pure operators only: the MC_* / Trace_* modules add the state.          *)
(***************************************************************************)
EXTENDS Naturals, Sequences, FiniteSets, TLC, FmtCounterStep

Digits      == {"0", "1", "2", "9"}
TypeLetters == {"o", "x", "X", "p", "b", "e", "E"}
IdStart     == TypeLetters \cup {"a", "s", "v", "U2"}
IdCont      == IdStart \cup Digits \cup {"_", "C2"}   \* "C2": XID_Continue, not XID_Start (U+00B7)
Aligns      == {"<", "^", ">"}
Signs       == {"+", "-"}
Ws          == {" ", "T", "W3"}     \* "W3": a 3-byte whitespace character (U+3000)

ByteWidth(c) == CASE c \in {"U2", "C2"} -> 2 [] c \in {"U3", "W3"} -> 3 [] c = "U4" -> 4 [] OTHER -> 1

At(s, i) == IF i >= 1 /\ i <= Len(s) THEN s[i] ELSE "EOF"

RECURSIVE ScanEnd(_, _, _)
ScanEnd(s, i, S) == IF i <= Len(s) /\ s[i] \in S THEN ScanEnd(s, i + 1, S) ELSE i

\* end (exclusive) of an identifier starting at i, 0 if there is none
IdentEnd(s, i) ==
    IF At(s, i) \in IdStart THEN ScanEnd(s, i + 1, IdCont)
    ELSE IF At(s, i) = "_" /\ At(s, i + 1) \in (IdCont) THEN ScanEnd(s, i + 1, IdCont)
    ELSE 0
IntEnd(s, i) == IF At(s, i) \in Digits THEN ScanEnd(s, i, Digits) ELSE 0

Sub(s, i, j) == IF j < i THEN <<>> ELSE SubSeq(s, i, j)

\* An argument reference: k \in {"none","int","id"}; txt = its characters
NoArg == [k |-> "none", txt |-> <<>>]
ArgAt(s, i) ==
    LET ie == IntEnd(s, i)
        de == IdentEnd(s, i)
    IN  IF ie # 0 THEN [arg |-> [k |-> "int", txt |-> Sub(s, i, ie - 1)], end |-> ie]
        ELSE IF de # 0 THEN [arg |-> [k |-> "id", txt |-> Sub(s, i, de - 1)], end |-> de]
        ELSE [arg |-> NoArg, end |-> i]

\* count := parameter | integer.  k \in {"none","int","param"}
NoCount == [k |-> "none", arg |-> NoArg]
CountAt(s, i) ==
    LET a == ArgAt(s, i)
    IN  IF a.arg.k # "none" /\ At(s, a.end) = "$"
            THEN [c |-> [k |-> "param", arg |-> a.arg], end |-> a.end + 1]
        ELSE IF a.arg.k = "int"
            THEN [c |-> [k |-> "int", arg |-> a.arg], end |-> a.end]
        ELSE [c |-> NoCount, end |-> i]

TypeNames == {"Display", "Debug", "LowerDebug", "UpperDebug", "Octal", "LowerHex", "UpperHex",
              "Pointer", "Binary", "LowerExp", "UpperExp"}
TraitOf(ty) == IF ty \in {"Debug", "LowerDebug", "UpperDebug"} THEN "Debug" ELSE ty
LetterType(c) == CASE c = "o" -> "Octal" [] c = "x" -> "LowerHex" [] c = "X" -> "UpperHex"
                   [] c = "p" -> "Pointer" [] c = "b" -> "Binary" [] c = "e" -> "LowerExp"
                   [] c = "E" -> "UpperExp"

NoSpecRec == [fill |-> FALSE, fillc |-> "", align |-> "none", sign |-> "none", alt |-> FALSE,
              zero |-> FALSE, width |-> NoCount, prec |-> NoCount, star |-> FALSE, ty |-> "Display"]
AlignName(c) == CASE c = "<" -> "Left" [] c = "^" -> "Center" [] c = ">" -> "Right"
SignName(c)  == IF c = "+" THEN "Plus" ELSE "Minus"

Fail == [ok |-> FALSE, end |-> 0, arg |-> NoArg, hasSpec |-> FALSE, spec |-> NoSpecRec, lenient |-> FALSE]

(***************************************************************************)
(* Std: format_spec as format_args! parses it.  `lenient` marks inputs on  *)
(* which rustc accepts more than the documented grammar (a '.' without a   *)
(* precision): those are out of the property's scope.                      *)
(***************************************************************************)
StdSpecAt(s, i) ==
    LET hasFill == At(s, i) # "EOF" /\ At(s, i + 1) \in Aligns
        hasAl   == ~hasFill /\ At(s, i) \in Aligns
        iA   == IF hasFill THEN i + 2 ELSE IF hasAl THEN i + 1 ELSE i
        al   == IF hasFill THEN AlignName(At(s, i + 1)) ELSE IF hasAl THEN AlignName(At(s, i)) ELSE "none"
        hasS == At(s, iA) \in Signs
        iS   == IF hasS THEN iA + 1 ELSE iA
        hasH == At(s, iS) = "#"
        iH   == IF hasH THEN iS + 1 ELSE iS
        \* '0' flag, except that "0$" is the width parameter 0
        zeroDollar == At(s, iH) = "0" /\ At(s, iH + 1) = "$"
        hasZ == At(s, iH) = "0" /\ ~zeroDollar
        iZ   == IF hasZ THEN iH + 1 ELSE iH
        w    == CountAt(s, iZ)
        iW   == w.end
        hasDot == At(s, iW) = "."
        star == hasDot /\ At(s, iW + 1) = "*"
        p    == IF hasDot /\ ~star THEN CountAt(s, iW + 1) ELSE [c |-> NoCount, end |-> iW]
        iP   == IF star THEN iW + 2 ELSE IF hasDot THEN p.end ELSE iW
        lenientDot == hasDot /\ ~star /\ p.c.k = "none"
        \* type: "x?" | "X?" | "?" | identifier | ''
        c0   == At(s, iP)
        dbgHex == c0 \in {"x", "X"} /\ At(s, iP + 1) = "?"
        wordEnd == IdentEnd(s, iP)
        tyOk == dbgHex \/ c0 = "?" \/ wordEnd = 0 \/ (wordEnd = iP + 1 /\ c0 \in TypeLetters)
        ty   == IF dbgHex THEN (IF c0 = "x" THEN "LowerDebug" ELSE "UpperDebug")
                ELSE IF c0 = "?" THEN "Debug"
                ELSE IF wordEnd = iP + 1 /\ c0 \in TypeLetters THEN LetterType(c0)
                ELSE "Display"
        iT   == IF dbgHex THEN iP + 2 ELSE IF c0 = "?" THEN iP + 1
                ELSE IF wordEnd # 0 THEN wordEnd ELSE iP
    IN  [ok |-> tyOk, end |-> iT, lenient |-> lenientDot,
         spec |-> [fill |-> hasFill, fillc |-> IF hasFill THEN At(s, i) ELSE "", align |-> al,
                   sign |-> IF hasS THEN SignName(At(s, iA)) ELSE "none", alt |-> hasH, zero |-> hasZ,
                   width |-> w.c, prec |-> IF star THEN NoCount ELSE p.c, star |-> star, ty |-> ty]]

\* i: first character after '{'.  format := '{' [argument] [':' format_spec] [ws]* '}'
StdFormatAt(s, i) ==
    LET a  == ArgAt(s, i)
        \* rustc also skips whitespace between the argument and ':' ("{0 :?}"), which the documented
        \* grammar does not have: accepted, but out of the property's scope (lenient)
        iB == ScanEnd(s, a.end, Ws)
        hasSpec == At(s, iB) = ":"
        wsBeforeColon == hasSpec /\ iB > a.end
        sp == IF hasSpec THEN StdSpecAt(s, iB + 1)
              ELSE [ok |-> TRUE, end |-> a.end, lenient |-> FALSE, spec |-> NoSpecRec]
        iC == ScanEnd(s, sp.end, Ws)
    IN  IF sp.ok /\ At(s, iC) = "}"
        THEN [ok |-> TRUE, end |-> iC + 1, arg |-> a.arg, hasSpec |-> hasSpec, spec |-> sp.spec,
              lenient |-> sp.lenient \/ wsBeforeColon]
        ELSE Fail

(***************************************************************************)
(* Dm: impl/src/fmt/parsing.rs, alternative by alternative.                *)
(*   WsBeforeClose: whether `format` skips whitespace before '}' (the fix  *)
(*   for the defect recorded in known_findings: the pinned tree did not).  *)
(***************************************************************************)
\* Both were FALSE on the pinned tree (TLC counterexamples "{ }" and "{:.*}", confirmed against the
\* real parser): repaired by the two `fix:` commits in /repo, see known_findings.jsonl.
DmWsBeforeClose == TRUE
DmStarAdvances  == TRUE

DmSpecAt(s, i) ==
    LET \* optional_result(alt[any_char+align, align])
        hasFill == At(s, i) # "EOF" /\ At(s, i + 1) \in Aligns
        hasAl   == ~hasFill /\ At(s, i) \in Aligns
        iA   == IF hasFill THEN i + 2 ELSE IF hasAl THEN i + 1 ELSE i
        al   == IF hasFill THEN AlignName(At(s, i + 1)) ELSE IF hasAl THEN AlignName(At(s, i)) ELSE "none"
        hasS == At(s, iA) \in Signs
        iS   == IF hasS THEN iA + 1 ELSE iA
        hasH == At(s, iS) = "#"
        iH   == IF hasH THEN iS + 1 ELSE iS
        \* try_seq[char('0'), lookahead(check_char(c != '$'))]: needs a following character
        hasZ == At(s, iH) = "0" /\ At(s, iH + 1) # "$" /\ At(s, iH + 1) # "EOF"
        iZ   == IF hasZ THEN iH + 1 ELSE iH
        w    == CountAt(s, iZ)          \* alt[parameter, integer]
        iW   == w.end
        hasDot == At(s, iW) = "."
        star == hasDot /\ At(s, iW + 1) = "*"
        p    == IF hasDot /\ ~star THEN CountAt(s, iW + 1) ELSE [c |-> NoCount, end |-> iW]
        precOk == ~hasDot \/ star \/ p.c.k # "none"      \* '.' demands a precision
        iP   == IF star THEN iW + 2 ELSE IF hasDot THEN p.end ELSE iW
        c0   == At(s, iP)
        dbgHex == c0 \in {"x", "X"} /\ At(s, iP + 1) = "?"
        isLetter == c0 \in TypeLetters
        \* the last alternative: Display iff the next char is '}' (or, with the ws fix, ws* '}')
        dispOk == IF DmWsBeforeClose THEN At(s, ScanEnd(s, iP, Ws)) = "}" ELSE c0 = "}"
        ty   == IF dbgHex THEN (IF c0 = "x" THEN "LowerDebug" ELSE "UpperDebug")
                ELSE IF c0 = "?" THEN "Debug"
                ELSE IF isLetter THEN LetterType(c0) ELSE "Display"
        iT   == IF dbgHex THEN iP + 2 ELSE IF c0 = "?" \/ isLetter THEN iP + 1 ELSE iP
        tyOk == dbgHex \/ c0 = "?" \/ isLetter \/ dispOk
    IN  [ok |-> precOk /\ tyOk, end |-> iT, lenient |-> FALSE,
         spec |-> [fill |-> hasFill, fillc |-> IF hasFill THEN At(s, i) ELSE "", align |-> al,
                   sign |-> IF hasS THEN SignName(At(s, iA)) ELSE "none", alt |-> hasH, zero |-> hasZ,
                   width |-> w.c, prec |-> IF star THEN NoCount ELSE p.c, star |-> star, ty |-> ty]]

DmArgAt(s, i) ==     \* alt[identifier, integer]
    LET de == IdentEnd(s, i)
        ie == IntEnd(s, i)
    IN  IF de # 0 THEN [arg |-> [k |-> "id", txt |-> Sub(s, i, de - 1)], end |-> de]
        ELSE IF ie # 0 THEN [arg |-> [k |-> "int", txt |-> Sub(s, i, ie - 1)], end |-> ie]
        ELSE [arg |-> NoArg, end |-> i]

DmFormatAt(s, i) ==
    LET a  == DmArgAt(s, i)
        hasSpec == At(s, a.end) = ":"
        sp == IF hasSpec THEN DmSpecAt(s, a.end + 1)
              ELSE [ok |-> TRUE, end |-> a.end, lenient |-> FALSE, spec |-> NoSpecRec]
        iC == IF DmWsBeforeClose THEN ScanEnd(s, sp.end, Ws) ELSE sp.end
    IN  IF sp.ok /\ At(s, iC) = "}"
        THEN [ok |-> TRUE, end |-> iC + 1, arg |-> a.arg, hasSpec |-> hasSpec, spec |-> sp.spec,
              lenient |-> FALSE]
        ELSE Fail

(***************************************************************************)
(* format_string := text [maybe_format text]*                              *)
(* Result: [ok, phs (raw placeholders in order), lenient]                  *)
(***************************************************************************)
RECURSIVE ParseFrom(_, _, _, _)
ParseFrom(s, i, acc, which) ==
    IF i > Len(s) THEN [ok |-> TRUE, phs |-> acc.phs, lenient |-> acc.lenient]
    ELSE IF s[i] = "{" /\ At(s, i + 1) = "{" THEN ParseFrom(s, i + 2, acc, which)
    ELSE IF s[i] = "}" /\ At(s, i + 1) = "}" THEN ParseFrom(s, i + 2, acc, which)
    ELSE IF s[i] = "}" THEN [ok |-> FALSE, phs |-> <<>>, lenient |-> FALSE]
    ELSE IF s[i] = "{" THEN
        LET f == IF which = "std" THEN StdFormatAt(s, i + 1) ELSE DmFormatAt(s, i + 1)
        IN  IF f.ok
            THEN ParseFrom(s, f.end,
                           [phs |-> Append(acc.phs, [arg |-> f.arg, hasSpec |-> f.hasSpec, spec |-> f.spec]),
                            lenient |-> acc.lenient \/ f.lenient], which)
            ELSE [ok |-> FALSE, phs |-> <<>>, lenient |-> FALSE]
    ELSE ParseFrom(s, i + 1, acc, which)

StdParse(s) == ParseFrom(s, 1, [phs |-> <<>>, lenient |-> FALSE], "std")
DmParse(s)  == ParseFrom(s, 1, [phs |-> <<>>, lenient |-> FALSE], "dm")

(***************************************************************************)
(* The implicit positional counter.                                        *)
(*  format_args!: `.*` takes the next positional argument for the          *)
(*  precision first, then an implicit argument takes the next one;         *)
(*  explicit arguments never advance the counter.                          *)
(* Resolved reference: <<"p", n>> positional (n as digit characters for    *)
(* explicit ones is converted by Val) or <<"n", name>>.                    *)
(***************************************************************************)
DigitVal(c) == CASE c = "0" -> 0 [] c = "1" -> 1 [] c = "2" -> 2 [] c = "9" -> 9
RECURSIVE Val(_)
Val(ds) == IF ds = <<>> THEN 0 ELSE 10 * Val(SubSeq(ds, 1, Len(ds) - 1)) + DigitVal(ds[Len(ds)])

RefOf(a, ctr) == CASE a.k = "none" -> [k |-> "p", n |-> ctr, name |-> <<>>]
                   [] a.k = "int"  -> [k |-> "p", n |-> Val(a.txt), name |-> <<>>]
                   [] a.k = "id"   -> [k |-> "n", n |-> 0, name |-> a.txt]

RECURSIVE Resolve(_, _, _, _)
Resolve(phs, j, ctr, starAdvances) ==
    IF j > Len(phs) THEN <<>>
    ELSE LET ph == phs[j]
             starTakes == ph.spec.star /\ starAdvances
             ctr1 == IF starTakes THEN ctr + 1 ELSE ctr
             ref  == RefOf(ph.arg, ctr1)
             ctr2 == IF ph.arg.k = "none" THEN ctr1 + 1 ELSE ctr1
         IN  <<[ref |-> ref, trait |-> TraitOf(ph.spec.ty), ty |-> ph.spec.ty,
                precFrom |-> IF starTakes THEN ctr ELSE 99]>> \o Resolve(phs, j + 1, ctr2, starAdvances)

StdResolved(s) == Resolve(StdParse(s).phs, 1, 0, TRUE)
DmResolved(s)  == Resolve(DmParse(s).phs, 1, 0, DmStarAdvances)

\* number of positional arguments a literal consumes implicitly (counter at the end)
RECURSIVE CtrEnd(_, _, _)
CtrEnd(phs, j, ctr) == IF j > Len(phs) THEN ctr
                       ELSE CtrEnd(phs, j + 1, ctr + (IF phs[j].spec.star THEN 1 ELSE 0)
                                                   + (IF phs[j].arg.k = "none" THEN 1 ELSE 0))

\* Semantic validity beyond the grammar that depends on the literal alone.
IntsSmall(phs) == \A j \in 1..Len(phs) :
    /\ (phs[j].arg.k = "int" => Val(phs[j].arg.txt) < 65536)
    /\ (phs[j].spec.width.k # "none" /\ phs[j].spec.width.arg.k = "int" => Val(phs[j].spec.width.arg.txt) < 65536)
    /\ (phs[j].spec.prec.k # "none" /\ phs[j].spec.prec.arg.k = "int" => Val(phs[j].spec.prec.arg.txt) < 65536)

StdOkR(r) == r.ok /\ IntsSmall(r.phs)
StdOk(s) == StdOkR(StdParse(s))
OutOfScope(s) == StdParse(s).ok /\ StdParse(s).lenient

HasModifiers(sp) == sp.fill \/ sp.align # "none" \/ sp.sign # "none" \/ sp.alt \/ sp.zero
                    \/ sp.width.k # "none" \/ sp.prec.k # "none" \/ sp.star
                    \/ sp.ty \in {"LowerDebug", "UpperDebug"}

(***************************************************************************)
(* Properties on one literal (the ...R forms take the two parse results,   *)
(* so that TLC evaluates each parser once per state)                       *)
(***************************************************************************)
\* same placeholders, same resolved arguments (C03, first sentence)
AgreeR(sr, dr) == StdOkR(sr) /\ ~sr.lenient =>
              /\ dr.ok
              /\ dr.phs = sr.phs
              /\ Resolve(dr.phs, 1, 0, DmStarAdvances) = Resolve(sr.phs, 1, 0, TRUE)
Agree(s) == AgreeR(StdParse(s), DmParse(s))
\* a literal std rejects is never taken apart as if it were fine (C03, last sentence): the
\* derive can only skip `format_args!` on the transparent path, which needs a successful parse
NoSilentAcceptR(sr, dr) == ~sr.ok => ~dr.ok
NoSilentAccept(s) == NoSilentAcceptR(StdParse(s), DmParse(s))
\* text and escapes yield no placeholders
EscapesOnlyR(s, sr) == (\A i \in 1..Len(s) : s[i] \notin {"{", "}"}) => sr.ok /\ sr.phs = <<>>
\* counter = #implicit + #star
CounterLawR(sr) == LET phs == sr.phs IN
    CtrEnd(phs, 1, 0) = Cardinality({j \in 1..Len(phs) : phs[j].arg.k = "none"})
                        + Cardinality({j \in 1..Len(phs) : phs[j].spec.star})

\* The unbounded machine of FmtCounter.tla (Apalache / TLAPS), folded over the placeholders of this literal: it hands out what
\* Resolve hands out - on the format_args! side and on the side of parse_fmt_string - and ends at CtrEnd.
RECURSIVE RunCounter(_, _, _)
RunCounter(phs, j, st) ==
    IF j > Len(phs) THEN <<>>
    ELSE LET t == FStep(st, phs[j].arg.k = "none", phs[j].spec.star,
                        IF phs[j].arg.k = "int" THEN Val(phs[j].arg.txt) ELSE 0, TRUE)
         IN <<t>> \o RunCounter(phs, j + 1, t)
MachineLawR(sr) == LET phs == sr.phs
                       run == RunCounter(phs, 1, FInit)
                       doc == Resolve(phs, 1, 0, TRUE)
                       dm  == Resolve(phs, 1, 0, DmStarAdvances)
                   IN /\ \A j \in 1..Len(phs) :
                            /\ (phs[j].arg.k \in {"none", "int"} => doc[j].ref.n = run[j].docArg)
                            /\ (phs[j].spec.star => doc[j].precFrom = run[j].docPrec)
                            /\ (DmStarAdvances /\ phs[j].arg.k \in {"none", "int"} => dm[j].ref.n = run[j].implArg)
                      /\ (Len(phs) > 0 => CtrEnd(phs, 1, 0) = run[Len(phs)].next)

(***************************************************************************)
(* C18 on the character automaton: every slice bound the parser uses is a  *)
(* character boundary.  Byte offsets: offset of position i.                *)
(***************************************************************************)
RECURSIVE ByteOff(_, _)
ByteOff(s, i) == IF i <= 1 THEN 0 ELSE ByteOff(s, i - 1) + ByteWidth(s[i - 1])
=============================================================================
