--------------------------- MODULE ExplicitBounds ---------------------------
(***************************************************************************)
(* C04, the `bound(...)` clause: "... plus any `bound(...)` predicates".   *)
(* A derive for a generic type produces ONE impl; its where-clause is the  *)
(* union of what is inferred for every struct / variant and of every       *)
(* `#[<trait>(bound(...))]` predicate written on the item or on any of its *)
(* variants - whether or not the struct / variant carrying the attribute   *)
(* has a generic field, a literal of its own, or fields at all.            *)
(*                                                                         *)
(* case = [D, kind : "struct" | "enum",                                    *)
(*         bpos : "container" | "variant" | "both"  where bound() is,      *)
(*         gf   : BOOLEAN   the attributed struct / variant formats a      *)
(*                          field of type T,                               *)
(*         shape: "unit" | "one" | "two"  fields of it besides that,       *)
(*         other: "none" | "unit" | "generic"  another variant (U),        *)
(*         spelling : "bound" | "bounds",                                  *)
(*         split : BOOLEAN  the literal's attribute comes first and the    *)
(*                          bound() attribute second, or the reverse,      *)
(*         uses : BOOLEAN   the literal's argument needs the predicate,     *)
(*         sh   : "none" | "wrap" | "default"  an enum-level format:       *)
(*                          `[{_variant}]` wraps every variant, `dflt` is  *)
(*                          what variants without a literal print,         *)
(*         lit  : BOOLEAN   the attributed struct / variant HAS a literal;  *)
(*                          without one it is a delegated single field or   *)
(*                          (Display) a unit variant printing its name]     *)
(* Predicates are strings "P: Tr".                                         *)
(***************************************************************************)
EXTENDS Naturals, Sequences, FiniteSets, TLC

\* (derive(Debug) takes `bound(...)` on the item only: on a variant it reports a diagnostic, "expected string literal")
WellFormed(c) ==
    /\ (c.kind = "struct" => c.bpos = "container" /\ c.other = "none")
    /\ (c.D = "Debug" => c.bpos = "container" /\ c.sh = "none")
    /\ (c.kind = "struct" => c.sh = "none")
    \* without a literal: nothing can use the predicate; exactly one field (delegation) or a Display unit variant
    /\ (~c.lit => ~c.uses /\ (c.shape = "one" \/ (c.shape = "unit" /\ c.D = "Display" /\ c.kind = "enum")))
    /\ (~c.lit /\ c.D = "Debug" => c.kind = "struct")
    \* (a struct without a literal has its one field only: the predicate is about that field's parameter, T)
    /\ (~c.lit /\ c.kind = "struct" => c.gf)
    /\ (c.shape = "unit" => ~c.gf)

\* the contract (a delegated field is formatted under the derived trait: the same inferred bound)
\* (under an enum-level default, a variant without a literal prints the default text: its field is not formatted)
Inferred(c)  == (IF c.gf /\ (c.lit \/ c.sh # "default") THEN {"T: " \o c.D} ELSE {})
                \cup (IF c.other = "generic" /\ c.sh # "default" THEN {"U: " \o c.D} ELSE {})
QSubj(c)     == IF c.kind = "struct" /\ ~c.lit THEN "T" ELSE "Q"
Explicit(c)  == (IF c.bpos \in {"container", "both"} THEN {QSubj(c) \o ": Mk"} ELSE {})
                \cup (IF c.bpos \in {"variant", "both"} THEN {"R: Mk"} ELSE {})
DocPreds(c)  == Inferred(c) \cup Explicit(c)

\* the implementation (display.rs generate_bounds / debug.rs): per struct / variant, inferred bounds are collected from
\* the fields and the explicit ones appended; the container's are appended once.  GuardOnGenerics = TRUE is the variant
\* of it that returns early for a struct / variant without generic fields (a seeded change): explicit bounds are lost.
ImplPreds(c, guardOnGenerics) ==
    Inferred(c)
    \cup (IF c.bpos \in {"container", "both"} /\ ~(guardOnGenerics /\ c.kind = "struct" /\ ~c.gf) THEN {QSubj(c) \o ": Mk"} ELSE {})
    \cup (IF c.bpos \in {"variant", "both"} /\ ~(guardOnGenerics /\ ~c.gf) THEN {"R: Mk"} ELSE {})

Agree(c) == ImplPreds(c, FALSE) = DocPreds(c)
\* the guarded variant is told apart (the law is not vacuous)
Sensitive == \E c \in [D : {"Display"}, kind : {"enum"}, bpos : {"variant"}, gf : {FALSE}, shape : {"one"}, other : {"none"},
                       spelling : {"bound"}, split : {TRUE}, uses : {TRUE}, lit : {TRUE}, sh : {"none"}] : ImplPreds(c, TRUE) # DocPreds(c)
=============================================================================
