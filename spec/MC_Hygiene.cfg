SPECIFICATION Spec
INVARIANTS
  Emit
  P_C15_Hygienic
CHECK_DEADLOCK FALSE
