--------------------------- MODULE MC_Variants ---------------------------
EXTENDS Variants, Json
CONSTANTS MaxVariants, EmitCases, AllowNamed
VARIABLES vs, generic, forms, place

\* `V()` and `V {}` are variants of their kind with no field: accessors treat them like unit variants
Kinds == {[k |-> "unit", tys |-> <<>>], [k |-> "tuple", tys |-> <<>>], [k |-> "tuple", tys |-> <<"A">>], [k |-> "tuple", tys |-> <<"B">>],
          [k |-> "tuple", tys |-> <<"A", "B">>], [k |-> "tuple", tys |-> <<"B", "A">>],
          \* a field whose TYPE is the one-element tuple `(A,)`: a different type from `A` (its own TryFrom target, `((A,),)`
          \* never arises: a single live field converts to the field's type itself)
          [k |-> "tuple", tys |-> <<"(A,)">>]}
         \cup (IF AllowNamed THEN {[k |-> "named", tys |-> <<>>], [k |-> "named", tys |-> <<"A">>], [k |-> "named", tys |-> <<"A", "B">>]} ELSE {})
\* tuple / named variants with field-level #[try_into(ignore)]: leading, trailing and MIDDLE ignored fields, with
\* equal neighbouring types so that binding the wrong field still type-checks
FKinds == {[k |-> "tuple", tys |-> <<"A", "B">>, fign |-> <<TRUE, FALSE>>],
           [k |-> "tuple", tys |-> <<"A", "A">>, fign |-> <<TRUE, FALSE>>],
           [k |-> "tuple", tys |-> <<"A", "A">>, fign |-> <<FALSE, TRUE>>],
           [k |-> "tuple", tys |-> <<"A", "A", "A">>, fign |-> <<FALSE, TRUE, FALSE>>],
           [k |-> "tuple", tys |-> <<"B", "A", "A">>, fign |-> <<TRUE, TRUE, FALSE>>]}
          \cup (IF AllowNamed THEN {[k |-> "named", tys |-> <<"A", "A">>, fign |-> <<TRUE, FALSE>>]} ELSE {})
NoFign(n) == [j \in 1..n |-> FALSE]
\* enums wider than MaxVariants in which two variants with the SAME field types are separated by another one (their
\* shared TryFrom impl must be found whatever lies between them)
W(k, tys) == [k |-> k, tys |-> tys, ign |-> FALSE, fign |-> NoFign(Len(tys))]
WideEnums == {<<W("tuple", <<"A">>), W("tuple", <<"B">>), W("tuple", <<"A">>)>>,
              <<W("unit", <<>>), W("tuple", <<"A">>), W("tuple", <<>>)>>,
              <<W("tuple", <<"A", "B">>), W("tuple", <<"A">>), W("tuple", <<"A", "B">>), W("tuple", <<"B">>)>>,
              \* seventeen variants (a derive that switches to a table, a search or a chunked match beyond some width)
              [i \in 1..17 |-> IF i % 3 = 0 THEN W("unit", <<>>) ELSE IF i % 3 = 1 THEN W("tuple", <<"A">>) ELSE W("tuple", <<"B", "A">>)]}
Init == /\ vs \in {<<>>} \cup WideEnums /\ generic \in BOOLEAN /\ forms \in FormSets \cup {{}}
        /\ place \in {"enum", "variant1"} /\ (place = "variant1" => forms # {})
Add == /\ Len(vs) < MaxVariants
       /\ \/ \E kd \in Kinds, ig \in BOOLEAN :
                vs' = Append(vs, [k |-> kd.k, tys |-> kd.tys, ign |-> ig, fign |-> NoFign(Len(kd.tys))])
          \/ \E kd \in FKinds : vs' = Append(vs, [k |-> kd.k, tys |-> kd.tys, ign |-> FALSE, fign |-> kd.fign])
       /\ UNCHANGED <<generic, forms, place>>
Next == Add
Spec == Init /\ [][Next]_<<vs, generic, forms, place>>

P_C11_Partition    == Partition(vs)
P_C11_TryIntoExact == TryIntoExact(vs)
IsTable == [a \in 1..Len(vs) |-> [x \in 1..Len(vs) |-> DocIs(vs, a, x)]]
Targets == TargetTypes(vs)
\* the naming the texts are evaluated under (the replay renames a share of the enums and re-renders from `groups`)
EnumName == "E"
Names == <<[id |-> "Foo", fn |-> "foo"], [id |-> "FooBar", fn |-> "foo_bar"], [id |-> "Ab", fn |-> "ab"], [id |-> "Quux", fn |-> "quux"]>> \o
         <<[id |-> "Wa", fn |-> "wa"], [id |-> "Wb", fn |-> "wb"], [id |-> "Wc", fn |-> "wc"], [id |-> "Wd", fn |-> "wd"], [id |-> "We", fn |-> "we"], [id |-> "Wf", fn |-> "wf"], [id |-> "Wg", fn |-> "wg"], [id |-> "Wh", fn |-> "wh"], [id |-> "Wi", fn |-> "wi"], [id |-> "Wj", fn |-> "wj"], [id |-> "Wk", fn |-> "wk"], [id |-> "Wl", fn |-> "wl"], [id |-> "Wm", fn |-> "wm"]>>
Texts == [unwrapPanic |-> [a \in 1..Len(vs) |-> [x \in 1..Len(vs) |-> [f \in {"owned", "ref", "ref_mut"} |->
                              DocUnwrapPanic(EnumName, Names, a, x, f)]]],
          tryUnwrap   |-> [a \in 1..Len(vs) |-> [x \in 1..Len(vs) |-> [f \in {"owned", "ref", "ref_mut"} |->
                              DocTryUnwrapText(EnumName, Names, a, x, f)]]],
          tryInto     |-> [T \in Targets |-> DocTryIntoText(Names, vs, T)],
          groups      |-> [T \in Targets |-> Group(vs, T)]]
\* every live variant is in exactly one group, and groups keep declaration order
P_C11_Groups == \A T \in Targets : LET g == Group(vs, T) IN
                    /\ \A n \in 1..(Len(g) - 1) : g[n] < g[n + 1]
                    /\ \A i \in Live(vs) : (\E n \in 1..Len(g) : g[n] = i) <=> LiveTys(vs[i]) = T
Emit == EmitCases /\ Live(vs) # {} =>
    PrintT(<<"CASE", ToJson([vs |-> vs, generic |-> generic, formsAttr |-> forms, forms |-> DocForms(forms), place |-> place,
                             formsAt |-> [x \in 1..Len(vs) |-> IF vs[x].ign THEN {} ELSE DocFormsAt(forms, place, vs, x)], targets |-> Targets,
                             is |-> IsTable,
                             unwrap |-> [a \in 1..Len(vs) |-> [x \in 1..Len(vs) |-> DocUnwrap(vs, a, x)[1]]],
                             liveIdx |-> [a \in 1..Len(vs) |-> LiveIdx(vs[a])],
                             okTargets |-> [a \in 1..Len(vs) |-> {T \in Targets : DocTryInto(vs, a, T)[1] = "ok"}],
                             texts |-> [unwrapPanic |-> Texts.unwrapPanic, tryUnwrap |-> Texts.tryUnwrap,
                                        tryInto |-> {<<T, Texts.tryInto[T], Texts.groups[T]>> : T \in Targets}]])>>)
=============================================================================
