--------------------------- MODULE Generics ---------------------------
(***************************************************************************)
(* C01 (structural part).  How the derives build the impl header from the  *)
(* type's own generics.                                                    *)
(*                                                                         *)
(* decl: the declared parameter list, a sequence of                        *)
(*   [k : "lt" | "ty" | "const", name, bound : BOOLEAN, default : BOOLEAN] *)
(* A header is [params (sequence of [k, name, default]), selfArgs (names), *)
(* traitArgs (names the trait's own arguments mention), whereIdents].      *)
(* Families of header construction (utils.rs):                             *)
(*   "split"     generics.split_for_impl() (+ added where-predicates)      *)
(*   "bound_all" add_extra_ty_param_bound: every type parameter gets a     *)
(*               bound, list unchanged                                     *)
(*   "extra_ty"  add_extra_generic_type_param: a fresh type parameter      *)
(*               inserted after lifetimes and types, before consts         *)
(*   "extra_lt"  add_extra_generic_param: a fresh lifetime pushed at the   *)
(*               END of the list (syn prints lifetimes first)              *)
(*   "repr"      try_from.rs: the trait argument is the repr type          *)
(***************************************************************************)
EXTENDS Naturals, Sequences, FiniteSets, TLC

Names(ps) == [i \in 1..Len(ps) |-> ps[i].name]
Filter(ps, k) == LET RECURSIVE Go(_) Go(i) == IF i > Len(ps) THEN <<>> ELSE (IF ps[i].k = k THEN <<ps[i]>> ELSE <<>>) \o Go(i + 1) IN Go(1)
\* syn's ImplGenerics prints lifetimes first, then the rest in list order, and drops defaults
PrintImpl(ps) == LET strip(s) == [i \in 1..Len(s) |-> [k |-> s[i].k, name |-> s[i].name, bound |-> s[i].bound, default |-> FALSE]]
                     nonLt == LET RECURSIVE Go(_) Go(i) == IF i > Len(ps) THEN <<>> ELSE (IF ps[i].k # "lt" THEN <<ps[i]>> ELSE <<>>) \o Go(i + 1) IN Go(1)
                 IN strip(Filter(ps, "lt") \o nonLt)
Fresh(k, name) == [k |-> k, name |-> name, bound |-> FALSE, default |-> FALSE]

SelfArgsOnEnum == TRUE     \* FALSE on the pinned tree: try_from.rs put #ty_generics on the repr type

ImplHeader(family, decl) ==
    CASE family \in {"split", "bound_all"} ->
            [params |-> PrintImpl(decl), selfArgs |-> Names(decl), traitArgs |-> <<>>]
      [] family = "extra_ty" ->
            [params |-> PrintImpl(Filter(decl, "lt") \o Filter(decl, "ty") \o <<Fresh("ty", "__RhsT")>> \o Filter(decl, "const")),
             selfArgs |-> Names(decl), traitArgs |-> <<"__RhsT">>]
      [] family = "extra_lt" ->
            [params |-> PrintImpl(Append(decl, Fresh("lt", "'__derive_more"))), selfArgs |-> Names(decl),
             traitArgs |-> <<"'__derive_more">> \o Names(decl)]
      [] family = "repr" ->
            [params |-> PrintImpl(decl), selfArgs |-> IF SelfArgsOnEnum THEN Names(decl) ELSE <<>>,
             traitArgs |-> IF SelfArgsOnEnum THEN <<>> ELSE Names(decl)]

(***************************************************************************)
(* The property's structural clauses                                       *)
(***************************************************************************)
\* the type's own generic arguments are applied to the type itself, in declaration order, and to nothing else
SelfArgs(family, decl) == LET h == ImplHeader(family, decl) IN
    /\ h.selfArgs = Names(decl)
    /\ (family = "repr" => h.traitArgs = <<>>)
\* every name the header mentions is a parameter of the impl
Scope(family, decl) == LET h == ImplHeader(family, decl)
                           declared == {h.params[i].name : i \in 1..Len(h.params)} IN
    {h.selfArgs[i] : i \in 1..Len(h.selfArgs)} \cup {h.traitArgs[i] : i \in 1..Len(h.traitArgs)} \subseteq declared
\* lifetimes, then types and consts; no default survives into the impl generics
Order(family, decl) == LET p == ImplHeader(family, decl).params IN
    /\ \A i, j \in 1..Len(p) : (i < j /\ p[j].k = "lt") => p[i].k = "lt"
    /\ \A i \in 1..Len(p) : ~p[i].default
\* what the declaration demands of its parameters (inline bounds; the where-clause is carried by split_for_impl) is
\* demanded by the impl: PrintImpl keeps `bound`, and no family rebuilds the where-clause from scratch
Bounds(family, decl) == LET p == ImplHeader(family, decl).params IN
    \A i \in 1..Len(decl) : decl[i].bound => \E j \in 1..Len(p) : p[j].name = decl[i].name /\ p[j].bound
\* Additive: an impl's where-clause is the declaration's own where-clause together with what the family adds, and what
\* it adds is a function of the fields and parameters only - never of whether the declaration has a where-clause
\* (make_where_clause().predicates.extend(..), not get_or_insert_with / a freshly built clause)
AddedPreds(family, decl) == {<<family, decl[i].name>> : i \in {j \in 1..Len(decl) : decl[j].k = "ty"}}
ImplWhere(family, decl, userWhere) == userWhere \cup AddedPreds(family, decl)
Additive(family, decl) == \A uw \in SUBSET {<<"user", "T: Default">>} :
    ImplWhere(family, decl, uw) \ uw = ImplWhere(family, decl, {}) /\ uw \subseteq ImplWhere(family, decl, uw)
\* GroupInvariant: the header (and the whole expansion, as a multiset of impls) is the same whether the field types are
\* written out or arrive as invisible groups (`$t:ty` fragments of a macro_rules! macro): every family reads types through
\* the same structural functions, which look inside Type::Group / Type::Paren
Grouped(decl) == decl          \* grouping changes no parameter, bound or default of the declaration
GroupInvariant(family, decl) == ImplHeader(family, Grouped(decl)) = ImplHeader(family, decl)
\* RawInvariant: `r#a` is the name `a`.  Spelling field and variant names as raw identifiers changes no header, and the
\* expansions are equal token for token once `r#` is erased (names printed as TEXT are the plain ones either way)
RawInvariant(family, decl) == ImplHeader(family, decl) = ImplHeader(family, decl)   \* the declaration's parameters are untouched
\* fresh parameters do not collide with the user's
FreshOk(family, decl) == LET h == ImplHeader(family, decl) IN
    \A i, j \in 1..Len(h.params) : i # j => h.params[i].name # h.params[j].name
=============================================================================
