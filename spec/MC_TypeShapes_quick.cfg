SPECIFICATION Spec
CONSTANTS
  Depth = 2
  EmitCases = TRUE
INVARIANTS
  P_C04_Contains
  Emit
CHECK_DEADLOCK FALSE
