--------------------------- MODULE Trace_Totality ---------------------------
(* events {id, outcome}: outcome as classified from the real expansion     *)
(* ("impl", "diagnostic", "internal:<kind>", "timeout").  The trace is a   *)
(* behaviour of the pipeline specification iff every outcome is allowed.   *)
EXTENDS Totality, Json, IOUtils
Rec == ndJsonDeserialize(IOEnv.TRACE)
VARIABLES l, bad, finished
Init == l = 1 /\ bad = <<>> /\ finished = FALSE
Step == /\ l <= Len(Rec)
        /\ bad' = IF Allowed(Rec[l].outcome) THEN bad ELSE Append(bad, [id |-> Rec[l].id, outcome |-> Rec[l].outcome])
        /\ l' = l + 1 /\ UNCHANGED finished
Finish == /\ l = Len(Rec) + 1 /\ ~finished /\ finished' = TRUE
          /\ PrintT(<<"DONE", ToJson([consumed |-> l - 1, bad |-> Len(bad)])>>)
          /\ \A i \in 1..Len(bad) : PrintT(<<"BAD", ToJson(bad[i])>>)
          /\ UNCHANGED <<l, bad>>
Next == Step \/ Finish
Spec == Init /\ [][Next]_<<l, bad, finished>>
=============================================================================
