--------------------------- MODULE FmtBounds ---------------------------
(***************************************************************************)
(* C04.  Inferred formatting bounds: sufficient and not excessive.         *)
(*                                                                         *)
(* A case:                                                                 *)
(*   D      derived trait                                                  *)
(*   level  "struct" | "variant" | "shared_default" | "shared_wrap"        *)
(*          | "debug_fields" (attribute-less Debug with field attributes)  *)
(*   fields sequence of [p : "T"|"U"|"none"   the type parameter mentioned,*)
(*                       fa : "none"|"skip"|"fmt" (Debug field attribute), *)
(*                       fref : 0..n          field the field-level        *)
(*                                            literal refers to by name]   *)
(*   hasAttr, uses : the container literal as the sequence of its          *)
(*          placeholders, each [f, how, tr]                                *)
(*          how \in "name"  {a:x}                                          *)
(*                  "pos"   {:x} with the bare-identifier argument  a      *)
(*                  "alias" {v:x} with the argument  v = a                 *)
(*                  "posalias" {0:x}-style positional reference to the     *)
(*                          argument  v = a                                *)
(*                  "expr"  {} with an argument expression that mentions   *)
(*                          the field but needs no formatting trait of it  *)
(*                  "shadow" {a} with the argument  a = <such expression>  *)
(*                  "shadowto" {a} with the argument  a = b  (other field) *)
(* A bound is <<field index, trait>> (meaning `FieldType: Trait`); only    *)
(* fields whose type mentions a type parameter can carry one.              *)
(***************************************************************************)
EXTENDS Naturals, Sequences, FiniteSets, TLC

Generic(fs, i) == fs[i].p # "none"

\* the field an argument/placeholder denotes: for "shadowto" ({a} with the argument  a = b) it is the
\* OTHER field; "shadow" ({a} with  a = <expression mentioning a>) denotes no field at all
Target(u) == IF u.how = "shadowto" THEN 3 - u.f ELSE u.f
\* a named argument `a = ..` is what EVERY placeholder `{a}` of the literal denotes: a plain "name" use of a field whose
\* name another use shadows is a use of that argument
Eff(uses, k) ==
    LET sh == {j \in 1..Len(uses) : uses[j].f = uses[k].f /\ uses[j].how \in {"shadow", "shadowto"}}
    IN  IF uses[k].how = "name" /\ sh # {} THEN [uses[k] EXCEPT !.how = uses[CHOOSE j \in sh : TRUE].how] ELSE uses[k]
\* bounds a literal asks for, by the property's rule
UsesBounds(fs, uses) ==
    {<<Target(Eff(uses, k)), uses[k].tr>> :
        k \in {k \in 1..Len(uses) : Eff(uses, k).how \in {"name", "pos", "alias", "posalias", "shadowto"}
                                   /\ Generic(fs, Target(Eff(uses, k)))}}

(***************************************************************************)
(* Doc                                                                     *)
(***************************************************************************)
DocBounds(c) ==
    CASE c.level \in {"struct", "variant"} ->
            IF c.hasAttr THEN UsesBounds(c.fields, c.uses)
            ELSE IF c.D = "Debug"
                 THEN {<<i, "Debug">> : i \in {i \in 1..Len(c.fields) : Generic(c.fields, i) /\ c.fields[i].fa = "none"}}
                 ELSE IF Len(c.fields) = 1 /\ Generic(c.fields, 1) THEN {<<1, c.D>>} ELSE {}
      [] c.level = "debug_fields" ->      \* no container attribute; per field: skip / own literal / plain
            {<<i, "Debug">> : i \in {i \in 1..Len(c.fields) : Generic(c.fields, i) /\ c.fields[i].fa = "none"}}
            \cup {<<c.fields[i].fref, "Display">> :
                    i \in {i \in 1..Len(c.fields) : c.fields[i].fa = "fmt" /\ c.fields[i].fref # 0
                                                     /\ Generic(c.fields, c.fields[i].fref)}}
      [] c.level = "shared_default" ->    \* enum-level literal without `_variant`, variant without own attribute
            UsesBounds(c.fields, c.uses)
      [] c.level = "shared_wrap" ->       \* enum-level literal = `{_variant}` + uses; the variant has no own attribute:
                                          \* its single field is shown under D, plus what the wrapper mentions
            UsesBounds(c.fields, c.uses) \cup (IF Len(c.fields) = 1 /\ Generic(c.fields, 1) THEN {<<1, c.D>>} ELSE {})

(***************************************************************************)
(* Impl: bounded_types() + generate_bounds() of display.rs / debug.rs      *)
(***************************************************************************)
PosAliasCounted == TRUE        \* (was FALSE on the pinned tree: `.filter(|_| a.alias.is_none())`; repaired)
DebugEarlyReturn == FALSE      \* (was TRUE on the pinned tree: early return for non-generic field types; repaired)

\* bounded_types(): Named(name): an argument aliased `name` wins over the field of that name; it counts
\* only if its expression is a bare identifier (then that identifier names the field)
ImplUsesBounds(fs, uses) ==
    {<<Target(Eff(uses, k)), uses[k].tr>> : k \in {k \in 1..Len(uses) :
            /\ (Eff(uses, k).how \in {"name", "pos", "alias", "shadowto"} \/ (uses[k].how = "posalias" /\ PosAliasCounted))
            /\ Generic(fs, Target(Eff(uses, k)))}}

ImplBounds(c) ==
    CASE c.level \in {"struct", "variant"} ->
            IF c.hasAttr THEN ImplUsesBounds(c.fields, c.uses)
            ELSE IF c.D = "Debug"
                 THEN {<<i, "Debug">> : i \in {i \in 1..Len(c.fields) : Generic(c.fields, i) /\ c.fields[i].fa = "none"}}
                 ELSE IF Len(c.fields) >= 1 /\ Generic(c.fields, 1) THEN {<<1, c.D>>} ELSE {}   \* fields.iter().next()
      [] c.level = "debug_fields" ->
            {<<i, "Debug">> : i \in {i \in 1..Len(c.fields) : Generic(c.fields, i) /\ c.fields[i].fa = "none"}}
            \cup {<<c.fields[i].fref, "Display">> :
                    i \in {i \in 1..Len(c.fields) : c.fields[i].fa = "fmt" /\ c.fields[i].fref # 0
                                                     /\ Generic(c.fields, c.fields[i].fref)
                                                     /\ (DebugEarlyReturn => Generic(c.fields, i))}}
      [] c.level = "shared_default" -> ImplUsesBounds(c.fields, c.uses)
      [] c.level = "shared_wrap" ->
            ImplUsesBounds(c.fields, c.uses) \cup (IF Len(c.fields) >= 1 /\ Generic(c.fields, 1) THEN {<<1, c.D>>} ELSE {})

\* a Display-like derive without attribute needs exactly one field (otherwise the derive is an error)
WellFormed(c) ==
    /\ (c.level \in {"struct", "variant"} /\ ~c.hasAttr /\ c.D # "Debug" => Len(c.fields) = 1)
    /\ (c.level = "shared_wrap" => Len(c.fields) = 1)
    /\ (c.level = "debug_fields" => c.D = "Debug" /\ ~c.hasAttr)
    /\ (c.level # "debug_fields" => \A i \in 1..Len(c.fields) : c.fields[i].fa = "none" \/ (c.D = "Debug" /\ ~c.hasAttr /\ c.fields[i].fa = "skip"))
    /\ (c.level \in {"shared_default", "shared_wrap"} => c.D # "Debug" /\ c.hasAttr)
    /\ (~c.hasAttr => c.uses = <<>>)
    /\ (\A k \in 1..Len(c.uses) : c.uses[k].how = "shadowto" => Len(c.fields) = 2)
    \* one named argument per name (`a = .., a = ..` is rejected by format_args!)
    /\ (\A j, k \in 1..Len(c.uses) : (j # k /\ c.uses[j].f = c.uses[k].f) =>
            ~(c.uses[j].how \in {"shadow", "shadowto"} /\ c.uses[k].how \in {"shadow", "shadowto"}))

Sufficient(c)   == DocBounds(c) \subseteq ImplBounds(c)
NotExcessive(c) == ImplBounds(c) \subseteq DocBounds(c)
=============================================================================
