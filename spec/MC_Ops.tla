--------------------------- MODULE MC_Ops ---------------------------
EXTENDS Ops, Json
CONSTANTS EmitCases, Derives, MaxFields, MaxItems
VARIABLES c, phase

\* enum variants include the field-less non-unit forms `V()` and `V {}` (they are not unit variants: operators map
\* their zero fields and succeed)
Variants == [k : {"tuple", "named"}, n : 0..MaxFields] \cup {[k |-> "unit", n |-> 0]}
\* (one struct size beyond MaxFields: three fields, whose types repeat A, B, A)
StructShapes == {[enum |-> FALSE, vs |-> <<v>>] : v \in {w \in Variants : w.k # "unit" /\ w.n >= 1}}
                \cup {[enum |-> FALSE, vs |-> <<[k |-> kk, n |-> MaxFields + 1]>>] : kk \in {"tuple", "named"}}
                \* (and a wide one: thirteen fields - one more than the tuples std implements its traits for)
                \cup {[enum |-> FALSE, vs |-> <<[k |-> kk, n |-> 13]>>] : kk \in {"tuple", "named"}}
EnumShapes == {[enum |-> TRUE, vs |-> <<v>>] : v \in Variants}
              \cup {[enum |-> TRUE, vs |-> <<v, w>>] : v \in Variants, w \in Variants}
              \cup {[enum |-> TRUE, vs |-> <<v, w, [k |-> "unit", n |-> 0]>>] : v \in Variants, w \in Variants}

Init == c = [d |-> "Add", fwd |-> FALSE, sh |-> [enum |-> FALSE, vs |-> <<>>]] /\ phase = 0
Next == phase = 0 /\ phase' = 1 /\ \E d \in Derives, f \in BOOLEAN, sh \in StructShapes \cup EnumShapes :
            Supported(d, f, sh) /\ c' = [d |-> d, fwd |-> f, sh |-> sh]
Spec == Init /\ [][Next]_<<c, phase>>

StructDoc == [m \in 0..MaxItems |-> DocStruct(c.d, c.fwd, NF(c.sh.vs[1]), m)]
EnumDoc == IF c.d \in Unary
           THEN [a \in 1..Len(c.sh.vs) |-> DocEnumUnary(c.d, c.sh, a)]
           ELSE [a \in 1..Len(c.sh.vs) |-> [b \in 1..Len(c.sh.vs) |-> DocEnumBinary(c.d, c.sh, a, b)]]

\* contract sanity: a mismatch is reported exactly for different variants, and same-variant operands of a
\* non-unit variant always produce that variant
P_C10_EnumErrors == phase = 1 /\ c.sh.enum /\ c.d \notin Unary =>
    \A a, b \in 1..Len(c.sh.vs) : (DocEnumBinary(c.d, c.sh, a, b) = <<"mismatch">>) <=> (a # b)
P_C10_Assign == phase = 1 /\ c.d \in AddAssign \cup MulAssign =>
    DocStruct(c.d, c.fwd, NF(c.sh.vs[1]), 0) = DocStruct(BaseOp(c.d), c.fwd, NF(c.sh.vs[1]), 0)
P_C10_Fold == phase = 1 /\ c.d \in Folds =>
    \A i \in 1..NF(c.sh.vs[1]) : DocStruct(c.d, FALSE, NF(c.sh.vs[1]), 0)[i][1] = "e"

Emit == EmitCases /\ phase = 1 =>
    PrintT(<<"CASE", ToJson([c |-> c, doc |-> IF c.sh.enum THEN <<"enum", EnumDoc>> ELSE <<"struct", StructDoc>>,
                             errText |-> [mismatch |-> DocErrText(c.d, "mismatch"), unit |-> DocErrText(c.d, "unit")]])>>)
=============================================================================
