SPECIFICATION Spec
CONSTANTS
  MaxVariants = 3
  EmitCases = TRUE
  Traits = {"Display", "Debug", "LowerHex"}
INVARIANTS
  P_C07
  P_C07_DefaultOnly
  P_C07_Wrap
  Emit
CHECK_DEADLOCK FALSE
