------------------------- MODULE DiscCounter_proofs -------------------------
(* TLAPS proofs for DiscCounter.tla (kept apart: Apalache does not know the TLAPS module). *)
EXTENDS DiscCounter, TLAPS

THEOREM InitInv == Init => IndInv
  BY DEF Init, IndInv, TypeOK, Agree, DInit

THEOREM StepInv == IndInv /\ [Next]_vars => IndInv'
  BY DEF IndInv, TypeOK, Agree, Next, Implicit, Explicit, vars, Becomes, St, DExplicit, DImplicit

THEOREM Safety == Spec => []Agree
  <1>1. IndInv => Agree  BY DEF IndInv
  <1>2. QED  BY InitInv, StepInv, <1>1, PTL DEF Spec
=============================================================================
