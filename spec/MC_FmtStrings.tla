--------------------------- MODULE MC_FmtStrings ---------------------------
(* Every string of length <= MaxLen over Alphabet: one state per string.   *)
EXTENDS FmtGrammar, Json
CONSTANTS MaxLen, Alphabet, EmitCases
VARIABLE lit

Init == lit = <<>>
Next == Len(lit) < MaxLen /\ \E c \in Alphabet : lit' = Append(lit, c)
Spec == Init /\ [][Next]_lit

SR == StdParse(lit)
DR == DmParse(lit)
CaseRec(s, sr, dr) == [chars |-> s, stdOk |-> StdOkR(sr), grammarOk |-> sr.ok, oos |-> sr.ok /\ sr.lenient,
               phs |-> sr.phs, res |-> Resolve(sr.phs, 1, 0, TRUE),
               dmOk |-> dr.ok, dmAgree |-> AgreeR(sr, dr)]

\* one invariant, so that each parser runs once per state; the conjuncts are the named properties
P_C03_Agree          == AgreeR(SR, DR)
P_C03_NoSilentAccept == NoSilentAcceptR(SR, DR)
P_C03_Escapes        == EscapesOnlyR(lit, SR)
P_C03_Counter        == CounterLawR(SR)
\* the transcription never accepts what std's grammar rejects, and never yields other components
P_DmSubset == DR.ok => SR.ok /\ DR.phs = SR.phs
All(checkAgree) == LET sr == StdParse(lit)
                       dr == DmParse(lit)
                   IN /\ Assert(NoSilentAcceptR(sr, dr), <<"P_C03_NoSilentAccept", lit>>)
                      /\ Assert(EscapesOnlyR(lit, sr), <<"P_C03_Escapes", lit>>)
                      /\ Assert(CounterLawR(sr), <<"P_C03_Counter", lit>>)
                      /\ Assert(MachineLawR(sr), <<"P_C03_Machine", lit>>)
                      /\ Assert(dr.ok => sr.ok /\ dr.phs = sr.phs, <<"P_DmSubset", lit>>)
                      /\ Assert(checkAgree => AgreeR(sr, dr), <<"P_C03_Agree", lit>>)
                      /\ (EmitCases => PrintT(<<"CASE", ToJson(CaseRec(lit, sr, dr))>>))
\* C18: a placeholder that parses consumes at least "{}" - the scan in format_string always advances
P_C18_Progress == \A i \in 1..Len(lit) : lit[i] = "{" /\ DmFormatAt(lit, i + 1).ok => DmFormatAt(lit, i + 1).end > i + 1
AllWithAgree == All(TRUE)
AllNoAgree   == All(FALSE)
=============================================================================
