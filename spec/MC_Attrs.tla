--------------------------- MODULE MC_Attrs ---------------------------
EXTENDS Attrs, Json
CONSTANTS MaxAttrs, EmitCases
VARIABLES f, as

Init == f \in Families /\ as = <<>>
Add == Len(as) < MaxAttrs /\ \E a \in Atoms(f) : as' = Append(as, a) /\ UNCHANGED f
Next == Add
Spec == Init /\ [][Next]_<<f, as>>

Rev(s) == [i \in 1..Len(s) |-> s[Len(s) + 1 - i]]
P_C17_OrderFree == Result(f, as) = Result(f, Rev(as))
P_C17_Reject    == RejectLaw(f, as)
Emit == EmitCases /\ as # <<>> => PrintT(<<"CASE", ToJson([f |-> f, as |-> as, res |-> Result(f, as)])>>)
=============================================================================
