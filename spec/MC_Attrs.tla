--------------------------- MODULE MC_Attrs ---------------------------
EXTENDS Attrs, Json
CONSTANTS MaxAttrs, EmitCases
VARIABLES f, as, sep

\* how the list is laid out on the item: adjacent attributes, or a foreign attribute before, between and after them
Seps == {"adjacent", "doc", "allow"}

\* lists longer than MaxAttrs: the three INDEPENDENT kinds of one item in every order (a merge that is right for every pair can
\* still lose the first of three)
Perms3(a, b, c) == {<<a, b, c>>, <<a, c, b>>, <<b, a, c>>, <<b, c, a>>, <<c, a, b>>, <<c, b, a>>}
Triples(fam) == CASE fam = "fmt_enum" -> Perms3("rename_snake", "lit_wrap", "bound_u8") \cup Perms3("rename_kebab", "lit", "bound_u8")
                  [] fam = "fmt_container" -> Perms3("lit", "bound_T", "bound_U")
                  [] OTHER -> {}
Init == f \in Families /\ as \in {<<>>} \cup Triples(f) /\ sep \in Seps
\* (`#[attr = "x"]`, the name-value form, is no documented spelling of any derive's attribute: an atom of every family)
Add == Len(as) < MaxAttrs /\ \E a \in Atoms(f) \cup {"eq_value"} : as' = Append(as, a) /\ UNCHANGED <<f, sep>>
Next == Add
Spec == Init /\ [][Next]_<<f, as, sep>>

Rev(s) == [i \in 1..Len(s) |-> s[Len(s) + 1 - i]]
P_C17_OrderFree == Result(f, as) = Result(f, Rev(as))
P_C17_Reject    == RejectLaw(f, as)
P_C17_Foreign   == ForeignFree(f, as)
Emit == EmitCases /\ as # <<>> => PrintT(<<"CASE", ToJson([f |-> f, as |-> as, sep |-> sep,
                                                                   res |-> IF sep = "adjacent" THEN Result(f, as) ELSE ResultF(f, Interleave(as))])>>)
=============================================================================
