SPECIFICATION Spec
CONSTANTS
  MaxParams = 4
  EmitCases = TRUE
INVARIANTS
  P_C01_SelfArgs
  P_C01_Scope
  P_C01_Order
  P_C01_Fresh
  P_C01_Bounds
  P_C01_Additive
  Emit
CHECK_DEADLOCK FALSE
