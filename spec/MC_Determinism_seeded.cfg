SPECIFICATION Spec
CONSTANTS
  Proc = {p1, p2}
  Input = {1, 2}
  Hasher = "Seeded"
  Stateless = TRUE
  Seeds = {0, 1}
INVARIANTS
  Function
PROPERTIES
  Stable
CHECK_DEADLOCK FALSE
