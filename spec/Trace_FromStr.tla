--------------------------- MODULE Trace_FromStr ---------------------------
(* events {id, vs, s, result}: result = index of the variant the real      *)
(* from_str returned, 0 for Err; DocParse is evaluated on the logged input *)
EXTENDS FromStr, Json, IOUtils
Rec == ndJsonDeserialize(IOEnv.TRACE)
VARIABLES l, bad, finished
Init == l = 1 /\ bad = <<>> /\ finished = FALSE
Step == /\ l <= Len(Rec)
        /\ LET e == Rec[l] IN
           bad' = IF e.result = DocParse(e.vs, e.s) THEN bad
                  ELSE Append(bad, [id |-> e.id, expected |-> DocParse(e.vs, e.s)])
        /\ l' = l + 1 /\ UNCHANGED finished
Finish == /\ l = Len(Rec) + 1 /\ ~finished /\ finished' = TRUE
          /\ PrintT(<<"DONE", ToJson([consumed |-> l - 1, bad |-> Len(bad)])>>)
          /\ \A i \in 1..Len(bad) : PrintT(<<"BAD", ToJson(bad[i])>>)
          /\ UNCHANGED <<l, bad>>
Next == Step \/ Finish
Spec == Init /\ [][Next]_<<l, bad, finished>>
=============================================================================
