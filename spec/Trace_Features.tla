--------------------------- MODULE Trace_Features ---------------------------
(* events {id, features, std, step, outcome} recorded from real cargo builds/tests of feature configurations; the *)
(* specification predicts "ok" for every configuration (each feature works on its own, with and without std).      *)
EXTENDS Naturals, Sequences, TLC, Json, IOUtils
Rec == ndJsonDeserialize(IOEnv.TRACE)
VARIABLES l, bad, finished
Init == l = 1 /\ bad = <<>> /\ finished = FALSE
Step == /\ l <= Len(Rec)
        /\ bad' = IF Rec[l].outcome = "ok" THEN bad ELSE Append(bad, [id |-> Rec[l].id])
        /\ l' = l + 1 /\ UNCHANGED finished
Finish == /\ l = Len(Rec) + 1 /\ ~finished /\ finished' = TRUE
          /\ PrintT(<<"DONE", ToJson([consumed |-> l - 1, bad |-> Len(bad)])>>)
          /\ \A i \in 1..Len(bad) : PrintT(<<"BAD", ToJson(bad[i])>>)
          /\ UNCHANGED <<l, bad>>
Next == Step \/ Finish
Spec == Init /\ [][Next]_<<l, bad, finished>>
=============================================================================
