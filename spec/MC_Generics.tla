--------------------------- MODULE MC_Generics ---------------------------
EXTENDS Generics, Json
CONSTANTS MaxParams, EmitCases
VARIABLES decl, family

Families == {"split", "bound_all", "extra_ty", "extra_lt", "repr"}
ParamChoices == {[k |-> "lt", name |-> "'a", bound |-> FALSE, default |-> FALSE], [k |-> "lt", name |-> "'b", bound |-> TRUE, default |-> FALSE]}
                \cup [k : {"ty"}, name : {"T", "U"}, bound : BOOLEAN, default : BOOLEAN]
                \cup [k : {"const"}, name : {"N"}, bound : {FALSE}, default : BOOLEAN]
\* a declaration is well-formed for rustc: lifetimes first, distinct names, defaults trailing
Init == decl = <<>> /\ family \in Families
Add == Len(decl) < MaxParams /\ \E p \in ParamChoices :
          /\ \A i \in 1..Len(decl) : decl[i].name # p.name
          /\ (p.k = "lt" => \A i \in 1..Len(decl) : decl[i].k = "lt")
          /\ (\E i \in 1..Len(decl) : decl[i].default) => p.default
          /\ (p.name = "'b" => \E i \in 1..Len(decl) : decl[i].name = "'a")
          /\ decl' = Append(decl, p) /\ UNCHANGED family
Next == Add
Spec == Init /\ [][Next]_<<decl, family>>

P_C01_SelfArgs == SelfArgs(family, decl)
P_C01_Scope    == Scope(family, decl)
P_C01_Order    == Order(family, decl)
P_C01_Fresh    == FreshOk(family, decl)
P_C01_Bounds   == Bounds(family, decl)
P_C01_Additive == Additive(family, decl)
Emit == EmitCases /\ family = "split" => PrintT(<<"CASE", ToJson([decl |-> decl])>>)
=============================================================================
