--------------------------- MODULE Trace_ExprSplit ---------------------------
(* Events {id, tokens, truth, real}: truth/real are sequences of           *)
(* [from, to, ident] (token index ranges, 1-based).                        *)
EXTENDS ExprSplit, Json, IOUtils
Rec == ndJsonDeserialize(IOEnv.TRACE)
VARIABLES l, bad, finished

Norm(r) == [j \in 1..Len(r) |-> [from |-> r[j].from, to |-> r[j].to, ident |-> r[j].ident]]
Verdict(e) ==
    LET model == ImplSplit(e.tokens)
        real  == Norm(e.real)
        truth == Norm(e.truth)
    IN  IF real = truth THEN (IF model = real THEN "ok" ELSE "drift")
        ELSE IF real = model THEN "known_mechanism" ELSE "unexplained"

Init == l = 1 /\ bad = <<>> /\ finished = FALSE
Step == /\ l <= Len(Rec)
        /\ LET v == Verdict(Rec[l]) IN
             bad' = IF v = "ok" THEN bad ELSE Append(bad, [id |-> Rec[l].id, why |-> v])
        /\ l' = l + 1 /\ UNCHANGED finished
Finish == /\ l = Len(Rec) + 1 /\ ~finished /\ finished' = TRUE
          /\ PrintT(<<"DONE", ToJson([consumed |-> l - 1, bad |-> Len(bad)])>>)
          /\ \A i \in 1..Len(bad) : PrintT(<<"BAD", ToJson(bad[i])>>)
          /\ UNCHANGED <<l, bad>>
Next == Step \/ Finish
Spec == Init /\ [][Next]_<<l, bad, finished>>
=============================================================================
