--------------------------- MODULE MC_TryFromRepr ---------------------------
EXTENDS TryFromRepr, DiscStep, Json
CONSTANTS MaxVariants, EmitCases, Kinds
VARIABLES vs, attrs

DiscChoices == {[op |-> "none", a |-> 0, b |-> 0], Lit(0), Lit(5), Lit(200), [op |-> "neg", a |-> 2, b |-> 0],
                              [op |-> "shl", a |-> 1, b |-> 2], [op |-> "or", a |-> 4, b |-> 1],
                              [op |-> "add", a |-> 2, b |-> 1], [op |-> "bnot", a |-> 0, b |-> 0], [op |-> "bnot", a |-> 6, b |-> 0]}
ReprChoices == {<<>>, <<<<"u8">>>>, <<<<"i8">>>>, <<<<"i16">>>>, <<<<"u32">>>>, <<<<"C", "u8">>>>, <<<<"u8", "C">>>>,
                <<<<"align(8)", "i16">>>>, <<<<"i16", "align(8)">>>>, <<<<"u8">>, <<"C">>>>, <<<<"C">>, <<"u8">>>>,
                <<<<"u16">>>>, <<<<"i32">>>>, <<<<"u64">>>>, <<<<"i64">>>>, <<<<"u128">>>>, <<<<"i128">>>>,
                <<<<"usize">>>>, <<<<"isize">>>>}

Init == vs = <<>> /\ attrs \in ReprChoices
Add  == /\ Len(vs) < MaxVariants
        /\ \E k \in Kinds, d \in DiscChoices : vs' = Append(vs, [kind |-> k, disc |-> d])
        /\ UNCHANGED attrs
Next == Add
Spec == Init /\ [][Next]_<<vs, attrs>>

Signed(t) == t \in {"i8", "i16", "i32", "i64", "i128", "isize"}
\* (TLC integers are 32-bit: every type of 32 bits or more is "wide"; the values used here are small)
Bits(t) == CASE t \in {"u8", "i8"} -> 8 [] t \in {"u16", "i16"} -> 16 [] OTHER -> 30
InRange(t, n) == IF Signed(t) THEN n >= 0 - Pow2(Bits(t) - 1) /\ n < Pow2(Bits(t) - 1)
                 ELSE n >= 0 /\ n < Pow2(Bits(t))
\* what rustc accepts: discriminants distinct and representable; explicit discriminants on an enum
\* with fields need an explicit integer repr
Valid == LET ds == Discs(vs)
             t  == DocReprTy(attrs)
             hasFields == \E j \in 1..Len(vs) : vs[j].kind \notin FieldlessKinds
             hasExplicit == \E j \in 1..Len(vs) : vs[j].disc.op # "none"
         IN /\ Len(vs) >= 1
            /\ ((\E j \in 1..Len(vs) : vs[j].disc.op = "bnot") => Signed(t))
            /\ \A j \in 1..Len(vs) : InRange(t, ds[j])
            /\ \A j, k \in 1..Len(vs) : j # k => ds[j] # ds[k]
            /\ ((\E j \in 1..Len(vs) : vs[j].kind # "unit") /\ hasExplicit => AllHints(attrs) \cap IntTypes # {})
            \* repr(C) together with an integer repr is only accepted on enums with fields (E0566)
            /\ ("C" \in AllHints(attrs) /\ AllHints(attrs) \cap IntTypes # {} => hasFields)

P_C12_Inverse    == Valid => Inverse(vs)
P_C12_DocInverse == Valid => DocInverse(vs)
P_C12_Repr       == ReprRight(attrs)

(* the unbounded machine of DiscCounter.tla (Apalache / TLAPS), folded over this concrete enum: it must compute what   *)
(* both the documented rule and the transcription of try_from.rs compute - this ties the machine that is proved for     *)
(* enums of any length to the module whose cases are replayed into the real derive                                     *)
RECURSIVE RunMachine(_, _, _)
RunMachine(w, j, s) ==
    IF j > Len(w) THEN <<>>
    ELSE LET t == IF w[j].disc.op = "none" THEN DImplicit(s) ELSE DExplicit(s, Eval(w[j].disc), 1)
         IN <<t>> \o RunMachine(w, j + 1, t)
P_C12_Machine == LET run == RunMachine(vs, 1, DInit) IN
                 /\ [j \in 1..Len(vs) |-> run[j].docOut] = Discs(vs)
                 /\ (Parenthesised => [j \in 1..Len(vs) |-> run[j].implOut] = Consts(vs))

CaseRec == [vs |-> vs, attrs |-> attrs, repr |-> DocReprTy(attrs), discs |-> Discs(vs),
            consts |-> Consts(vs), errTemplate |-> DocErrTemplate]
Emit == EmitCases /\ Valid => PrintT(<<"CASE", ToJson(CaseRec)>>)
=============================================================================
