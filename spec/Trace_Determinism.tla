--------------------------- MODULE Trace_Determinism ---------------------------
(* events {id, pid, seq, input, digest} recorded from real expansions in several fresh processes and in     *)
(* different orders.  F (input -> digest) is the one unlogged variable: bound at the first occurrence of an  *)
(* input, required at every later one.  A disagreeing event is collected, never blocking.                    *)
EXTENDS Naturals, Sequences, TLC, Json, IOUtils
Rec == ndJsonDeserialize(IOEnv.TRACE)
VARIABLES l, F, bad, finished
Init == l = 1 /\ F = <<>> /\ bad = <<>> /\ finished = FALSE
Known(i) == \E k \in 1..Len(F) : F[k][1] = i
Digest(i) == (CHOOSE k \in 1..Len(F) : F[k][1] = i)
Step == /\ l <= Len(Rec)
        /\ LET e == Rec[l] IN
           IF Known(e.input)
           THEN /\ F' = F
                /\ bad' = IF F[Digest(e.input)][2] = e.digest THEN bad
                          ELSE Append(bad, [id |-> e.id, input |-> e.input, pid |-> e.pid, seq |-> e.seq])
           ELSE /\ F' = Append(F, <<e.input, e.digest>>) /\ bad' = bad
        /\ l' = l + 1 /\ UNCHANGED finished
Finish == /\ l = Len(Rec) + 1 /\ ~finished /\ finished' = TRUE
          /\ PrintT(<<"DONE", ToJson([consumed |-> l - 1, bad |-> Len(bad), inputs |-> Len(F)])>>)
          /\ \A i \in 1..Len(bad) : PrintT(<<"BAD", ToJson(bad[i])>>)
          /\ UNCHANGED <<l, F, bad>>
Next == Step \/ Finish
Spec == Init /\ [][Next]_<<l, F, bad, finished>>
=============================================================================
