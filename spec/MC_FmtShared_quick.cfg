SPECIFICATION Spec
CONSTANTS
  MaxVariants = 2
  EmitCases = TRUE
  Traits = {"Display", "Debug", "LowerHex", "UpperHex", "Octal", "Binary", "LowerExp", "UpperExp", "Pointer"}
INVARIANTS
  P_C07
  P_C07_DefaultOnly
  P_C07_Wrap
  Emit
CHECK_DEADLOCK FALSE
