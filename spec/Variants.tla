--------------------------- MODULE Variants ---------------------------
(***************************************************************************)
(* C11.  Variant accessors agree with the value's variant and never lose   *)
(* data.  The contract (Doc) as tables over (value's variant, accessor's   *)
(* variant); the real derives are replayed against it.                     *)
(* variant = [k : "unit" | "tuple" | "named", tys : Seq({"A","B"}),        *)
(*            ign : BOOLEAN, fign : Seq(BOOLEAN)]                          *)
(* ign  = the variant carries #[<derive>(ignore)] (all four derives);      *)
(* fign = per field, #[try_into(ignore)] (only TryInto has field-level     *)
(*        ignores: the field is matched but not part of the target tuple). *)
(***************************************************************************)
EXTENDS Naturals, Sequences, FiniteSets, TLC

Live(vs) == {i \in 1..Len(vs) : ~vs[i].ign}

\* is_x(v): true iff v is X
DocIs(vs, a, x) == a = x
\* unwrap_x / try_unwrap_x on a value of variant a: the fields of X in order iff a = x
DocUnwrap(vs, a, x) == IF a = x THEN <<"ok", vs[x].tys>> ELSE <<"fail">>
\* TryFrom<Enum> for the tuple type T: succeeds exactly for the live variants whose NON-IGNORED field types are T,
\* and yields those fields (by position, in declaration order)
LiveIdx(v)  == SelectSeq([j \in 1..Len(v.tys) |-> j], LAMBDA j : ~v.fign[j])
LiveTys(v)  == [n \in 1..Len(LiveIdx(v)) |-> v.tys[LiveIdx(v)[n]]]
TargetTypes(vs) == {LiveTys(vs[i]) : i \in Live(vs)}
DocTryInto(vs, a, T) == IF ~vs[a].ign /\ LiveTys(vs[a]) = T THEN <<"ok", LiveIdx(vs[a])>> ELSE <<"fail">>

\* The reference forms: `#[unwrap(owned, ref, ref_mut)]` (likewise try_unwrap, try_into) lists which of the owned /
\* shared / mutable accessor forms are generated; without the attribute only the owned form is.
FormSets == (SUBSET {"owned", "ref", "ref_mut"}) \ {{}}
DocForms(fa) == IF fa = {} THEN {"owned"} ELSE fa          \* {} stands for "no attribute"
\* Unwrap / TryUnwrap (unwrap.md, try_unwrap.md): "If you want to treat a reference, you can put the #[unwrap(ref)] attribute on
\* the enum declaration OR THAT VARIANT, then unwrap_foo_ref will be generated" - next to unwrap_foo, as the documented example
\* shows (`#[unwrap(ref)]`: unwrap_just and unwrap_just_ref). So the reference forms ADD to the owned accessor, which every
\* non-ignored variant has; on a variant they concern that variant alone.
\* place: "enum" (on the enum declaration) or "variant1" (on the first non-ignored variant only).
DocFormsU(fa) == fa \cup {"owned"}
FirstLive(vs) == CHOOSE i \in Live(vs) : \A j \in Live(vs) : i <= j
DocFormsAt(fa, place, vs, x) == IF place = "enum" \/ fa = {} THEN DocFormsU(fa)
                                ELSE IF x = FirstLive(vs) THEN DocFormsU(fa) ELSE {"owned"}

(***************************************************************************)
(* Extension beyond C11 (spec growth): the TEXTS of the failure paths.     *)
(* They are documented (try_unwrap.md, the TryInto tests) and users match  *)
(* on them in logs; the property itself only speaks about the payload, so  *)
(* a disagreement here is reported as an extension mismatch, never as a    *)
(* C11 verdict.  Names are given as a sequence of [id, fn] records: the    *)
(* variant's identifier as written and its accessor stem (snake case).     *)
(***************************************************************************)
SuffixOf(form) == CASE form = "owned" -> "" [] form = "ref" -> "_ref" [] form = "ref_mut" -> "_mut"
\* unwrap_x{suffix}() on a value of variant a # x panics with:
DocUnwrapPanic(enum, names, a, x, form) ==
    "called `" \o enum \o "::unwrap_" \o names[x].fn \o SuffixOf(form) \o "()` on a `" \o enum \o "::" \o names[a].id \o "` value"
\* try_unwrap_x{suffix}() on a value of variant a # x returns an error that prints:
DocTryUnwrapText(enum, names, a, x, form) ==
    "Attempt to call `" \o enum \o "::try_unwrap_" \o names[x].fn \o SuffixOf(form) \o "()` on a `" \o enum \o "::" \o names[a].id \o "` value"
\* TryFrom<Enum> for the tuple type T fails with "Only <the variants convertible to T, in declaration order> can be
\* converted to <T>" - the same text for the owned, shared and mutable forms (the target is named without `&`)
RECURSIVE JoinStr(_, _)
JoinStr(ss, sep) == IF Len(ss) = 0 THEN "" ELSE IF Len(ss) = 1 THEN ss[1] ELSE ss[1] \o sep \o JoinStr(Tail(ss), sep)
Group(vs, T) == SelectSeq([i \in 1..Len(vs) |-> i], LAMBDA i : ~vs[i].ign /\ LiveTys(vs[i]) = T)
TypeText(T) == IF Len(T) = 1 THEN T[1] ELSE "(" \o JoinStr(T, ", ") \o ")"
DocTryIntoText(names, vs, T) ==
    "Only " \o JoinStr([n \in 1..Len(Group(vs, T)) |-> names[Group(vs, T)[n]].id], ", ") \o " can be converted to " \o TypeText(T)

\* laws of the contract
Partition(vs) == \A a \in 1..Len(vs) : ~vs[a].ign =>
                    Cardinality({x \in Live(vs) : DocIs(vs, a, x)}) = 1
TryIntoExact(vs) == \A a \in Live(vs) :
                    Cardinality({T \in TargetTypes(vs) : DocTryInto(vs, a, T)[1] = "ok"}) = 1
=============================================================================
