--------------------------- MODULE Variants ---------------------------
(***************************************************************************)
(* C11.  Variant accessors agree with the value's variant and never lose   *)
(* data.  The contract (Doc) as tables over (value's variant, accessor's   *)
(* variant); the real derives are replayed against it.                     *)
(* variant = [k : "unit" | "tuple" | "named", tys : Seq({"A","B"}),        *)
(*            ign : BOOLEAN, fign : Seq(BOOLEAN)]                          *)
(* ign  = the variant carries #[<derive>(ignore)] (all four derives);      *)
(* fign = per field, #[try_into(ignore)] (only TryInto has field-level     *)
(*        ignores: the field is matched but not part of the target tuple). *)
(***************************************************************************)
EXTENDS Naturals, Sequences, FiniteSets, TLC

Live(vs) == {i \in 1..Len(vs) : ~vs[i].ign}

\* is_x(v): true iff v is X
DocIs(vs, a, x) == a = x
\* unwrap_x / try_unwrap_x on a value of variant a: the fields of X in order iff a = x
DocUnwrap(vs, a, x) == IF a = x THEN <<"ok", vs[x].tys>> ELSE <<"fail">>
\* TryFrom<Enum> for the tuple type T: succeeds exactly for the live variants whose NON-IGNORED field types are T,
\* and yields those fields (by position, in declaration order)
LiveIdx(v)  == SelectSeq([j \in 1..Len(v.tys) |-> j], LAMBDA j : ~v.fign[j])
LiveTys(v)  == [n \in 1..Len(LiveIdx(v)) |-> v.tys[LiveIdx(v)[n]]]
TargetTypes(vs) == {LiveTys(vs[i]) : i \in Live(vs)}
DocTryInto(vs, a, T) == IF ~vs[a].ign /\ LiveTys(vs[a]) = T THEN <<"ok", LiveIdx(vs[a])>> ELSE <<"fail">>

\* The reference forms: `#[unwrap(owned, ref, ref_mut)]` (likewise try_unwrap, try_into) lists which of the owned /
\* shared / mutable accessor forms are generated; without the attribute only the owned form is.
FormSets == (SUBSET {"owned", "ref", "ref_mut"}) \ {{}}
DocForms(fa) == IF fa = {} THEN {"owned"} ELSE fa          \* {} stands for "no attribute"

\* laws of the contract
Partition(vs) == \A a \in 1..Len(vs) : ~vs[a].ign =>
                    Cardinality({x \in Live(vs) : DocIs(vs, a, x)}) = 1
TryIntoExact(vs) == \A a \in Live(vs) :
                    Cardinality({T \in TargetTypes(vs) : DocTryInto(vs, a, T)[1] = "ok"}) = 1
=============================================================================
