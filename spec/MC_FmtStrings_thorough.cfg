SPECIFICATION Spec
CONSTANTS
  MaxLen = 5
  Alphabet = {"{", "}", ":", "0", "1", "a", "x", "?", "$", ".", "*", "<", "+", "#", " ", "_", "U2", "U3", "W3"}
  EmitCases = TRUE
INVARIANTS
  P_C18_Progress
  AllWithAgree
CHECK_DEADLOCK FALSE
