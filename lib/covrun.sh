#!/bin/bash
# covrun.sh <check ids...>: run quick checks with the harness, the probes and the proc-macro built with -C instrument-coverage
# (nightly toolchain: its llvm-profdata / llvm-cov match), profiles under work/cov/raw; own build / work / out dirs.
# Then: lib/covreport.sh prints the lines of impl/src and src no check reached.
cd /verif
export RUSTUP_TOOLCHAIN=nightly RUSTFLAGS="-C instrument-coverage" LLVM_PROFILE_FILE="/verif/work/cov/raw/%p-%8m.profraw"
export VERIF_BUILD_DIR=/verif/work/cov/build VERIF_WORK_DIR=/verif/work/cov/work VERIF_OUT_DIR=/verif/work/cov/out
for c in "$@"; do
  ./check $c --tier quick 2>&1 | grep -E "^(VIOLATION|OK|TOOL)" | head -3
done
