#!/usr/bin/env python3
"""covreport.py [--min N]: which lines of /repo/impl/src and /repo/src did no quick check reach?
Reads the profiles written by lib/covrun.sh (work/cov/raw), merges them, exports line counts for every instrumented object
(the in-process harness, every build of the proc-macro dylib, the probe executables for the facade's run-time code) and prints
the uncovered line ranges with their source text. A line counts as reached when any object reports a non-zero count for it."""
import glob
import json
import os
import subprocess
import sys

V = os.path.dirname(os.path.dirname(os.path.abspath(__file__)))
COV = os.path.join(V, "work", "cov")
T = os.path.expanduser("~/.rustup/toolchains/nightly-x86_64-unknown-linux-gnu/lib/rustlib/x86_64-unknown-linux-gnu/bin")


def norm(path):
    for marker, pre in (("/impl/src/", "impl/src/"), ("/repo/src/", "src/")):
        if marker in path:
            return pre + path.split(marker, 1)[1]
    return None


def main():
    raws = glob.glob(os.path.join(COV, "raw", "*.profraw"))
    prof = os.path.join(COV, "merged.profdata")
    lst = os.path.join(COV, "raw.list")
    open(lst, "w").write("\n".join(raws))
    subprocess.run([os.path.join(T, "llvm-profdata"), "merge", "-sparse", "--failure-mode=all", "-f", lst, "-o", prof], check=False,
                   stderr=subprocess.DEVNULL)
    objs = glob.glob(os.path.join(COV, "build", "**", "dm_inproc"), recursive=True)
    objs += glob.glob(os.path.join(COV, "build", "**", "libderive_more_impl-*.so"), recursive=True)
    # probe executables (the facade's own code: src/fmt.rs, src/as.rs, the error types)
    for d in glob.glob(os.path.join(COV, "build", "target*", "debug")):
        for f in os.listdir(d):
            p = os.path.join(d, f)
            if os.path.isfile(p) and os.access(p, os.X_OK) and "." not in f and f != "dm_inproc":
                objs.append(p)
    objs = [o for o in objs if os.path.isfile(o)]
    counts = {}
    for o in objs:
        p = subprocess.run([os.path.join(T, "llvm-cov"), "export", "-format=lcov", f"-instr-profile={prof}", o],
                           stdout=subprocess.PIPE, stderr=subprocess.DEVNULL, text=True)
        cur = None
        for l in p.stdout.splitlines():
            if l.startswith("SF:"):
                cur = norm(l[3:])
            elif l.startswith("DA:") and cur:
                ln, c = l[3:].split(",")[:2]
                d = counts.setdefault(cur, {})
                d[int(ln)] = max(d.get(int(ln), 0), int(c))
    out = {}
    tot = cov = 0
    for f in sorted(counts):
        src_path = os.path.join("/repo", f)
        if not os.path.exists(src_path):
            continue
        src = open(src_path).read().split("\n")
        limit = next((i for i, l in enumerate(src) if "#[cfg(test)]" in l), len(src))
        zero = sorted(ln for ln, c in counts[f].items() if c == 0 and ln <= limit)
        tot += len([ln for ln in counts[f] if ln <= limit])
        cov += len([ln for ln, c in counts[f].items() if c > 0 and ln <= limit])
        ranges = []
        for ln in zero:
            if ranges and ln <= ranges[-1][1] + 1:
                ranges[-1][1] = ln
            else:
                ranges.append([ln, ln])
        out[f] = ranges
        print(f"== {f}: {len(zero)} of {len([x for x in counts[f] if x <= limit])} instrumented lines not reached")
        for a, b in ranges:
            for ln in range(a, b + 1):
                print(f"   {ln:5d}  {src[ln - 1][:150]}")
            print("   -----")
    print(f"TOTAL {cov}/{tot} instrumented lines reached; objects: {len(objs)}; profiles: {len(raws)}")
    json.dump(out, open(os.path.join(COV, "uncovered.json"), "w"))


if __name__ == "__main__":
    main()
