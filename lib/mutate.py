#!/usr/bin/env python3
"""Automatic small mutations of /repo/impl/src as an unbiased estimate of what the quick checks detect.
For each mutant: (1) it must compile, (2) the repository's own suite must pass exactly as on the unchanged tree (only
compile_fail failing) - otherwise it is not a "realistic change the tests miss" and is dropped, (3) the quick checks whose
recorded line coverage (work/line_checks.json) touches the mutated line are run on it (VERIF_REPO).
usage: python3 lib/mutate.py <n> [seed]     results appended to work/mutants.jsonl"""
import json
import os
import random
import re
import subprocess
import sys
import time

VERIF = os.path.dirname(os.path.dirname(os.path.abspath(__file__)))
WT = "/tmp/mutw/wt"
OPS = [(r"==", "!="), (r"!=", "=="), (r"&&", "||"), (r"\|\|", "&&"), (r"\.is_some\(\)", ".is_none()"), (r"\.is_none\(\)", ".is_some()"),
       (r"\.is_empty\(\)", ".len() == 1"), (r"\btrue\b", "false"), (r"\bfalse\b", "true"), (r" \+ 1\b", " + 0"), (r" - 1\b", " - 0"),
       (r"\.any\(", ".all("), (r"\.all\(", ".any("), (r"if !", "if "), (r" > 1\b", " > 0"), (r" > 0\b", " > 1"), (r"\.filter\(", ".filter(|_| true).filter("),
       (r"Some\(true\)", "Some(false)"), (r"\.first\(\)", ".last()"), (r"\.unraw\(\)", ".clone()"), (r"\.skip\(1\)", ".skip(0)"),
       (r"\.then_some\(", ".then_some("), (r"<= ", "< "), (r">= ", "> ")]


def sh(cmd, **kw):
    return subprocess.run(cmd, shell=True, stdout=subprocess.PIPE, stderr=subprocess.STDOUT, text=True, **kw)


def suite(wt):
    p = sh(f"cd {wt} && CARGO_TARGET_DIR=/tmp/mutw/suite timeout 1500 cargo test --workspace --no-fail-fast --offline 2>&1 | "
           "grep -E '^test result|^test .* FAILED|error(\\[|:)' | sed -E 's/finished in [0-9.]+s//' | sort | uniq -c")
    return p.stdout


def main():
    n = int(sys.argv[1])
    rnd = random.Random(int(sys.argv[2]) if len(sys.argv) > 2 else 1)
    line_checks = json.load(open(os.path.join(VERIF, "work", "line_checks.json")))
    head = sh("git -C /repo rev-parse HEAD").stdout.strip()
    os.makedirs("/tmp/mutw", exist_ok=True)
    sh(f"git -C /repo worktree remove --force {WT}; git -C /repo worktree prune; git -C /repo worktree add --detach {WT} {head}; cp /repo/Cargo.lock {WT}/")
    base = suite(WT)
    out = open(os.path.join(VERIF, "work", "mutants.jsonl"), "a")
    files = [f for f in line_checks if f.startswith("impl/src/")]
    done = 0
    tries = 0
    while done < n and tries < n * 40:
        tries += 1
        f = rnd.choice(files)
        src = open(os.path.join(WT, f)).read().split("\n")
        # do not mutate test modules
        limit = next((i for i, l in enumerate(src) if "#[cfg(test)]" in l), len(src))
        ln = rnd.randrange(0, limit)
        line = src[ln]
        if line.strip().startswith("//") or not line.strip():
            continue
        near = set()
        for d in range(-3, 4):
            near |= set(line_checks[f].get(str(ln + 1 + d), []))
        if not near:
            continue
        ops = [(a, b) for a, b in OPS if re.search(a, line)]
        if not ops:
            continue
        a, b = rnd.choice(ops)
        m = list(re.finditer(a, line))
        mm = rnd.choice(m)
        new = line[:mm.start()] + b + line[mm.end():]
        if new == line:
            continue
        src[ln] = new
        open(os.path.join(WT, f), "w").write("\n".join(src))
        rec = {"file": f, "line": ln + 1, "old": line.strip(), "new": new.strip(), "checks": {}}
        t0 = time.time()
        b1 = sh(f"cd {WT} && CARGO_TARGET_DIR=/tmp/mutw/suite timeout 600 cargo build --offline -q -p derive_more-impl --features full 2>&1 | tail -3")
        if "error" in b1.stdout:
            rec["status"] = "does_not_compile"
        else:
            s = suite(WT)
            if s != base:
                rec["status"] = "killed_by_suite"
            else:
                rec["status"] = "survives_suite"
                for c in sorted(near):
                    env = dict(os.environ, VERIF_REPO=WT, VERIF_BUILD_DIR="/tmp/mutw/build", VERIF_WORK_DIR="/tmp/mutw/work", VERIF_OUT_DIR="/tmp/mutw/out")
                    p = subprocess.run([os.path.join(VERIF, "check"), c, "--tier", "quick"], cwd=VERIF, env=env, stdout=subprocess.PIPE,
                                       stderr=subprocess.STDOUT, text=True)
                    rec["checks"][c] = {"exit": p.returncode, "violations": p.stdout.count("VIOLATION property=")}
                    if p.returncode == 1:
                        break          # one detecting check is enough
                rec["detected"] = any(v["exit"] == 1 for v in rec["checks"].values())
                done += 1
        rec["wall_s"] = round(time.time() - t0, 1)
        out.write(json.dumps(rec) + "\n")
        out.flush()
        print(rec["status"], f, ln + 1, rec.get("detected"), rec["old"][:60], "=>", rec["new"][:60], flush=True)
        sh(f"git -C {WT} checkout -- .")
    sh(f"git -C /repo worktree remove --force {WT}; git -C /repo worktree prune")


if __name__ == "__main__":
    main()
