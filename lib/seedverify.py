#!/usr/bin/env python3
"""seedverify.py <ID> [<seed-name>] : confirm a seeded change produced by a sub-agent and run the check on it.

 1. demo fails with the patch / passes without it (in the agent's scratch worktree /tmp/seed/<ID>)
 2. the pinned test suite still passes with the patch (same worktree)
 3. apply the patch to /repo, run ./check <ID> --tier quick, undo the patch
Result: /verif/seeded/<name>/{patch.diff, demo..., meta.json}
"""
import json
import os
import shutil
import subprocess
import sys
import time

VERIF = os.path.dirname(os.path.dirname(os.path.abspath(__file__)))


def sh(cmd, cwd=None, timeout=3000, env=None):
    e = dict(os.environ)
    e["CARGO_NET_OFFLINE"] = "true"
    if env:
        e.update(env)
    p = subprocess.run(cmd, shell=True, cwd=cwd, stdout=subprocess.PIPE, stderr=subprocess.STDOUT, text=True,
                       timeout=timeout, env=e)
    return p.returncode, p.stdout


def main():
    pid = sys.argv[1]
    name = sys.argv[2] if len(sys.argv) > 2 else pid
    checks = sys.argv[3].split(",") if len(sys.argv) > 3 else [pid]
    wt = f"/tmp/seed/{name}"
    out = f"/tmp/seed/{name}.out"
    patch = os.path.join(out, "patch.diff")
    meta = json.load(open(os.path.join(out, "meta.json"))) if os.path.exists(os.path.join(out, "meta.json")) else {}
    res = {"property": pid, "agent_meta": meta, "ran": []}
    tgt = f"/tmp/seed/{name}/target"
    env = {"CARGO_TARGET_DIR": tgt}
    # normalise the worktree: clean checkout of the commit + patch
    sh("git reset -q --hard; git clean -fdq", cwd=wt)
    rc, o = sh(f"git apply --check {patch}", cwd=wt)
    base = "HEAD"
    res["patch_applies_to_worktree"] = rc == 0
    if rc != 0:
        print("patch does not apply to its own worktree:", o)
    demo = os.path.join(out, "demo")
    demo_cmd = None
    if os.path.isdir(demo):
        shutil.rmtree(os.path.join(wt, "demo"), ignore_errors=True)
        shutil.copytree(demo, os.path.join(wt, "demo"), ignore=shutil.ignore_patterns("target"))
        demo_cmd = f"cd {wt}/demo && cargo run --offline -q 2>&1 | tail -15; exit ${{PIPESTATUS[0]}}"
        for script in ("run.sh", "check.sh", "run_demo.sh"):
            if os.path.exists(os.path.join(demo, script)):
                demo_cmd = f"cd {wt}/demo && bash {script} 2>&1 | tail -15; exit ${{PIPESTATUS[0]}}"
    else:
        # a test file: look for *.rs in out
        rs = [f for f in os.listdir(out) if f.endswith(".rs")]
        if rs:
            shutil.copy(os.path.join(out, rs[0]), os.path.join(wt, "tests", rs[0]))
            tname = rs[0][:-3]
            demo_cmd = f"cd {wt} && cargo test --offline --features full --test {tname} 2>&1 | tail -15; exit ${{PIPESTATUS[0]}}"
    if demo_cmd:
        rc0, o0 = sh(f"bash -c '{demo_cmd}'", env=env)
        res["demo_without_patch_rc"] = rc0
        sh(f"git apply {patch}", cwd=wt)
        rc1, o1 = sh(f"bash -c '{demo_cmd}'", env=env)
        res["demo_with_patch_rc"] = rc1
        res["demo_with_patch_tail"] = o1[-600:]
        res["ran"].append(demo_cmd)
        print(f"demo: without patch rc={rc0}, with patch rc={rc1}")
    else:
        sh(f"git apply {patch}", cwd=wt)
        print("no demo found")
    # suite with the patch
    suite = ("cargo test --workspace --offline --no-fail-fast 2>&1 | grep -E '^test result|FAILED|failed' | sort | uniq -c | "
             "sort -rn | head -20")
    rc, o = sh(suite, cwd=wt, env=env, timeout=3000)
    failed_lines = [l for l in o.splitlines() if "FAILED" in l or "failed;" in l and " 0 failed" not in l]
    res["suite_with_patch"] = o[-1500:]
    res["ran"].append("cd <worktree with patch> && " + suite)
    print("suite summary with patch:\n" + o[-800:])
    shutil.rmtree(tgt, ignore_errors=True)
    shutil.rmtree(os.path.join(wt, "demo", "target"), ignore_errors=True)
    # the checks, on the scratch worktree brought to /repo's HEAD + the patch (VERIF_REPO points the
    # whole machinery at it; own build/work/out dirs so that nothing in /verif or /repo is touched)
    rc, head = sh("git rev-parse HEAD", cwd="/repo")
    sh(f"git checkout -q -- . && git clean -fdq && git checkout -q --detach {head.strip()}", cwd=wt)
    rc, o = sh(f"git apply --3way {patch} 2>&1 || git apply {patch}", cwd=wt)
    rc2, st = sh("git status --porcelain", cwd=wt)
    res["applies_to_repo_head"] = bool(st.strip()) and "U" not in "".join(l[:2] for l in st.splitlines())
    res["repo_head"] = head.strip()
    det = {}
    cenv = {"VERIF_REPO": wt, "VERIF_BUILD_DIR": f"/tmp/seed/{name}.build", "VERIF_WORK_DIR": f"/tmp/seed/{name}.work",
            "VERIF_OUT_DIR": f"/tmp/seed/{name}.vout"}
    if res["applies_to_repo_head"]:
        for c in checks:
            t0 = time.time()
            rc, o = sh(f"./check {c} --tier quick", cwd=VERIF, timeout=3000, env=cenv)
            viol = [l for l in o.splitlines() if l.startswith("VIOLATION")]
            det[c] = {"exit": rc, "violation_lines": len(viol), "wall_s": round(time.time() - t0, 1),
                      "tail": "\n".join(o.splitlines()[-6:])[-900:]}
            print(f"check {c}: exit {rc}, {len(viol)} VIOLATION lines")
            res["ran"].append(f"VERIF_REPO=<worktree at {head.strip()[:8]} + patch> ./check {c} --tier quick")
    else:
        print("patch does not apply to /repo HEAD:", o[-500:])
    for d in (f"/tmp/seed/{name}.build", f"/tmp/seed/{name}.work"):
        shutil.rmtree(d, ignore_errors=True)
    res["checks_on_patched_repo"] = det
    res["detected_by"] = [c for c, d in det.items() if d["exit"] == 1 and d["violation_lines"] > 0]
    dst = os.path.join(VERIF, "seeded", name)
    os.makedirs(dst, exist_ok=True)
    shutil.copy(patch, os.path.join(dst, "patch.diff"))
    for f in os.listdir(out):
        if f in ("patch.diff",):
            continue
        src = os.path.join(out, f)
        if os.path.isdir(src):
            shutil.rmtree(os.path.join(dst, f), ignore_errors=True)
            shutil.copytree(src, os.path.join(dst, f), ignore=shutil.ignore_patterns("target", "Cargo.lock"))
        elif f != "meta.json":
            shutil.copy(src, os.path.join(dst, f))
    res["breaks"] = pid
    res["needs"] = meta.get("needs")
    res["summary"] = meta.get("summary")
    json.dump(res, open(os.path.join(dst, "meta.json"), "w"), indent=1)
    print("detected_by:", res["detected_by"])


if __name__ == "__main__":
    main()
