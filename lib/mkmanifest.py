#!/usr/bin/env python3
"""Regenerates /verif/MANIFEST.json from the table below (one entry per property that has a check)."""
import json
import os

VERIF = os.path.dirname(os.path.dirname(os.path.abspath(__file__)))

CHECKS = {
    "C03": dict(
        text="TLC model-checks FmtGrammar.tla (std::fmt grammar vs a transcription of derive_more's parser) on every "
             "string up to a length bound over a class alphabet and on every grammar derivation; every state is replayed "
             "into the real parser / real expansions and compared with the Std* expectation; neighbours and random "
             "literals are recorded from the real parser and validated by TLC (trace validation). Bounded-exhaustive.",
        note="Std* layer trusted only as far as it was validated against rustc's format_args! on every enumerated "
             "literal (spec/validated/*.json, redone when the spec or the case set changes); characters are class "
             "representatives; TLC, the in-process harness (#[path]-included working-tree sources) and rustc are trusted.",
        technique="TLA+ spec (FmtGrammar) + TLC exhaustive enumeration, spec->impl replay and impl->spec trace validation; the implicit counter also as an unbounded machine (FmtCounter: Apalache inductive invariant, TLAPS proof, tied to FmtGrammar by TLC)",
        design="4 (C03)"),
    "C16": dict(
        text="TLC model-checks ExprSplit.tla (transcription of the hand-written argument scanner vs ground truth known by "
             "construction) on every list of up to 2 (quick) / 3 (thorough) of 40 expression forms; every list is replayed "
             "through the real Punctuated<parsing::Expr>, through syn's full Expr parser (validating the ground truth) and "
             "end to end through real expansions with a sentinel argument; random deeper lists are trace-validated by TLC.",
        note="syn 2 (feature full) is the reference for Rust's expression grammar; groups are opaque token trees; the "
             "recorded deviation KD2 (binary `|`) is filtered only when the real split equals the transcription's.",
        technique="TLA+ spec (ExprSplit) + TLC exhaustive enumeration, replay into the real scanner/expansions, trace validation",
        design="4 (C16)"),
    "C09": dict(
        text="TLC model-checks ErrorSource.tla (documented selection rules vs a transcription of error.rs that keeps its "
             "two index spaces - all fields / non-ignored fields - apart) on every struct/variant layout with up to 2 "
             "(quick) / 3 (thorough) fields; every supported layout is compiled with the real derive (stable, and nightly "
             "when a backtrace is detected) and the address returned by source() is compared with the fields' addresses; "
             "ambiguous layouts must fail to compile; every layout is also expanded in-process (no internal failure).",
        note="field types limited to a concrete error, a type parameter, Box<dyn Error>, std Backtrace; boxed sources "
             "together with a detected backtrace are outside the supported space (provide() cannot forward to them); "
             "rustc stable+nightly and TLC trusted.",
        technique="TLA+ spec (ErrorSource) + TLC exhaustive layouts, replay as real types (address comparison)",
        design="4 (C09)"),
    "C12": dict(
        text="TLC model-checks TryFromRepr.tla (Rust's discriminant rule vs the textual constant reconstruction of "
             "try_from.rs under Rust's operator precedence; repr detection and merging) on every enum of up to 3 (quick) / "
             "4 (thorough) variants x 8 discriminant expressions x 19 repr attribute sets; the valid enums (all small ones, a "
             "seeded share of the larger) are compiled with the real derive and try_from is run over the whole integer "
             "domain for 8/16-bit reprs (discriminants +-1 and extremes for wider ones) against the specification's "
             "table, which is itself checked against rustc's `as` cast / in-memory tag; generic enums exercise the header.",
        note="discriminant expressions limited to literals, unary minus, <<, |, + on small constants; rustc is the ground "
             "truth for discriminant values; TLC integers are 32-bit so wide reprs are modelled by small values.",
        technique="TLA+ spec (TryFromRepr) + TLC exhaustive enums, replay as real enums over full integer domains; the discriminant reconstruction also as an unbounded machine (DiscCounter: Apalache inductive invariant, TLAPS proof, tied to TryFromRepr by TLC)",
        design="4 (C12)"),
    "C05": dict(
        text="TLC model-checks FmtTransparent.tla (the property's iff - exactly one bare placeholder referring to its only "
             "argument or to a field - vs the transcription of transparent_call) on derived trait x shape x literal "
             "structure x argument form; every case is compiled with the real derive on an echo type that prints the "
             "trait and every formatter flag reaching it, and compared over a grid of outer specs with the same spec "
             "applied to the inner value (pass-through) or the flag-free text (inert); error cases must not compile.",
        note="literal structures are rendered to one concrete literal each (parser generality is C03's); the echo type stands "
             "for all field values; debug-hex flags are not observable on stable and are not compared.",
        technique="TLA+ spec (FmtTransparent) + TLC exhaustive decision table, replay as real types over an outer-spec grid",
        design="4 (C05)"),
    "C07": dict(
        text="TLC model-checks FmtShared.tla (the documented wrap/default/reject rule vs the transcription of "
             "shared_attr_info + generate_body + the `_variant` specifier check + Debug's rejection) on every enum of up to "
             "2 (quick) / 3 (thorough) variants x 14 enum-level forms x derived trait; each enum is compiled with the real "
             "derive and the text of every variant value compared with the text the specification prescribes; enums the "
             "rule rejects must fail to compile.",
        note="4 variant shapes x 4 own-attribute forms, integer field values; the literal forms are fixed representatives "
             "(parser generality is C03's).",
        technique="TLA+ spec (FmtShared) + TLC exhaustive enums, replay as real enums (text / compile verdict)",
        design="4 (C07)"),
    "C04": dict(
        text="TLC model-checks FmtBounds.tla (the property's rule - a bound per placeholder that refers to a field directly, "
             "by position, through a bare-identifier argument or alias; implicit delegation; nothing for skipped, unused or "
             "expression-only fields - vs the transcription of bounded_types/generate_bounds of display.rs and debug.rs) over "
             "attribute levels x parameter assignments x reference kinds; each case's real where-clause (in-process expansion) "
             "is compared as a set of obligations, and each case is compiled with the real derive: generic impl without user "
             "bounds (sufficiency) and `S<..NoFmt..>: Trait` for unformatted parameters (non-excess). TypeShapes.tla decides the "
             "same for 16 syntactic wrappers of a type parameter, and ExplicitBounds.tla the `bound(...)` clause: every predicate "
             "written on the item or on a variant (with / without generic fields, with / without a literal) is part of the impl.",
        note="field types T, &'static T, W<T>, i32; <= 2 fields; <= 1 (quick) / 2 (thorough) placeholders; one recorded "
             "finding (static-ref shadow).",
        technique="TLA+ specs (FmtBounds, TypeShapes, ExplicitBounds) + TLC exhaustive cases, replay: where-clause sets in-process + rustc trait resolution",
        design="4 (C04)"),
    "C02": dict(
        text="TLC model-checks FmtText.tla (documented bindings - field itself when named in the literal, a reference inside "
             "argument expressions - vs the transcription of `let name = &self.member`, verbatim hand-over, "
             "additional_deref_args and the transparent path) on every literal of up to 2 (quick) / 3 (thorough) pieces x "
             "argument lists; each case is compiled with the real derive and its output compared in the same process with "
             "`format!` on the same literal/arguments (the property's own reference) and piece-wise with DocText; implicit "
             "bodies (single field under 8 traits, unit names, rename_all table) are replayed too.",
        note="all fields are `&'static i32` (implement all nine traits); shapes and derived traits rotate by hash; "
             "rename_all expectations are a fixed table for 3 unambiguous names (convert_case's treatment of other names is "
             "outside the property).",
        technique="TLA+ spec (FmtText) + TLC exhaustive literals/argument lists, replay against format! in-process",
        design="4 (C02)"),
    "C06": dict(
        text="TLC model-checks DebugBuilder.tla: core's DebugTuple/DebugStruct/PadAdapter and derive_more's DebugTuple/Padded "
             "as builder state machines (Begin, Field*, Finish|FinishNonExhaustive) over value kinds (one-line, multi-chunk "
             "multi-line, nested tuple/struct) and formatter option classes; every reachable call sequence is replayed on "
             "the real builders (one implementation test per transition; the std side validates the model of core); each "
             "sequence is also materialised as twin types (std derive vs derive_more derive; skipped fields vs hand-written "
             "finish_non_exhaustive builders) as tuple/named structs and variants with real field values, raw identifiers, "
             "generics, empties and field-level attributes, compared byte for byte over a formatter-spec grid. The failure model "
             "(FailStop / SinkView: an erroring field, a writer that fails once at byte b) is replayed for every byte budget.",
        note="formatter options are abstracted to (#, other) in the model and instantiated by a 12/25-spec grid; one recorded "
             "finding (pretty tuple fields lose non-# options), filtered only where the text equals the transcription's.",
        technique="TLA+ spec (DebugBuilder state machines) + TLC, replay of every call sequence on real builders, twin-type probes",
        design="4 (C06)"),
    "C13": dict(
        text="TLC model-checks FromStr.tla (the documented rule vs the transcription of the lower-case grouping and guarded "
             "arms) on every enum of up to 2 (quick) / 3 (thorough) variants from a pool with case-colliding groups and a raw "
             "identifier x every string up to length 3 / 4 over the names' letters; every state is replayed on the real "
             "derived FromStr; random longer strings are recorded from the real code and validated by TLC (Trace_FromStr); "
             "newtypes over six FromStr types are compared with the field type's own parse on a fixed corpus.",
        note="ASCII names (Unicode case folding beyond the alphabet is excluded, DESIGN 2.4); the error is checked to name the enum.",
        technique="TLA+ spec (FromStr) + TLC exhaustive enums x strings, replay and trace validation on the real derive",
        design="4 (C13)"),
    "C10": dict(
        text="TLC enumerates Ops.tla's contract (24 operator derives x struct/enum shapes x forward; results as symbolic, "
             "non-commutative terms; internal laws: assign = in-place form, folds start from the field-wise empty "
             "sum/product, mismatch iff different variants); every case is compiled with the real derive on instrumented "
             "operand types that mix (operator, lhs, rhs) into the value, exercised through the operators themselves on every "
             "variant pair / operand / 0..n-item iterator, and compared with the contract's terms evaluated by the same mixing.",
        note="two operand types alternate over the fields (so per-type where-clauses are exercised), a third is the scalar; "
             "the specification is the documented contract only (no Impl layer: the derives are straight-line).",
        technique="TLA+ contract (Ops) + TLC enumeration, replay on instrumented operand types",
        design="4 (C10)"),
    "C11": dict(
        text="TLC enumerates Variants.tla's contract tables (is_x / unwrap_x* / try_unwrap_x* / TryFrom<Enum> per value variant "
             "and accessor) for every enum of up to 2 (quick) / 3 (thorough) variants over unit/tuple/named kinds, type-tuple "
             "sharing, ignored flags and a generic flag, and checks its laws (exactly one is_x, exactly one TryInto target per live "
             "value); every enum is compiled with the four real derives and the complete (value, accessor) table is "
             "observed: payloads by value, reference forms by address, writes through _mut, panics caught, error payload equal "
             "to the unchanged original.",
        note="the contract is Doc-only (no Impl layer); which of owned/ref/ref_mut forms exist is requested explicitly "
             "(`#[unwrap(owned, ref, ref_mut)]`), as the property does not fix the default; named variants only for "
             "IsVariant/TryInto; generic enums without TryInto (orphan rule).",
        technique="TLA+ contract (Variants) + TLC enumeration, replay of the full accessor table on real enums",
        design="4 (C11)"),
    "C14": dict(
        text="TLC model-checks Delegate.tla (documented selection rule vs State::new_impl's default_enabled-from-the-first-"
             "attributed-field + assert_single_enabled_field; AsRef's struct/field attribute rule) on every assignment of "
             "attribute marks to up to 2 (quick) / 3 (thorough) fields x struct-level attribute; every documented case becomes "
             "real structs for Deref+DerefMut, Index+IndexMut, IntoIterator (all fields of ONE type, so a neighbour would still "
             "compile) and AsRef+AsMut (instrumented field types whose own AsRef<Self> returns another object; alias and "
             "generic variants): addresses of returned references, writes through mutable forms, element-wise iteration; "
             "ambiguous selections must not compile.",
        note="attribute styles the documentation does not describe (positive marks mixed with ignores, struct-level "
             "attribute on multi-field structs) are enumerated and reported in the evidence but not asserted.",
        technique="TLA+ spec (Delegate) + TLC exhaustive attribute assignments, replay as real structs (address identity)",
        design="4 (C14)"),
    "C08": dict(
        text="TLC model-checks Conv.tla: the documented impl set of derive(From) vs the transcription of from.rs' "
             "has_explicit_from (computed over all variants), the component order of Into's tuple conversion and the "
             "Into-after-From identity; every case is compiled with the real derives on types whose fields share ONE tagged type "
             "(a permutation would still compile): conversions by value, reference forms by address and write-back, "
             "typed/forwarded conversions through instrumented From impls counting exactly one call per field, presence and "
             "absence of impls by trait-resolution probes, round trip, Constructor::new for every arity (also in a const).",
        note="field-level `#[into(types)]` forms and generic parameters are not enumerated; From<()> of several field-less "
             "variants is only probed when unambiguous.",
        technique="TLA+ spec (Conv) + TLC exhaustive attribute placements, replay as real types (values, addresses, impl probes)",
        design="4 (C08)"),
    "C18": dict(
        text="TLC checks Totality.tla (the expansion pipeline's allowed transitions and its termination under weak fairness) "
             "and enumerates the request space 50 derives x 16 item shapes (unions, empties, generics, raw names) x attribute "
             "position x 18/26 attribute body forms; every request is expanded in-process on the working-tree sources under "
             "catch_unwind with a deadline (harness crashes = stack exhaustion are attributed to the case); every string up "
             "to length 3/4 over an alphabet with 1-4-byte characters, random Unicode literals, huge numbers and deep nesting "
             "go through the literal parser and real expansions; all outcomes are classified and the recorded events are "
             "validated by TLC against the pipeline specification (Trace_Totality). Parser progress invariants are checked "
             "in MC_FmtStrings / MC_ExprSplit.",
        level="model_checking",
        note="bounded exploration: the request space is finite and enumerated, the literal/token spaces are sampled beyond "
             "the short-string bound; the panic classifier's table is part of the evidence (deliberate descriptive panics "
             "count as diagnostics).",
        technique="TLA+ pipeline spec (Totality) + TLC request enumeration, in-process replay, trace validation of outcomes",
        design="4 (C18)"),
    "C15": dict(
        text="The references every real expansion makes without going through `derive_more::` / `::` / its own bindings / the "
             "user's tokens are extracted in-process from the working tree (syn visitor over the generated code, macro bodies "
             "included) for 89 code paths of the 50 derives and handed to TLC as a generated constants module; Hygiene.tla "
             "decides for every reference x scope (ordinary, no prelude, each prelude name / macro / extern crate shadowed) "
             "whether it still resolves to the intended item. Every code path is also compiled twice with the real derive - in an "
             "ordinary module and in a hostile one (#![no_implicit_prelude], only ::derive_more imported, local items and "
             "macro_rules named like every prelude type/variant/trait/macro, local modules core/std/alloc) - and one call per "
             "generated method must give the same result in both.",
        note="code paths are the table lib/props/c15_cases.py; the hostile scope is one combined scope for rustc (single "
             "shadows are decided on the extracted references by TLC); rustc's name resolution is the ground truth.",
        technique="TLA+ spec (Hygiene) over references extracted from real expansions + hostile-scope twin probes",
        design="4 (C15)"),
    "C17": dict(
        text="TLC model-checks Attrs.tla: attribute processing as a fold (parse_attrs_with + merge_attrs) for 12 documented "
             "grammar families; Result(list) is REJECT or the multiset of canonical contributions (skip=ignore, bound=bounds, "
             "joined vs split type lists and reference kinds, trailing commas); laws: order-freeness, corruption => REJECT. Every "
             "attribute list of up to 2 (quick) / 3 (thorough) attributes per position is rendered onto a real item and expanded "
             "in-process on the working-tree sources: lists with equal Result must expand to the same multiset of impls, REJECT "
             "lists (unknown argument, duplicate, conflicting kinds, legacy syntax, meaningless value) must give a diagnostic; a "
             "seeded sample of REJECT lists is also compiled with the real derive and must fail.",
        note="one representative item per family; unknown *type* names are not generated as corruptions (they reach rustc as "
             "unresolved paths); `where(..)` is not a documented spelling and is not claimed.",
        technique="TLA+ spec (Attrs: merge as a fold, equivalence classes) + TLC enumeration, in-process replay of every class",
        design="4 (C17)"),
    "C19": dict(
        text="TLC checks Determinism.tla (compiler processes x hash seeds x expansion histories): with a fixed hasher and no "
             "shared state the output is a function of the input (invariant Function, action property Stable); the same model "
             "with a seeded hasher or shared state violates them (both checked, so the property is not vacuous). The real "
             "expanders (working-tree sources) run in 4 (quick) / 16 (thorough) fresh processes - each with its own RandomState "
             "seeds - over hashed-collection stress inputs (TryInto, FromStr, Mul-like where-clauses, Error bounds) and one input "
             "per code path of every derive, in different orders and repeatedly within a process; the recorded {pid, seq, input, "
             "digest} events are validated by TLC (Trace_Determinism binds the unlogged function input -> digest at first "
             "sight). At the rustc level the real proc-macro expands the stress inputs in separate compiler processes with the items "
             "at different source positions (uniform shifts and layouts putting a point inside each item on a power of ten), "
             "and with derive_more built with a single feature alone (fresh processes), compared item by item.",
        note="sampled inputs, not all inputs; nondeterminism that needs more than 16 processes to show a second ordering would "
             "be missed (a seeded std HashMap shows within 2).",
        technique="TLA+ spec (Determinism) + trace validation of expansion digests across processes and orders",
        design="4 (C19)"),
    "C20": dict(
        text="The cfg gating graph is extracted from the working tree (module guards and create_derive! features of "
             "impl/src/lib.rs, cfg attributes on the helpers of utils.rs, crate::utils/attr uses of every module, facade items of "
             "src/lib.rs and the derive_more::X names the expanders emit, optional crates vs the features activating them) into a "
             "generated constants module; Features.tla checks guard(A) => guard(B) for every edge over ALL feature sets and "
             "state-wise for every single feature and pair, plus derive exposure. Real builds from the working tree - every "
             "single feature x {no std, std}: cargo check of the proc-macro crate and `cargo test --tests` of the facade (the "
             "repository's own test programs for that configuration); thorough: all 276 pairs x {no std, std} cargo check - "
             "are recorded as events and validated by TLC (Trace_Features).",
        note="the scanner sees syntactic uses only; cfg expressions other than feature/any/all are skipped and listed in the "
             "evidence; warnings are not denied (the repository's CI does that on nightly with testing-helpers, which is not "
             "available offline).",
        technique="TLA+ spec (Features) over the extracted cfg gating graph + trace validation of real cargo builds",
        design="4 (C20)"),
    "C01": dict(
        text="TLC model-checks Generics.tla: the impl-header construction families of utils.rs against the property's structural "
             "clauses (own generic arguments on the type itself and nowhere else, added names in scope, lifetimes first and no "
             "defaults, fresh names disjoint) for every well-formed parameter list of up to 3 (quick) / 4 (thorough) parameters. "
             "Every derive x its base items x every such parameter list (+ where-clauses) is expanded in-process and the same four "
             "clauses are evaluated on the REAL impl headers (parsed with syn); every code path of the 50 derives - as written, "
             "with #[deprecated] fields/variants, uninhabited field types, raw identifiers, and compile-valid generic forms - is "
             "compiled with the real derive under #![deny(warnings)], a diagnostic counting only if the derive-less twin does "
             "not show it.",
        note="field types per derive come from fixed tables; `compiles` is rustc's verdict on these programs (the model cannot "
             "replace the compiler); the generic parameter lists are applied syntactically for the header checks and by hand-"
             "written compile-valid forms for rustc.",
        technique="TLA+ spec (Generics) + TLC parameter lists, header clauses on real expansions, rustc deny(warnings) probes",
        design="4 (C01)"),
}

NOT_YET = {}

ALL = [f"C{i:02d}" for i in range(1, 21)]


def main():
    checks = []
    for pid in ALL:
        if pid not in CHECKS:
            continue
        c = CHECKS[pid]
        checks.append({
            "property_id": pid,
            "quick_cmd": f"./check {pid} --tier quick",
            "thorough_cmd": f"./check {pid} --tier thorough",
            "evidence_file": f"/verif/evidence/{pid}.json",
            "replay_cmd_template": f"./check {pid} --replay {{path}}",
            "engine": "tla-mbt",
            "level_claimed": {"category": c.get("level", "model_checking"), "text": c["text"],
                              "design_ref": "DESIGN.md section " + c["design"]},
            "level_note": c["note"],
            "technique": c["technique"],
        })
    na = []
    for pid in ALL:
        if pid in CHECKS:
            continue
        na.append({"property_id": pid,
                   "reason": NOT_YET.get(pid, "check not built yet in this round (planned in DESIGN.md section 4); "
                                              "nothing is claimed for it until its check is registered")})
    m = {
        "version": 1,
        "setup_cmd": "./setup.sh",
        "hooks": {
            "guard": "derive_more_verif",
            "enable": "one source hook: impl/src/fmt/mod.rs fn verif_parse_fmt_attribute, compiled only with the cargo feature "
                      "derive_more_verif of derive_more-impl (off by default, not part of full). The in-process harness "
                      "(harness/inproc, which #[path]-includes /repo/impl/src) enables the feature of the same name in its own "
                      "Cargo.toml; probe crates use the real proc-macro by path dependency with the hook off",
            "baseline_off_cmd": "cd /repo && (cargo nextest run --workspace --no-fail-fast --offline || "
                                "cargo test --workspace --no-fail-fast --offline)",
            "source_commits": ["4a3b132698f9918d3f596ef776c123aff2dc2ad7"],
            "add_only": True,
        },
        "engines": [{
            "name": "tla-mbt", "path": "/verif/check",
            "serves_properties": [c["property_id"] for c in checks],
            "kind_free_text": "TLA+ specifications in /verif/spec checked by TLC; TLC-emitted cases replayed into the real "
                              "code (in-process harness on the working-tree sources, probe crates with the real "
                              "proc-macro) and traces recorded from the real code validated by TLC",
        }],
        "checks": checks,
        "not_applicable": na,
        "notes": "Genuine defects found so far are repaired by `fix:` commits in /repo and listed as `fixed:` lines in "
                 "/verif/known_findings.jsonl; see DESIGN.md section 6.",
    }
    with open(os.path.join(VERIF, "MANIFEST.json"), "w") as f:
        json.dump(m, f, indent=1)
    print(f"MANIFEST.json: {len(checks)} checks, {len(na)} not claimed")


if __name__ == "__main__":
    main()
