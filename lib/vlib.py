"""Shared orchestration for the derive_more TLA+ model-based checks.

TLC decides on the specification and emits the cases / validates the traces; this library only
runs tools, renders Rust text, moves ndjson around and filters known findings.
Exit codes (see DESIGN.md 2.4): 0 held, 1 VIOLATION, 2 tool error.
"""
import hashlib
import json
import os
import re
import shutil
import subprocess
import sys
import time

VERIF = os.path.dirname(os.path.dirname(os.path.abspath(__file__)))
REPO = os.environ.get("VERIF_REPO", "/repo")
SPEC = os.path.join(VERIF, "spec")
WORK = os.environ.get("VERIF_WORK_DIR", os.path.join(VERIF, "work"))
BUILD = os.environ.get("VERIF_BUILD_DIR", os.path.join(VERIF, "build"))
OUT = os.environ.get("VERIF_OUT_DIR", VERIF)   # evidence/ and replays/ live here
TLA_CP = "/opt/veriftools/tla/tla2tools.jar:/opt/veriftools/tla/CommunityModules-deps.jar"


class ToolError(Exception):
    pass


def log(*a):
    print(*a, file=sys.stderr, flush=True)


def sha(s):
    return hashlib.sha1(s.encode("utf-8")).hexdigest()[:16]


def cap_cases(keys, seed, cap, keep=None):
    """deterministic bounded selection: every key for which keep(key) holds, then the keys with the smallest
    seeded hashes until `cap` are selected (rustc cannot compile an unbounded number of probe modules)"""
    import hashlib
    keys = list(keys)
    if len(keys) <= cap:
        return set(keys)
    must = {k for k in keys if keep and keep(k)}
    rest = sorted((k for k in keys if k not in must), key=lambda k: hashlib.sha1(f"{seed}|{k}".encode()).digest())
    return must | set(rest[:max(0, cap - len(must))])


def seeded_pick(key, seed, modulo):
    """Deterministic sample selection by hash of case key and seed."""
    h = hashlib.sha1(f"{seed}:{key}".encode()).digest()
    return int.from_bytes(h[:4], "big") % modulo


# ------------------------------------------------------------------------------------------------
# TLC
# ------------------------------------------------------------------------------------------------

_TLA_STR = re.compile(r'"((?:[^"\\]|\\.)*)"')


def _unescape(s):
    out = []
    i = 0
    while i < len(s):
        c = s[i]
        if c == "\\" and i + 1 < len(s):
            n = s[i + 1]
            out.append({"n": "\n", "t": "\t", "r": "\r", "f": "\f"}.get(n, n))
            i += 2
        else:
            out.append(c)
            i += 1
    return "".join(out)


class TlcResult:
    def __init__(self):
        self.generated = 0
        self.distinct = 0
        self.ok = False
        self.violation = None  # text of the first invariant violation etc.
        self.cases = []  # parsed JSON payloads of CASE lines
        self.tagged = {}  # tag -> list of payloads
        self.coverage = {}  # action -> (distinct, total)
        self.raw_tail = ""
        self.wall = 0.0
        self.cmd = ""
        self.depth = 0
        self.post_ok = None


def run_tlc(module, cfg=None, workers=4, timeout=600, env=None, simulate=None, depth=None,
            seed=None, xmx="4g", xss=None, coverage=False, cwd=None, dfs=False, keep_tags=("CASE",),
            extra=None, metadir=None, keep=None):
    """Run TLC on spec/<module>.tla with spec/<cfg>.cfg; collect `<<"TAG", "json">>` lines.
    TLC's output is read as a stream; `keep(tag, payload) -> bool` (optional) decides which emitted records are
    retained for the replay (TLC has still checked every state; `res.emitted[tag]` counts all of them)."""
    cwd = cwd or SPEC
    cfg = cfg or module
    metadir = metadir or os.path.join(WORK, "tlc", f"{module}_{cfg}_{os.getpid()}")
    shutil.rmtree(metadir, ignore_errors=True)
    os.makedirs(metadir, exist_ok=True)
    jopts = ["-XX:+UseParallelGC", f"-Xmx{xmx}", "-Xss" + (xss or ("1g" if workers == 1 else "32m"))]
    if dfs:
        jopts.append("-Dtlc2.tool.queue.IStateQueue=StateDeque")
    cmd = ["java"] + jopts + ["-cp", TLA_CP, "tlc2.TLC", "-workers", str(workers), "-metadir", metadir,
                              "-cleanup", "-noGenerateSpecTE", "-config", cfg + ".cfg"]
    if coverage and not simulate:
        cmd += ["-coverage", "1"]
    if simulate:
        cmd += ["-simulate", f"num={simulate}"]
    if depth:
        cmd += ["-depth", str(depth)]
    if seed is not None:
        cmd += ["-seed", str(seed)]
    if extra:
        cmd += extra
    cmd += [module + ".tla"]
    e = dict(os.environ)
    e.pop("JAVA_TOOL_OPTIONS", None)
    if env:
        e.update(env)
    res = TlcResult()
    res.cmd = " ".join(cmd)
    t0 = time.time()
    import threading
    proc = subprocess.Popen(cmd, cwd=cwd, env=e, stdout=subprocess.PIPE, stderr=subprocess.STDOUT, text=True, errors="replace")
    timed_out = []

    def _kill():
        timed_out.append(True)
        proc.kill()
    timer = threading.Timer(timeout, _kill)
    timer.start()
    tail = []
    ok_line = False
    res.emitted = {}
    try:
        for line in proc.stdout:
            line = line.rstrip("\n")
            if line.startswith('<<"'):
                m = _TLA_STR.findall(line)
                if len(m) >= 2 and line.rstrip().endswith(">>"):
                    tag = m[0]
                    try:
                        payload = json.loads(_unescape(m[1]))
                    except Exception:
                        tail.append(line)
                        continue
                    res.emitted[tag] = res.emitted.get(tag, 0) + 1
                    if keep is None or keep(tag, payload):
                        res.tagged.setdefault(tag, []).append(payload)
                    continue
            tail.append(line)
            if len(tail) > 400:
                del tail[:200]
            if "Model checking completed. No error has been found." in line:
                ok_line = True
            m = re.search(r"(\d+) states generated, (\d+) distinct states found", line)
            if m:
                res.generated, res.distinct = int(m.group(1)), int(m.group(2))
            m = re.search(r"The depth of the complete state graph search is (\d+)", line)
            if m:
                res.depth = int(m.group(1))
            m = re.match(r"<(\w+) line \d+, col \d+ to line \d+, col \d+ of module (\w+)>: (\d+):(\d+)", line)
            if m:
                res.coverage[m.group(1)] = (int(m.group(3)), int(m.group(4)))
            if "Invariant" in line and "is violated" in line and res.violation is None:
                res.violation = line.strip()
            if "Error:" in line and res.violation is None and "Invariant" not in line:
                res.violation = line.strip()
        proc.wait()
    finally:
        timer.cancel()
    shutil.rmtree(metadir, ignore_errors=True)
    if timed_out:
        raise ToolError(f"TLC timeout after {timeout}s: {res.cmd}")
    res.wall = time.time() - t0

    class _P:
        returncode = proc.returncode
    p = _P()
    out = "Model checking completed. No error has been found." if ok_line else ""
    res.cases = res.tagged.get("CASE", [])
    res.raw_tail = "\n".join(tail[-60:])
    res.ok = "Model checking completed. No error has been found." in out or (
        simulate and res.violation is None and p.returncode == 0)
    if p.returncode != 0 and res.violation is None:
        res.violation = f"TLC exit {p.returncode}"
    res.returncode = p.returncode
    res.full = out if len(out) < 2_000_000 else out[-2_000_000:]
    return res


# ------------------------------------------------------------------------------------------------
# in-process harness
# ------------------------------------------------------------------------------------------------

INPROC_DIR = os.path.join(VERIF, "harness", "inproc")
_inproc_built = False


def run_apalache(module, args, expect_error=False, timeout=600):
    """apalache-mc check <args> spec/<module>.tla under a timeout. Returns dict(ok, outcome, wall_s, cmd).
    expect_error=True is the negative control: the run must REPORT a counterexample (a check that cannot fail proves nothing)."""
    out = os.path.join(WORK, "apalache", f"{module}_{os.getpid()}")
    os.makedirs(out, exist_ok=True)
    cmd = ["timeout", str(timeout), "apalache-mc", "check"] + list(args) + [f"--out-dir={out}", module + ".tla"]
    t0 = time.time()
    p = subprocess.run(cmd, cwd=SPEC, stdout=subprocess.PIPE, stderr=subprocess.STDOUT, text=True, errors="replace")
    txt = p.stdout
    outcome = "NoError" if "The outcome is: NoError" in txt else ("Error" if "The outcome is: Error" in txt else "tool_error")
    shutil.rmtree(out, ignore_errors=True)
    if outcome == "tool_error":
        raise ToolError("apalache-mc: " + " ".join(cmd) + "\n" + txt[-1500:])
    return {"tool": "apalache", "cmd": " ".join(cmd[2:]), "outcome": outcome, "wall_s": round(time.time() - t0, 1),
            "ok": (outcome == "Error") if expect_error else (outcome == "NoError"), "negative_control": expect_error}


def run_tlapm(module, timeout=600, threads=4):
    """tlapm on spec/<module>.tla (a *_proofs module); every obligation must be proved."""
    import re
    cache = os.path.join(WORK, "tlapm", f"{module}_{os.getpid()}")
    os.makedirs(cache, exist_ok=True)
    cmd = ["timeout", str(timeout), "tlapm", "--threads", str(threads), "--cache-dir", cache, "--cleanfp", module + ".tla"]
    t0 = time.time()
    p = subprocess.run(cmd, cwd=SPEC, stdout=subprocess.PIPE, stderr=subprocess.STDOUT, text=True, errors="replace")
    shutil.rmtree(cache, ignore_errors=True)
    m = re.search(r"All (\d+) obligations? proved", p.stdout)
    failed = re.search(r"(\d+)/(\d+) obligations? failed", p.stdout)
    if not m and not failed:
        raise ToolError("tlapm: " + " ".join(cmd) + "\n" + p.stdout[-1500:])
    return {"tool": "tlapm", "cmd": " ".join(cmd[2:]), "obligations": int(m.group(1)) if m else int(failed.group(2)),
            "failed": 0 if m else int(failed.group(1)), "ok": bool(m), "wall_s": round(time.time() - t0, 1)}


def cargo_env(extra=None):
    e = dict(os.environ)
    e["CARGO_NET_OFFLINE"] = "true"
    e["VERIF_REPO"] = REPO
    e.setdefault("CARGO_TERM_COLOR", "never")
    if extra:
        e.update(extra)
    return e


def build_inproc(timeout=900):
    """(Re)build the harness from the current working tree of REPO (cargo tracks the #[path] files)."""
    global _inproc_built
    if _inproc_built:
        return inproc_bin()
    lock_src = os.path.join(REPO, "Cargo.lock")
    lock_dst = os.path.join(INPROC_DIR, "Cargo.lock")
    if not os.path.exists(lock_dst):
        shutil.copy(lock_src, lock_dst)
    p = subprocess.run(["cargo", "build", "--offline", "-q"], cwd=INPROC_DIR,
                       env=cargo_env({"CARGO_TARGET_DIR": os.path.join(BUILD, "target-inproc")}),
                       stdout=subprocess.PIPE, stderr=subprocess.STDOUT, text=True, timeout=timeout)
    if p.returncode != 0:
        # The code under test may fail to compile after an edit: that is a tool error for the
        # in-process path (the repository's own build is broken), not a property verdict.
        raise ToolError("inproc harness build failed:\n" + p.stdout[-4000:])
    _inproc_built = True
    return inproc_bin()


def inproc_bin():
    return os.path.join(BUILD, "target-inproc", "debug", "dm_inproc")


def build_inproc_noassert(timeout=900):
    """the harness built with the `noassert` profile (debug assertions and overflow checks off, as in a release build)"""
    build_inproc()
    p = subprocess.run(["cargo", "build", "--offline", "-q", "--profile", "noassert"], cwd=INPROC_DIR,
                       env=cargo_env({"CARGO_TARGET_DIR": os.path.join(BUILD, "target-inproc")}),
                       stdout=subprocess.PIPE, stderr=subprocess.STDOUT, text=True, timeout=timeout)
    if p.returncode != 0:
        raise ToolError("inproc harness (profile noassert) build failed:\n" + p.stdout[-4000:])
    return os.path.join(BUILD, "target-inproc", "noassert", "dm_inproc")


def run_inproc(cmd, cases, deadline_ms=10000, timeout=3600, _confirm=True):
    """Feed cases (dicts with 'key') to the harness; returns dict key -> observation.
    A hard crash of the harness process (stack overflow) is attributed to the case that was being
    processed (`begin` line without a result) and the run continues after it."""
    binp = build_inproc()
    results = {}
    pending = list(cases)
    restarts = 0
    while pending:
        inp = "\n".join(json.dumps(c, ensure_ascii=False) for c in pending) + "\n"
        env = cargo_env({"VERIF_CASE_DEADLINE_MS": str(deadline_ms)})
        p = subprocess.run([binp, cmd], input=inp.encode("utf-8"), stdout=subprocess.PIPE,
                           stderr=subprocess.PIPE, env=env, timeout=timeout)
        begun = None
        done_keys = set()
        for line in p.stdout.decode("utf-8", "replace").splitlines():
            try:
                o = json.loads(line)
            except Exception:
                continue
            if "begin" in o and len(o) == 1:
                begun = o["begin"]
                continue
            k = o.get("key")
            results[_k(k)] = o
            done_keys.add(_k(k))
            begun = None
        if p.returncode == 0 and begun is None:
            break
        # crashed while processing `begun`
        restarts += 1
        if begun is not None:
            results[_k(begun)] = {"key": begun, "outcome": "crash", "signal": p.returncode,
                                  "stderr": p.stderr.decode("utf-8", "replace")[-500:]}
            done_keys.add(_k(begun))
        elif p.returncode != 0:
            raise ToolError(f"inproc harness exited {p.returncode}: {p.stderr.decode('utf-8','replace')[-2000:]}")
        pending = [c for c in pending if _k(c.get("key")) not in done_keys and _k(c.get("key")) not in results]
        if restarts > 200:
            raise ToolError("inproc harness crashed too often")
    if _confirm:
        # a deadline missed on a loaded machine is not non-termination: every timed-out case is run again, alone, in a
        # fresh process with a 12x deadline, and only a repeated timeout stands (at most 8 such confirmations)
        by_key = {_k(c.get("key")): c for c in cases}
        late = [k for k, o in results.items() if o.get("outcome") == "timeout"][:8]
        for k in late:
            again = run_inproc(cmd, [by_key[k]], deadline_ms=deadline_ms * 12, timeout=timeout, _confirm=False)
            if k in again:
                results[k] = again[k]
    return results


def _k(k):
    return k if isinstance(k, str) else json.dumps(k, sort_keys=True)


# ------------------------------------------------------------------------------------------------
# probe crates (real proc-macro, real rustc)
# ------------------------------------------------------------------------------------------------

PROBE_TARGET = os.path.join(BUILD, "target-probe")


def write_probe(name, main_rs, extra_files=None, features=("full",), nightly_features=None,
                default_features=True, deps_extra=""):
    d = os.path.join(WORK, "probes", name)
    os.makedirs(os.path.join(d, "src"), exist_ok=True)
    os.makedirs(os.path.join(d, ".cargo"), exist_ok=True)
    feats = ", ".join(f'"{f}"' for f in features)
    cargo = f"""[package]
name = "{name}"
version = "0.0.0"
edition = "2021"

[workspace]

[dependencies]
derive_more = {{ path = "{REPO}", features = [{feats}]{'' if default_features else ', default-features = false'} }}
{deps_extra}
[profile.dev]
debug = 0
opt-level = 0
incremental = false
"""
    _write_if_changed(os.path.join(d, "Cargo.toml"), cargo)
    _write_if_changed(os.path.join(d, ".cargo", "config.toml"), "[net]\noffline = true\n")
    shutil.copy(os.path.join(REPO, "Cargo.lock"), os.path.join(d, "Cargo.lock"))
    _write_if_changed(os.path.join(d, "src", "main.rs"), main_rs)
    for rel, text in (extra_files or {}).items():
        p = os.path.join(d, rel)
        os.makedirs(os.path.dirname(p), exist_ok=True)
        _write_if_changed(p, text)
    return d


def _write_if_changed(path, text):
    try:
        with open(path, encoding="utf-8") as f:
            if f.read() == text:
                return
    except FileNotFoundError:
        pass
    with open(path, "w", encoding="utf-8") as f:
        f.write(text)


class BuildResult:
    def __init__(self):
        self.ok = False
        self.diags = []  # dicts: level, message, file, line, code, rendered
        self.raw = ""
        self.wall = 0.0


def cargo_build(crate_dir, toolchain=None, timeout=1800, check_only=False, target_dir=None, jobs=None,
                rustflags=None, bin_name=None):
    cmd = ["cargo"]
    if toolchain:
        cmd.append("+" + toolchain)
    cmd += ["check" if check_only else "build", "--offline", "--message-format=json-diagnostic-short"]
    if jobs:
        cmd += ["-j", str(jobs)]
    env = cargo_env({"CARGO_TARGET_DIR": target_dir or (PROBE_TARGET + ("-" + toolchain if toolchain else ""))})
    if rustflags:
        env["RUSTFLAGS"] = rustflags
    t0 = time.time()
    try:
        p = subprocess.run(cmd, cwd=crate_dir, env=env, stdout=subprocess.PIPE, stderr=subprocess.PIPE,
                           timeout=timeout)
    except subprocess.TimeoutExpired:
        raise ToolError(f"cargo timeout in {crate_dir}")
    r = BuildResult()
    r.wall = time.time() - t0
    r.ok = p.returncode == 0
    r.raw = p.stderr.decode("utf-8", "replace")[-4000:]
    # a compiler that was killed (out of memory, signal) or crashed has not judged every case: its partial list of
    # diagnostics must never be read as "the remaining cases compile"
    for marker in ("(signal:", "SIGKILL", "SIGSEGV", "SIGABRT", "internal compiler error", "rustc interrupted", "memory allocation of"):
        if not r.ok and marker in r.raw:
            raise ToolError(f"rustc terminated abnormally in {crate_dir} ({marker}): {r.raw[-600:]}")
    for line in p.stdout.decode("utf-8", "replace").splitlines():
        if not line.startswith("{"):
            continue
        try:
            m = json.loads(line)
        except Exception:
            continue
        if m.get("reason") == "compiler-message":
            if "/work/probes/" not in m.get("package_id", "") and "probes" not in m.get("manifest_path", ""):
                continue      # a warning of a dependency (e.g. of derive_more-impl itself) is not a verdict on a case
            msg = m["message"]
            spans = msg.get("spans") or []
            prim = [s for s in spans if s.get("is_primary")] or spans
            # walk to the outermost expansion site inside our crate
            file, ln = None, None
            for s in prim:
                ss = s
                while ss.get("expansion") and ss["expansion"].get("span") and not _in_crate(ss, crate_dir):
                    ss = ss["expansion"]["span"]
                # prefer the macro call-site (derive attribute line) for macro-generated code
                top = s
                while top.get("expansion") and top["expansion"].get("span"):
                    top = top["expansion"]["span"]
                file, ln = top.get("file_name"), top.get("line_start")
                break
            r.diags.append({
                "level": msg.get("level"),
                "message": msg.get("message"),
                "code": (msg.get("code") or {}).get("code"),
                "file": file,
                "line": ln,
                "all_lines": sorted({x for s in spans for x in _span_lines(s)}),
                "rendered": (msg.get("rendered") or "")[:1500],
                "pkg": m.get("package_id", ""),
            })
        elif m.get("reason") == "compiler-artifact" and m.get("executable"):
            r.exe = m["executable"]
    return r


def _in_crate(span, crate_dir):
    f = span.get("file_name", "")
    return f.startswith("src/")


def _span_lines(s):
    out = []
    while s:
        if s.get("file_name", "").startswith("src/"):
            out.append(s.get("line_start"))
        s = (s.get("expansion") or {}).get("span")
    return out


def run_exe(exe, timeout=1800, stdin=None, env=None):
    e = dict(os.environ)
    if env:
        e.update(env)
    p = subprocess.run([exe], stdout=subprocess.PIPE, stderr=subprocess.PIPE, timeout=timeout,
                       input=stdin, env=e)
    return p.returncode, p.stdout.decode("utf-8", "replace"), p.stderr.decode("utf-8", "replace")


# ------------------------------------------------------------------------------------------------
# known findings, replays, evidence, verdict
# ------------------------------------------------------------------------------------------------

def load_findings(prop):
    path = os.path.join(VERIF, "known_findings.jsonl")
    out = []
    if os.path.exists(path):
        for l in open(path, encoding="utf-8"):
            l = l.strip()
            if not l or l.startswith("#"):
                continue
            if l.startswith("fixed:"):
                continue
            d = json.loads(l)
            if d.get("property") == prop and d.get("status") == "known":
                out.append(d)
    return out


def finding_matches(f, key, tags):
    if "key" in f and f["key"] == key:
        return True
    if "match" in f:
        return all((v in tags.get(k) if isinstance(tags.get(k), (list, tuple, set)) else tags.get(k) == v)
                   for k, v in f["match"].items())
    return False


class Check:
    """Collects deviations, writes replay files, evidence, and prints the verdict lines."""

    def __init__(self, prop, tier, seed):
        self.prop = prop
        self.tier = tier
        self.seed = seed
        self.t0 = time.time()
        self.findings = load_findings(prop)
        self.violations = []
        self.known_seen = {}
        self.drift = []
        self.cov = {"evaluations": 0, "distinct_nontrivial": 0, "states": 0, "transitions": 0,
                    "traces_validated_against_impl": 0, "samples": [], "exhaustive": False}
        self.assumptions = []
        self.notes = {}
        shutil.rmtree(os.path.join(OUT, "replays", prop), ignore_errors=True)   # replays of this run only

    def add_tlc(self, res, name=None):
        self.cov["states"] += res.distinct
        self.cov["transitions"] += res.generated
        self.notes.setdefault("tlc_runs", []).append({
            "name": name or "", "cmd": res.cmd, "distinct_states": res.distinct, "states_generated": res.generated,
            "depth": res.depth, "wall_s": round(res.wall, 1), "ok": bool(res.ok),
            "coverage": {k: list(v) for k, v in list(res.coverage.items())[:60]}})

    def sample(self, obj, limit=6):
        if len(self.cov["samples"]) < limit:
            self.cov["samples"].append(obj)

    def deviation(self, key, what, case=None, expected=None, observed=None, tags=None, commands=None):
        """A property-level disagreement. Known findings are filtered; everything else is a violation."""
        tags = tags or {}
        for f in self.findings:
            if finding_matches(f, key, tags):
                fid = f.get("id") or f.get("key") or json.dumps(f.get("match"), sort_keys=True)
                self.known_seen.setdefault(fid, {"finding": f, "count": 0, "example": key})
                self.known_seen[fid]["count"] += 1
                return False
        path = self.write_replay(key, what, case, expected, observed, commands) if len(self.violations) < 40 \
            else os.path.join(OUT, "replays", self.prop, "(not written: more than 40 violations)")
        self.violations.append({"key": key, "what": what, "replay": path})
        return True

    def write_replay(self, key, what, case, expected, observed, commands=None):
        d = os.path.join(OUT, "replays", self.prop)
        os.makedirs(d, exist_ok=True)
        path = os.path.join(d, sha(key) + ".json")
        with open(path, "w", encoding="utf-8") as f:
            json.dump({"property": self.prop, "key": key, "what": what, "case": case, "expected": expected,
                       "observed": observed, "commands": commands or [f"./check {self.prop} --replay {path}"]},
                      f, indent=1, ensure_ascii=False, default=str)
        return path

    def model_drift(self, key, what):
        self.drift.append({"key": key, "what": what})
        if len(self.drift) <= 10:
            log(f"MODEL-DRIFT property={self.prop} {key}: {what}")

    def finish(self, level="model_checking"):
        wall = time.time() - self.t0
        cov = dict(self.cov)
        cov["known_findings_seen"] = [
            {"id": k, "count": v["count"], "example": v["example"]} for k, v in self.known_seen.items()]
        cov["model_drift"] = self.drift[:20]
        cov["model_drift_count"] = len(self.drift)
        cov.update(self.notes)
        if not cov["samples"]:
            cov["samples"] = [{"note": "no case was materialised in this run"}]
        ev = {"property_id": self.prop, "tier": self.tier, "seed": int(self.seed), "level": level,
              "coverage": cov, "assumptions": self.assumptions, "wall_s": round(wall, 2),
              "violations": len(self.violations)}
        os.makedirs(os.path.join(OUT, "evidence"), exist_ok=True)
        with open(os.path.join(OUT, "evidence", f"{self.prop}.json"), "w", encoding="utf-8") as f:
            json.dump(ev, f, indent=1, ensure_ascii=False, default=str)
        for k, v in self.known_seen.items():
            f = v["finding"]
            print(f"KNOWN-FINDING: property={self.prop} {f.get('what','')} [{v['count']} case(s), e.g. {v['example']}]")
        if self.violations:
            for v in self.violations[:25]:
                print(f"VIOLATION property={self.prop} replay={v['replay']}")
                log(f"  {v['key']}: {v['what']}")
            if len(self.violations) > 25:
                log(f"  ... and {len(self.violations) - 25} more violations")
            return 1
        log(f"OK property={self.prop} tier={self.tier} evaluations={cov['evaluations']} wall={wall:.1f}s")
        return 0


# ------------------------------------------------------------------------------------------------
# small rendering helpers
# ------------------------------------------------------------------------------------------------

def rust_str(s):
    """Rust string literal for text s."""
    out = ['"']
    for ch in s:
        if ch == '"':
            out.append('\\"')
        elif ch == "\\":
            out.append("\\\\")
        elif ch == "\n":
            out.append("\\n")
        elif ch == "\t":
            out.append("\\t")
        elif ch == "\r":
            out.append("\\r")
        elif ord(ch) < 0x20 or ord(ch) == 0x7f:
            out.append("\\u{%x}" % ord(ch))
        else:
            out.append(ch)
    out.append('"')
    return "".join(out)


def rust_lit(s, key=None):
    """The literal of a format ATTRIBUTE in one of the spellings Rust source allows for the same string value, chosen by the
    case key (a quarter each: two plain; the braces and the first name character as `\\u{..}` escapes - hex digits in both cases,
    `{` is `\\u{7b}`; a raw string `r#"..."#`). What a derive reads must be the literal's VALUE, never its source text."""
    pick = seeded_pick(key if key is not None else s, 41, 4)
    if pick == 2:
        out, first = ['"'], True
        for ch in s:
            if ch == "{":
                out.append("\\u{7b}")
            elif ch == "}":
                out.append("\\u{7D}")
            elif first and (ch.isalpha() or ch == "_") and ord(ch) < 0x80:
                out.append("\\u{%04x}" % ord(ch))
                first = False
            else:
                out.append(rust_str(ch)[1:-1])
        return "".join(out) + '"'
    if pick == 3 and '"#' not in s and all(ord(c) >= 0x20 and ord(c) != 0x7f for c in s):
        return 'r#"' + s + '"#'
    return rust_str(s)


def respell(body, key=None):
    """`"literal", args` -> the same with the (escape-free) leading literal in the spelling rust_lit picks for the key"""
    m = re.match(r'"([^"\\\\]*)"', body)
    return (rust_lit(m.group(1), key if key is not None else body) + body[m.end():]) if m else body


# ------------------------------------------------------------------------------------------------
# verdict crates: many small cases in one crate, compile diagnostics mapped back by line
# ------------------------------------------------------------------------------------------------

def verdict_crate(name, cases, prelude="", toolchain=None, features=("full",), check_only=True,
                  crate_attrs="#![allow(unused, dead_code, non_camel_case_types, non_snake_case)]",
                  timeout=1800, target_dir=None, jobs=None):
    """cases: list of (key, snippet). Each snippet becomes `mod c<i> { <snippet> }` on known lines.
    Returns dict key -> list of diagnostics (dict) whose spans touch the case's lines, and the BuildResult."""
    lines = [crate_attrs, prelude]
    header = "\n".join(lines).count("\n") + 1
    body = []
    ranges = []
    cur = header + 1
    for i, (key, snip) in enumerate(cases):
        text = f"pub mod c{i} {{\n{snip}\n}}"
        n = text.count("\n") + 1
        ranges.append((cur, cur + n - 1, key))
        body.append(text)
        cur += n
    main = "\n".join(lines) + "\n" + "\n".join(body) + "\nfn main() {}\n"
    d = write_probe(name, main, features=features)
    r = cargo_build(d, toolchain=toolchain, check_only=check_only, timeout=timeout, target_dir=target_dir, jobs=jobs)
    per = {key: [] for _, _, key in ranges}
    import bisect
    starts = [a for a, _, _ in ranges]
    unattributed = []
    for dg in r.diags:
        if dg["level"] not in ("error", "warning"):
            continue
        hit = False
        own_file = (dg.get("file") or "").startswith("src/")      # (a dependency's "src/.." paths are absolute or ../)
        for ln in dg["all_lines"] or ([dg["line"]] if (dg["line"] and own_file) else []):
            if ln is None:
                continue
            j = bisect.bisect_right(starts, ln) - 1
            if j >= 0 and ranges[j][0] <= ln <= ranges[j][1]:
                per[ranges[j][2]].append(dg)
                hit = True
                break
        if not hit:
            unattributed.append(dg)
    r.unattributed = unattributed
    if not r.ok and not any(d["level"] == "error" for d in r.diags):
        raise ToolError(f"probe crate {name} failed to build without a single error diagnostic: {r.raw[-800:]}")
    return per, r


def run_case_crate_sharded(name, cases, nshards=4, **kw):
    """run_case_crate over `nshards` probe crates built concurrently; returns merged (obs, failed, [BuildResult])."""
    import concurrent.futures as cf
    cases = list(cases)
    nshards = max(1, min(nshards, len(cases) // 50 or 1))
    shards = [cases[i::nshards] for i in range(nshards)]

    def one(i):
        return run_case_crate(f"{name}_{i}", shards[i], target_dir=os.path.join(BUILD, f"target-{name}-{i}"), **kw)
    with cf.ThreadPoolExecutor(max_workers=nshards) as ex:
        res = list(ex.map(one, range(nshards)))
    obs, failed = {}, {}
    for o, f, _ in res:
        obs.update(o)
        failed.update(f)
    return obs, failed, [r for _, _, r in res]


def verdict_crate_sharded(name, cases, nshards=4, **kw):
    """verdict_crate over `nshards` probe crates built concurrently (rustc's front end is single-threaded, so one big
    crate of thousands of failing derives is the slow part of a check). Returns the merged per-case dict and the
    list of BuildResults."""
    import concurrent.futures as cf
    cases = list(cases)
    nshards = max(1, min(nshards, len(cases) // 50 or 1))
    shards = [cases[i::nshards] for i in range(nshards)]

    def one(i):
        return verdict_crate(f"{name}_{i}", shards[i], target_dir=os.path.join(BUILD, f"target-{name}-{i}"), **kw)
    with cf.ThreadPoolExecutor(max_workers=nshards) as ex:
        res = list(ex.map(one, range(nshards)))
    per = {}
    for p, _ in res:
        per.update(p)
    return per, [r for _, r in res]


def run_case_crate(name, cases, prelude="", toolchain=None, features=("full",), crate_attrs="", max_rounds=6,
                   timeout=2400, target_dir=None, deps_extra="", default_features=True):
    """cases: list of (key, module_body). Each body must define `pub fn run()` printing one line
    `OBS <json>` (json must contain "k": <key>). Cases whose module fails to compile are recorded
    (`compile_error`, with the diagnostics) and removed, then the crate is rebuilt, so the remaining
    cases still run.  Returns (obs: key -> dict, failed: key -> [diag], BuildResult)."""
    attrs = "#![allow(unused, dead_code, non_camel_case_types, non_snake_case, unreachable_patterns, unused_parens)]\n" + crate_attrs
    live = list(cases)
    failed = {}
    last = None
    for rnd in range(max_rounds):
        lines = [attrs, prelude]
        header = "\n".join(lines).count("\n") + 1
        body, ranges = [], []
        cur = header + 1
        for i, (key, snip) in enumerate(live):
            text = f"pub mod c{i} {{\n{snip}\n}}"
            n = text.count("\n") + 1
            ranges.append((cur, cur + n - 1, key))
            body.append(text)
            cur += n
        calls = "\n".join(f"    c{i}::run();" for i in range(len(live)))
        main = "\n".join(lines) + "\n" + "\n".join(body) + f"\nfn main() {{\n{calls}\n}}\n"
        d = write_probe(name, main, features=features, deps_extra=deps_extra, default_features=default_features)
        r = cargo_build(d, toolchain=toolchain, timeout=timeout, target_dir=target_dir)
        last = r
        if r.ok:
            break
        import bisect
        starts = [a for a, _, _ in ranges]
        bad = {}
        unattributed = []
        for dg in r.diags:
            if dg["level"] != "error":
                continue
            hit = False
            own_file = (dg.get("file") or "").startswith("src/")
            for ln in dg["all_lines"] or ([dg["line"]] if (dg["line"] and own_file) else []):
                if ln is None:
                    continue
                j = bisect.bisect_right(starts, ln) - 1
                if j >= 0 and ranges[j][0] <= ln <= ranges[j][1]:
                    bad.setdefault(ranges[j][2], []).append({"message": dg["message"], "code": dg["code"]})
                    hit = True
                    break
            if not hit:
                unattributed.append(dg)
        if not bad:
            raise ToolError(f"probe crate {name} fails to build and no error can be attributed to a case: "
                            + json.dumps([u['message'] for u in unattributed][:5]) + r.raw[-1500:])
        failed.update(bad)
        live = [(k, s) for k, s in live if k not in bad]
    else:
        raise ToolError(f"probe crate {name} still fails after {max_rounds} rounds")
    obs = {}
    if live:
        rc, out, err = run_exe(last.exe, timeout=timeout)
        for line in out.splitlines():
            if line.startswith("OBS "):
                try:
                    o = json.loads(line[4:])
                    obs[_k(o.get("k"))] = o
                except Exception:
                    pass
        if rc != 0:
            # a crash of the probe (panic outside catch_unwind): attribute to the first case without output
            missing = [k for k, _ in live if _k(k) not in obs]
            if missing:
                obs[_k(missing[0])] = {"k": missing[0], "crashed": True, "stderr": err[-800:]}
    return obs, failed, last


# ------------------------------------------------------------------------------------------------
# hygiene twins: the same item generated by a macro_rules! macro that gets the user's names from its caller
# ------------------------------------------------------------------------------------------------
_TOK = re.compile(r"""r#[A-Za-z_]\w*|[A-Za-z_]\w*|'[A-Za-z_]\w*(?!')|"(?:[^"\\]|\\.)*"|'(?:[^'\\]|\\.)+'|\d[\w.]*|::|->|=>|[^\s\w]""")


def hygiene_twin(mod_text, tag="h"):
    """The first derive_more-derived struct / enum of a probe module, GENERATED BY A macro_rules! MACRO: the derive (and the item's
    attributes) are written in the macro's body, the names of its variants and named fields are `$h0:ident ..` fragments that
    the macro's caller passes in. The names then carry another hygiene context than the derive's call site, which is how a real
    crate's declarative macros produce their types; an expansion that rebuilds `self`, a parameter or a binding with a
    variant's / field's span no longer compiles. Items whose attributes hold a string literal are left alone (a format
    string's implicit captures resolve in the literal's own context - there `format!` itself cannot see the caller's names).
    Returns the transformed module text, or None when there is nothing to transform."""
    m = re.search(r"#\[derive\([^\]]*derive_more::", mod_text)
    if not m:
        return None
    start = m.start()
    # attributes written BEFORE the derive_more derive belong to the item too
    while True:
        pre = mod_text[:start].rstrip()
        if not pre.endswith("]"):
            break
        d, k = 0, len(pre) - 1
        while k >= 0:
            if pre[k] == "]":
                d += 1
            elif pre[k] == "[":
                d -= 1
                if d == 0:
                    break
            k -= 1
        if k < 1 or pre[k - 1] != "#":
            break
        start = k - 1
    toks = [(t.group(0), t.start() + start, t.end() + start) for t in _TOK.finditer(mod_text[start:])]
    # walk: attributes, visibility, struct|enum, name, ... body
    i, depth, kind, body_open, end = 0, 0, None, None, None
    n = len(toks)
    while i < n:
        t = toks[i][0]
        if depth == 0 and kind is None and t in ("struct", "enum"):
            kind = t
        elif depth == 0 and kind is None and t == "union":
            return None
        if t in "([{":
            if depth == 0 and kind and body_open is None and t in "{(" and not _in_attr(toks, i):
                body_open = i
            depth += 1
        elif t in ")]}":
            depth -= 1
            if depth == 0 and body_open is not None and toks[body_open][0] == "{" and t == "}":
                end = toks[i][2]
                break
        elif t == ";" and depth == 0 and kind:
            end = toks[i][2]
            break
        i += 1
    if kind is None or end is None:
        return None
    item = mod_text[start:end]
    toks = [x for x in toks if x[2] <= end]
    if any(x[0].startswith('"') for x in toks):
        return None
    # positions of variant names and named-field names
    repl = []       # (token index)
    depth = 0
    stack = []      # what each open group is: "enum", "fields", "other"
    seen_kind = False
    prev_sig = None
    j = 0
    while j < len(toks):
        t = toks[j][0]
        if t == "#" and j + 1 < len(toks) and toks[j + 1][0] == "[":
            # skip the attribute group
            d, j2 = 0, j + 1
            while j2 < len(toks):
                if toks[j2][0] == "[":
                    d += 1
                elif toks[j2][0] == "]":
                    d -= 1
                    if d == 0:
                        break
                j2 += 1
            j = j2 + 1
            continue
        if t in ("struct", "enum") and not stack:
            seen_kind = True
        if t in "([{":
            if not stack and seen_kind and t == "{":
                stack.append("enum" if kind == "enum" else "fields")
            elif stack and stack[-1] == "enum" and t == "{":
                stack.append("fields")
            else:
                stack.append("other")
            prev_sig = t
            j += 1
            continue
        if t in ")]}":
            if stack:
                stack.pop()
            prev_sig = t
            j += 1
            continue
        if stack and re.match(r"(r#)?[A-Za-z_]\w*$", t) and t not in ("pub", "crate", "in", "super", "self"):
            nxt = toks[j + 1][0] if j + 1 < len(toks) else ""
            if stack[-1] == "enum" and prev_sig in ("{", ","):
                repl.append(j)
            elif stack[-1] == "fields" and nxt == ":" and prev_sig in ("{", ",", "pub", ")"):
                repl.append(j)
        if t != "pub" or True:
            prev_sig = t
        j += 1
    if not repl:
        return None
    out, last, names = [], start, []
    for k, j in enumerate(repl):
        out.append(mod_text[last:toks[j][1]])
        out.append(f"$h{k}")
        names.append(toks[j][0])
        last = toks[j][2]
    out.append(mod_text[last:end])
    params = " ".join(f"$h{k}:ident" for k in range(len(names)))
    macro = f"macro_rules! mk_{tag} {{ ({params}) => {{ {''.join(out)} }} }}\nmk_{tag}!({' '.join(names)});"
    return mod_text[:start] + macro + mod_text[end:]


def _in_attr(toks, i):
    """is token i inside a #[...] group? (scan back for an unclosed `#[`)"""
    d = 0
    for k in range(i - 1, -1, -1):
        if toks[k][0] == "]":
            d += 1
        elif toks[k][0] == "[":
            if d == 0:
                return k > 0 and toks[k - 1][0] == "#"
            d -= 1
    return False
