"""C06 - derive_more::Debug without attributes is indistinguishable from std Debug.

M : TLC checks DebugBuilder.tla: core's DebugTuple/DebugStruct/PadAdapter vs derive_more's DebugTuple/Padded as
    builder state machines (Begin, Field*, Finish | FinishNonExhaustive) under formatter options.
T : every call sequence TLC reaches is replayed on the REAL builders (derive_more::__private::debug_tuple and
    Formatter::debug_tuple) with real atoms - one implementation test per transition; the std side also
    validates the specification's model of core.
R : twin types (std derive / derive_more derive, identical definitions) for every TLC case as tuple struct,
    named struct and enum variant, with real field values, skipped subsets against hand-written std builders
    ending in finish_non_exhaustive, raw identifiers, empty shapes, generics, nesting and field-level
    `#[debug("...")]`, compared byte for byte over a grid of formatter specs.
"""
import json
import os

import vlib
from vlib import log

SPECS_Q = ["", "#", "3", "#3", "x", "#x", "+", ".1", "<8", "#08.3", "X", "+#"]
SPECS_T = SPECS_Q + ["^7", "^#7", "*>9", "*>#9", "-", "-#", "08", "#08", ".3", "#.3", "#X", "+.2", "+#.2"]

ATOMS = r'''
use core::fmt::{self, Debug, Formatter};
pub struct A; pub struct M; pub struct X;
// an inherent `fmt` wins over Debug's under method-call syntax: an expansion (or builder) writing `value.fmt(f)` prints POISON
impl A { pub fn fmt(&self, f: &mut Formatter<'_>) -> fmt::Result { f.write_str("<POISON>") } }
impl M { pub fn fmt(&self, f: &mut Formatter<'_>) -> fmt::Result { f.write_str("<POISON>") } }
impl X { pub fn fmt(&self, f: &mut Formatter<'_>) -> fmt::Result { f.write_str("<POISON>") } }
impl Debug for A { fn fmt(&self, f: &mut Formatter<'_>) -> fmt::Result {
    let s = format!("a{}{}", if f.alternate() {"#"} else {""}, if f.width().is_some() {"w"} else {""}); f.write_str(&s) } }
impl Debug for M { fn fmt(&self, f: &mut Formatter<'_>) -> fmt::Result { f.write_str("m\n")?; f.write_str("n") } }
impl Debug for X { fn fmt(&self, f: &mut Formatter<'_>) -> fmt::Result { f.write_str("x:")?; f.write_str("p\nq") } }
pub mod st { use super::*; #[derive(Debug)] pub struct U; #[derive(Debug)] pub struct T(pub A); #[derive(Debug)] pub struct S { pub f: A } }
pub mod dm { use super::*; #[derive(derive_more::Debug)] pub struct U; #[derive(derive_more::Debug)] pub struct T(pub A);
             #[derive(derive_more::Debug)] pub struct S { pub f: A } }
pub struct Skipped;
pub fn q(s: &str) -> String { format!("{:?}", s) }
// a field that writes nothing, and one whose output ends with a newline
pub struct Z; impl Debug for Z { fn fmt(&self, _f: &mut Formatter<'_>) -> fmt::Result { Ok(()) } }
pub struct L; impl Debug for L { fn fmt(&self, f: &mut Formatter<'_>) -> fmt::Result { f.write_str("l\n") } }
// a field whose Debug writes "e" and then fails
pub struct E;
impl Debug for E { fn fmt(&self, f: &mut Formatter<'_>) -> fmt::Result { f.write_str("e")?; Err(fmt::Error) } }
// formatting into a String, the error (if any) shown as a marker (format! would panic on it)
#[macro_export] macro_rules! wr { ($l:literal, $v:expr) => {{ use core::fmt::Write as _; let mut s = String::new();
    let r = write!(s, $l, $v); if r.is_err() { s.push_str("<ERR>"); } s }} }
// a writer that fails ONCE, when more than `budget` bytes have arrived (it keeps what fits, and accepts later writes again)
pub struct Sink { pub buf: String, pub budget: usize, pub tripped: bool }
impl fmt::Write for Sink { fn write_str(&mut self, s: &str) -> fmt::Result {
    if !self.tripped && self.buf.len() + s.len() > self.budget {
        let mut n = self.budget - self.buf.len(); while !s.is_char_boundary(n) { n -= 1; }
        self.buf.push_str(&s[..n]); self.tripped = true; return Err(fmt::Error); }
    self.buf.push_str(s); Ok(()) } }
// what reaches such a writer, and the result, for every budget up to the full length
pub fn sinks<T: Debug>(v: &T, pretty: bool) -> String {
    use core::fmt::Write as _;
    let mut full = String::new();
    let _ = if pretty { write!(full, "{:#?}", v) } else { write!(full, "{:?}", v) };
    let mut out = String::new();
    for b in 0..=full.len() { let mut s = Sink { buf: String::new(), budget: b, tripped: false };
        let r = if pretty { write!(s, "{:#?}", v) } else { write!(s, "{:?}", v) };
        out.push_str(&format!("{}:{}:{};", b, r.is_ok(), s.buf)); }
    out }
'''

# ---------------------------------------------------------------------------------------------------
# part T: builder scripts
# ---------------------------------------------------------------------------------------------------

def builder_probe(cases):
    rows = []
    for i, c in enumerate(cases):
        codes = ", ".join(f"b'{v}'" for v in c["fs"])
        rows.append(f'    ({i}, {json.dumps(c["name"])}, &[{codes}], {str(c["ne"]).lower()}, {str(c["o"]["alt"]).lower()}, {str(c["o"]["w"]).lower()}),')
    return ATOMS + r'''
fn val(c: u8, dmv: bool) -> &'static dyn Debug {
    match (c, dmv) { (b'A', _) => &A, (b'M', _) => &M, (b'X', _) => &X, (b'E', _) => &E, (b'Z', _) => &Z, (b'L', _) => &L,
        (b'U', false) => &st::U, (b'U', true) => &dm::U, (b'T', false) => &st::T(A), (b'T', true) => &dm::T(A),
        (b'S', false) => &st::S { f: A }, (b'S', true) => &dm::S { f: A }, _ => unreachable!() } }
struct Script { name: &'static str, fs: &'static [u8], ne: bool, dmv: bool }
impl Debug for Script { fn fmt(&self, f: &mut Formatter<'_>) -> fmt::Result {
    if self.dmv { let mut b = derive_more::__private::debug_tuple(f, self.name);
        for c in self.fs { derive_more::__private::DebugTuple::field(&mut b, val(*c, true)); }
        if self.ne { b.finish_non_exhaustive() } else { b.finish() } }
    else { let mut b = f.debug_tuple(self.name); for c in self.fs { b.field(val(*c, false)); }
        if self.ne { b.finish_non_exhaustive() } else { b.finish() } } } }
fn show(s: &Script, alt: bool, w: bool) -> String { match (alt, w) { (false, false) => wr!("{:?}", s), (true, false) => wr!("{:#?}", s),
    (false, true) => wr!("{:3?}", s), (true, true) => wr!("{:#3?}", s) } }
fn main() {
    let cases: &[(usize, &'static str, &'static [u8], bool, bool, bool)] = &[
''' + "\n".join(rows) + r'''
    ];
    for (i, name, fs, ne, alt, w) in cases.iter().copied() {
        let s = show(&Script { name, fs, ne, dmv: false }, alt, w);
        let d = show(&Script { name, fs, ne, dmv: true }, alt, w);
        // the failing writer (options other than `#` cannot be set on a hand-made formatter: width-free cases only)
        let (ss, ds) = if w { (String::new(), String::new()) } else {
            (sinks(&Script { name, fs, ne, dmv: false }, alt), sinks(&Script { name, fs, ne, dmv: true }, alt)) };
        println!("OBS {{\"k\": {}, \"std\": {}, \"dm\": {}, \"std_sinks\": {}, \"dm_sinks\": {}}}", i, q(&s), q(&d), q(&ss), q(&ds));
    }
}
'''


# ---------------------------------------------------------------------------------------------------
# part R: twin types
# ---------------------------------------------------------------------------------------------------
KINDS = {  # field kind -> (type, value expr for std side, for dm side, echoes formatter options?)
    "A": ("A", "A", "A", True), "M": ("M", "M", "M", False), "X": ("X", "X", "X", False),
    "E": ("E", "E", "E", False), "Z": ("Z", "Z", "Z", False), "L": ("L", "L", "L", False), "U": ("{m}::U", "{m}::U", "{m}::U", False), "T": ("{m}::T", "{m}::T(A)", "{m}::T(A)", True),
    "S": ("{m}::S", "{m}::S {{ f: A }}", "{m}::S {{ f: A }}", True),
    "I": ("i32", "255", "255", True), "F": ("f64", "1.5", "1.5", True), "V": ("Vec<i32>", "vec![1, 20]", "vec![1, 20]", True),
    "Z": ("&'static str", '"a\\nb"', '"a\\nb"', True), "O": ("Option<{m}::T>", "Some({m}::T(A))", "Some({m}::T(A))", True),
}


def twin(idx, fields, skips, form, names=None, generic=False):
    """fields: list of kinds; skips: set of indices skipped; form in tuple|named|variant_t|variant_n.
    returns (std module text, dm module text, ctor for std, ctor for dm)"""
    tyname = (names or {}).get("type", "N")
    vname = (names or {}).get("variant", "V")
    fname = lambda i: (names or {}).get("field", "f") + str(i) if not (names or {}).get("rawfield") else ["r#type", "r#fn", "r#in", "r#as"][i]
    shown_tyname = tyname[2:] if tyname.startswith("r#") else tyname
    shown_vname = vname[2:] if vname.startswith("r#") else vname
    out = {}
    for m in ("st", "dm"):
        tys = [KINDS[k][0].format(m=m) for k in fields]
        vals = [KINDS[k][1 if m == "st" else 2].format(m=m) for k in fields]
        gen = "<G>" if generic else ""
        if generic:
            tys = [("G" if i == 0 else t) for i, t in enumerate(tys)]
        named = form in ("named", "variant_n")
        if named:
            pub = "" if form.startswith("variant") else "pub "
            body = "{ " + ", ".join((("#[debug(skip)] " if (i in skips and m == "dm") else "") + f"{pub}{fname(i)}: {t}") for i, t in enumerate(tys)) + " }"
            init = "{ " + ", ".join(f"{fname(i)}: {v}" for i, v in enumerate(vals)) + " }"
        else:
            pub = "" if form.startswith("variant") else "pub "
            body = "(" + ", ".join((("#[debug(skip)] " if (i in skips and m == "dm") else "") + pub + t) for i, t in enumerate(tys)) + ")"
            init = "(" + ", ".join(vals) + ")"
        is_enum = form.startswith("variant")
        derive = "#[derive(Debug)]" if m == "st" else "#[derive(derive_more::Debug)]"
        manual = m == "st" and skips
        if is_enum:
            decl = f"pub enum {tyname}{gen} {{ {vname}{body}, Other }}"
            ctor = f"{tyname}::{vname}{init}"
        else:
            decl = f"pub struct {tyname}{gen}{body}" + ("" if named else ";")
            ctor = f"{tyname}{init}"
        if manual:
            # std reference for skipped fields: hand-written builder ending in finish_non_exhaustive
            bound = "<G: Debug>" if generic else ""
            if named:
                chain = "".join(f'.field("{fname(i)[2:] if fname(i).startswith("r#") else fname(i)}", {fname(i)})' for i in range(len(fields)) if i not in skips)
                pat = "{ " + ", ".join(f"{fname(i)}" for i in range(len(fields))) + " }"
                start = f'f.debug_struct("{shown_vname if is_enum else shown_tyname}")'
            else:
                chain = "".join(f".field(b{i})" for i in range(len(fields)) if i not in skips)
                pat = "(" + ", ".join(f"b{i}" for i in range(len(fields))) + ")"
                start = f'f.debug_tuple("{shown_vname if is_enum else shown_tyname}")'
            path = f"{tyname}::{vname}" if is_enum else tyname
            other = f" {tyname}::Other => f.write_str(\"Other\")," if is_enum else ""
            imp = (f"impl{bound} Debug for {tyname}{gen} {{ fn fmt(&self, f: &mut Formatter<'_>) -> fmt::Result {{ "
                   f"match self {{ {path}{pat} => {start}{chain}.finish_non_exhaustive(),{other} }} }} }}")
            text = f"{decl}\n{imp}"
        else:
            text = f"{derive}\n{decl}"
        out[m] = (text, ctor)
    return out


def run(chk, tier, seed, replay):
    chk.assumptions += ["formatter options are abstracted to (#, some other option) in the specification; the real grid uses "
                        "width, fill/align, sign, precision and hex-debug",
                        "skipped fields are compared with hand-written std builders ending in finish_non_exhaustive"]
    r = vlib.run_tlc("MC_DebugBuilder", f"MC_DebugBuilder_{tier}", workers=8, timeout=1800, xmx="6g")
    chk.add_tlc(r, "builder call sequences")
    if not r.ok:
        raise vlib.ToolError(f"TLC: {r.violation}\n{r.raw_tail[-1500:]}")
    cases = r.cases
    chk.cov["exhaustive"] = not replay
    # ---------------- T: builder scripts on the real builders
    d = vlib.write_probe("c06_builders", builder_probe(cases), features=("debug",))
    br = vlib.cargo_build(d)
    if not br.ok:
        raise vlib.ToolError("builder probe does not build (derive_more's runtime builder API changed?): " + br.raw[-1500:])
    rc, out, err = vlib.run_exe(br.exe)
    obs = {}
    for line in out.splitlines():
        if line.startswith("OBS "):
            o = json.loads(line[4:])
            obs[o["k"]] = o
    for i, c in enumerate(cases):
        chk.cov["evaluations"] += 1
        o = obs.get(i)
        key = f"builder:{c['name']}({','.join(c['fs'])}){'..' if c['ne'] else ''}|alt={c['o']['alt']},w={c['o']['w']}"
        if o is None:
            chk.deviation(key, "builder probe crashed", case=c, expected=c["core"], observed=err[-400:], tags={"kind": "crash"})
            continue
        if o["std"] != c["core"]:
            raise vlib.ToolError(f"DebugBuilder.tla's model of core::fmt disagrees with std on {key}: {o['std']!r} vs {c['core']!r}")
        if o["dm"] != o["std"]:
            known = c["known"] and o["dm"] == c["dm"]
            chk.deviation(key, f"derive_more's DebugTuple writes {o['dm']!r}, core's writes {o['std']!r}", case=c,
                          expected=o["std"], observed=o["dm"],
                          tags={"kind": "builder", "class": "tuple_pretty_options" if known else "other"})
        elif c["dm"] != c["core"]:
            chk.model_drift(key, "the real builder agrees with core where the transcription does not")
        if not c["o"]["w"]:
            # FailStop (DebugBuilder.tla): through a writer failing at byte b, the text is the first b bytes and the result Err
            full = c["core"][:-5] if c["core"].endswith("<ERR>") else c["core"]
            ends_ok = not c["core"].endswith("<ERR>")
            want = "".join(f"{b}:{'true' if (b >= len(full) and ends_ok) else 'false'}:{full[:b]};" for b in range(len(full) + 1))
            chk.cov["evaluations"] += len(full) + 1
            if o["std_sinks"] != want:
                raise vlib.ToolError(f"DebugBuilder.tla's SinkView disagrees with std on {key}: {o['std_sinks'][:300]!r} vs {want[:300]!r}")
            if o["dm_sinks"] != o["std_sinks"]:
                first = next((x for x, y in zip(o["dm_sinks"].split(";"), o["std_sinks"].split(";")) if x != y), "")
                chk.deviation(key + "|sink", f"through a writer that fails once, derive_more's DebugTuple leaves {first!r} (budget:ok:text) where core's "
                              "leaves the prefix and an error", case=c, expected=o["std_sinks"][:600], observed=o["dm_sinks"][:600],
                              tags={"kind": "builder_failstop"})
    chk.cov["traces_validated_against_impl"] += len(cases)
    chk.sample({"builder_script": cases[len(cases) // 2], "real": obs.get(len(cases) // 2)})

    # ---------------- R: twin types
    specs = SPECS_Q if tier == "quick" else SPECS_T
    twins = []   # (key, fields, skips, form, names, generic)
    seen = set()
    for c in cases:
        if c["name"] == "" or not (c["o"]["alt"] is False and c["o"]["w"] is False):
            continue   # one twin per (fields, ne); the spec grid supplies the options
        fs = list(c["fs"])
        for form in ("tuple", "named", "variant_t", "variant_n"):
            if c["ne"]:
                # a skipped field in addition to the shown ones, at a position chosen by hash
                pos = vlib.seeded_pick(json.dumps(fs) + form, 3, len(fs) + 1)
                fields = fs[:pos] + ["I"] + fs[pos:]
                skips = {pos}
            else:
                fields, skips = fs, set()
            k = f"twin:{form}:{','.join(fields)}:skip{sorted(skips)}"
            if k not in seen:
                seen.add(k)
                twins.append((k, fields, skips, form, None, False))
    extra = [("I",), ("I", "F"), ("Z", "V"), ("O",), ("V", "I", "Z"), ("F", "O", "T"), ("I", "I", "I", "I")]
    for fs in extra:
        for form in ("tuple", "named", "variant_t", "variant_n"):
            twins.append((f"twin:{form}:{','.join(fs)}:skip[]", list(fs), set(), form, None, False))
            twins.append((f"twin:{form}:{','.join(fs)}:skip[0]", list(fs), {0}, form, None, False))
            if len(fs) > 1:
                twins.append((f"twin:{form}:{','.join(fs)}:skipall", list(fs), set(range(len(fs))), form, None, False))
    for form in ("tuple", "named", "variant_t", "variant_n"):
        twins.append((f"twin:{form}:raw", ["I", "Z"], set(), form, {"type": "r#fn", "variant": "r#in", "rawfield": True}, False))
        twins.append((f"twin:{form}:rawskip", ["I", "Z"], {1}, form, {"type": "r#fn", "variant": "r#in", "rawfield": True}, False))
        twins.append((f"twin:{form}:generic", ["I", "A"], set(), form, None, True))
        twins.append((f"twin:{form}:empty", [], set(), form, None, False))
    if replay:
        want = json.load(open(replay))["key"]
        twins = [t for t in twins if want.startswith(t[0])]
    mods = []
    meta = {}
    for (k, fields, skips, form, names, generic) in twins:
        tw = twin(0, fields, skips, form, names, generic)
        rows = []
        for sp in specs:
            rows.append('(%s, wr!("{:%s?}", %s), wr!("{:%s?}", %s)),' % (json.dumps(sp), sp, "s::" + tw["st"][1], sp, "d::" + tw["dm"][1]))
        for nm, pretty in (("sink", "false"), ("sink#", "true")):
            rows.append('(%s, sinks(&%s, %s), sinks(&%s, %s)),' % (json.dumps(nm), "s::" + tw["st"][1], pretty, "d::" + tw["dm"][1], pretty))
        unit_rows = ""
        mod = f"""use super::*;
pub mod s {{ use super::*; {tw['st'][0]} }}
pub mod d {{ use super::*; {tw['dm'][0]} }}
pub fn run() {{
    let rows: Vec<(&str, String, String)> = vec![{' '.join(rows)}];
    let bad: Vec<String> = rows.iter().filter(|(_, a, b)| a != b).map(|(sp, a, b)| format!("[{{}}, {{}}, {{}}]", q(sp), q(a), q(b))).collect();
    println!("OBS {{{{\\"k\\": {{}}, \\"n\\": {{}}, \\"bad\\": [{{}}]}}}}", q({json.dumps(k)}), rows.len(), bad.join(", "));
}}"""
        mods.append((k, mod))
        meta[k] = (fields, skips, form, tw)
    # field-level #[debug("...")]: the field's value is the formatted literal, whatever the outer formatter is configured
    # to (std reference: the same builder call with &format_args!(<the literal>, ..)). Value kinds whose Debug text
    # depends on the configuration x literal forms (bare `?`, positional, wrapped, own flags) x item forms.
    FL_VALUES = {"I": ("i32", "255"), "V": ("Vec<i32>", "vec![10, 255]"), "A": ("A", "A"), "X": ("X", "X"),
                 "S": ("dmn::S", "dmn::S { f: A }")}
    FL_LITS = [("bare", "{%s:?}", ""), ("pos", "{:?}", ", %s"), ("wrapped", "<{%s:?}>", ""), ("pretty", "{%s:#?}", ""),
               ("width", "{%s:6?}", ""), ("hex", "{%s:x?}", "")]
    for vk, (vty, vval) in FL_VALUES.items():
        for lk, lit, arg in FL_LITS:
            if lk == "hex" and vk not in ("I", "V"):
                continue
            for form in ("named", "tuple", "variant_n", "named_skip", "tuple_skip"):
                k = f"twin:fieldlit:{form}:{vk}:{lk}"
                if replay and not json.load(open(replay))["key"].startswith(k):
                    continue
                if form.endswith("_skip") and lk not in ("bare", "wrapped"):
                    continue
                fld = {"tuple": "_0", "tuple_skip": "_1"}.get(form, "a")
                l = lit % fld if "%s" in lit else lit
                a = arg % fld if arg else ""
                attr = f'#[debug({vlib.rust_lit(l)}{a})] '
                fa = f'&format_args!("{l}"{a})'
                if form == "named":
                    sdecl = (f"pub struct N {{ pub a: {vty}, pub b: i32 }}\nimpl Debug for N {{ fn fmt(&self, f: &mut Formatter<'_>) -> fmt::Result {{ "
                             f'let a = &self.a; f.debug_struct("N").field("a", {fa}).field("b", &self.b).finish() }} }}')
                    ddecl = f"#[derive(derive_more::Debug)] pub struct N {{ {attr}pub a: {vty}, pub b: i32 }}"
                    ctor = f"N {{ a: {vval}, b: 7 }}"
                elif form == "named_skip":
                    # a skipped field BEFORE the formatted one (and none after): still closed like finish_non_exhaustive
                    sdecl = (f"pub struct N {{ pub z: u8, pub a: {vty}, pub b: i32 }}\nimpl Debug for N {{ fn fmt(&self, f: &mut Formatter<'_>) -> fmt::Result {{ "
                             f'let a = &self.a; f.debug_struct("N").field("a", {fa}).field("b", &self.b).finish_non_exhaustive() }} }}')
                    ddecl = f"#[derive(derive_more::Debug)] pub struct N {{ #[debug(skip)] pub z: u8, {attr}pub a: {vty}, pub b: i32 }}"
                    ctor = f"N {{ z: 9, a: {vval}, b: 7 }}"
                elif form == "tuple_skip":
                    sdecl = (f"pub struct N(pub u8, pub {vty}, pub i32);\nimpl Debug for N {{ fn fmt(&self, f: &mut Formatter<'_>) -> fmt::Result {{ "
                             f'let _1 = &self.1; f.debug_tuple("N").field({fa}).field(&self.2).finish_non_exhaustive() }} }}')
                    ddecl = f"#[derive(derive_more::Debug)] pub struct N(#[debug(skip)] pub u8, {attr}pub {vty}, pub i32);"
                    ctor = f"N(9, {vval}, 7)"
                elif form == "tuple":
                    sdecl = (f"pub struct N(pub {vty}, pub i32);\nimpl Debug for N {{ fn fmt(&self, f: &mut Formatter<'_>) -> fmt::Result {{ "
                             f'let _0 = &self.0; f.debug_tuple("N").field({fa}).field(&self.1).finish() }} }}')
                    ddecl = f"#[derive(derive_more::Debug)] pub struct N({attr}pub {vty}, pub i32);"
                    ctor = f"N({vval}, 7)"
                else:
                    sdecl = (f"pub enum N {{ V {{ a: {vty}, b: i32 }}, Other }}\nimpl Debug for N {{ fn fmt(&self, f: &mut Formatter<'_>) -> fmt::Result {{ "
                             f'match self {{ N::V {{ a, b }} => f.debug_struct("V").field("a", {fa}).field("b", b).finish(), N::Other => f.write_str("Other") }} }} }}')
                    ddecl = f"#[derive(derive_more::Debug)] pub enum N {{ V {{ {attr}a: {vty}, b: i32 }}, Other }}"
                    ctor = f"N::V {{ a: {vval}, b: 7 }}"
                rows = []
                for sp in specs:
                    rows.append('(%s, format!("{:%s?}", s::%s), format!("{:%s?}", d::%s)),' % (json.dumps(sp), sp, ctor, sp, ctor))
                for nm, pretty in (("sink", "false"), ("sink#", "true")):
                    rows.append('(%s, sinks(&s::%s, %s), sinks(&d::%s, %s)),' % (json.dumps(nm), ctor, pretty, ctor, pretty))
                mod = f"""use super::*;
pub mod dmn {{ use super::*; #[derive(derive_more::Debug)] pub struct S {{ pub f: A }} }}
pub mod s {{ use super::*; {sdecl} }}
pub mod d {{ use super::*; {ddecl} }}
pub fn run() {{
    let rows: Vec<(&str, String, String)> = vec![{' '.join(rows)}];
    let bad: Vec<String> = rows.iter().filter(|(_, a, b)| a != b).map(|(sp, a, b)| format!("[{{}}, {{}}, {{}}]", q(sp), q(a), q(b))).collect();
    println!("OBS {{{{\\"k\\": {{}}, \\"n\\": {{}}, \\"bad\\": [{{}}]}}}}", q({json.dumps(k)}), rows.len(), bad.join(", "));
}}"""
                mods.append((k, mod))
                meta[k] = ([vk], set(), "fieldlit_" + form, None)
                if form == "named" and lk == "pos":
                    # the same with the formatted field spelled as a RAW identifier (`r#match`): std names it `match`
                    k2 = k + ":rawfield"
                    ren = lambda t: (t.replace("pub a:", "pub r#match:").replace("let a = &self.a;", "let r#match = &self.r#match;")
                                     .replace('.field("a",', '.field("match",').replace(", a)", ", r#match)").replace("N { a:", "N { r#match:"))
                    mods.append((k2, ren(mod).replace(json.dumps(k), json.dumps(k2))))
                    meta[k2] = ([vk], set(), "fieldlit_" + form, None)
    # unit struct / unit variant / raw unit
    unit = """use super::*;
pub mod s { use super::*; #[derive(Debug)] pub struct N; #[derive(Debug)] pub struct r#fn; #[derive(Debug)] pub enum E { Un, r#in } }
pub mod d { use super::*; #[derive(derive_more::Debug)] pub struct N; #[derive(derive_more::Debug)] pub struct r#fn;
            #[derive(derive_more::Debug)] pub enum E { Un, r#in } }
pub fn run() {
    let rows: Vec<(&str, String, String)> = vec![("N", format!("{:?}", s::N), format!("{:?}", d::N)), ("N#", format!("{:#?}", s::N), format!("{:#?}", d::N)),
        ("N5", format!("{:5?}|", s::N), format!("{:5?}|", d::N)),
        ("r#fn", format!("{:?}", s::r#fn), format!("{:?}", d::r#fn)), ("E::Un", format!("{:?}", s::E::Un), format!("{:?}", d::E::Un)),
        ("E::Un>6", format!("{:>6?}|", s::E::Un), format!("{:>6?}|", d::E::Un)),
        ("E::r#in", format!("{:?}", s::E::r#in), format!("{:?}", d::E::r#in))];
    let bad: Vec<String> = rows.iter().filter(|(_, a, b)| a != b).map(|(sp, a, b)| format!("[{}, {}, {}]", q(sp), q(a), q(b))).collect();
    println!("OBS {{\\"k\\": \\"twin:units\\", \\"n\\": {}, \\"bad\\": [{}]}}", rows.len(), bad.join(", "));
}"""
    if not replay or "twin:units" in json.load(open(replay))["key"]:
        mods.append(("twin:units", unit))
        meta["twin:units"] = ([], set(), "unit", None)
    # field-level #[debug("...")] against a std builder given &format_args!(..)
    fl = """use super::*;
pub mod s { use super::*; pub struct N { pub a: i32, pub b: i32 } pub struct T(pub i32, pub i32);
  impl Debug for N { fn fmt(&self, f: &mut Formatter<'_>) -> fmt::Result { f.debug_struct("N").field("a", &format_args!("<{:x}>", self.a)).field("b", &self.b).finish() } }
  impl Debug for T { fn fmt(&self, f: &mut Formatter<'_>) -> fmt::Result { f.debug_tuple("T").field(&format_args!("{}-{}", self.0, self.1)).field(&self.1).finish() } } }
pub mod d { use super::*; #[derive(derive_more::Debug)] pub struct N { #[debug("<{a:x}>")] pub a: i32, pub b: i32 }
  #[derive(derive_more::Debug)] pub struct T(#[debug("{_0}-{}", _1)] pub i32, pub i32); }
pub fn run() {
    let rows: Vec<(&str, String, String)> = vec![("N", format!("{:?}", s::N{a:255,b:7}), format!("{:?}", d::N{a:255,b:7})),
        ("N#", format!("{:#?}", s::N{a:255,b:7}), format!("{:#?}", d::N{a:255,b:7})),
        ("T", format!("{:?}", s::T(1,2)), format!("{:?}", d::T(1,2))), ("T#", format!("{:#?}", s::T(1,2)), format!("{:#?}", d::T(1,2)))];
    let bad: Vec<String> = rows.iter().filter(|(_, a, b)| a != b).map(|(sp, a, b)| format!("[{}, {}, {}]", q(sp), q(a), q(b))).collect();
    println!("OBS {{\\"k\\": \\"twin:field_level\\", \\"n\\": {}, \\"bad\\": [{}]}}", rows.len(), bad.join(", "));
}"""
    if not replay or "twin:field_level" in json.load(open(replay))["key"]:
        mods.append(("twin:field_level", fl))
        meta["twin:field_level"] = ([], set(), "field_level", None)
    # types that REFER TO THEMSELVES (through a const parameter, a lifetime, a type parameter, no parameter at all): std's derive
    # bounds type parameters only, so such a type is Debug; a derive that bounds a field type mentioning the type itself
    # (`Option<Box<Chunk<N>>>: Debug`) sends the trait solver in a circle (E0275)
    rec_types = [
        ("Chunk", "pub struct Chunk<const N: usize> { pub items: [u8; N], pub next: Option<Box<Chunk<N>>> }",
         "{m}::Chunk::<2> {{ items: [1, 2], next: Some(Box::new({m}::Chunk::<2> {{ items: [3, 4], next: None }})) }}"),
        ("Tree", "pub enum Tree<const B: usize> { Leaf(u8), Node(Vec<Tree<B>>) }",
         "{m}::Tree::<3>::Node(vec![{m}::Tree::Leaf(1), {m}::Tree::Node(vec![])])"),
        ("Link", "pub struct Link<'a> { pub v: u8, pub prev: Option<&'a Link<'a>> }",
         "{m}::Link {{ v: 2, prev: Some(&{m}::Link {{ v: 1, prev: None }}) }}"),
        ("Rose", "pub struct Rose { pub v: u8, pub kids: Vec<Rose> }",
         "{m}::Rose {{ v: 1, kids: vec![{m}::Rose {{ v: 2, kids: vec![] }}] }}"),
        # (the same through a TYPE parameter: see the known finding C06-recursive-type-param)
        ("Gen", "pub struct Gen<T> { pub v: T, pub next: Option<Box<Gen<T>>> }",
         "{m}::Gen {{ v: 1u8, next: Some(Box::new({m}::Gen {{ v: 2u8, next: None }})) }}")]
    for n, decl_, v in rec_types:
        k = f"twin:recursive:{n}"
        if replay and k not in json.load(open(replay))["key"]:
            continue
        rec_rows = ", ".join(f'("{n}{sp}", format!("{{:{sp}?}}", {v.format(m="s")}), format!("{{:{sp}?}}", {v.format(m="d")}))' for sp in ("", "#", "08", "x"))
        rec = ("use super::*;\npub mod s { use super::*; #[derive(Debug)] " + decl_ + " }\npub mod d { use super::*; #[derive(derive_more::Debug)] " + decl_ +
               " }\npub fn run() {\n    let rows: Vec<(&str, String, String)> = vec![" + rec_rows + "];\n"
               "    let bad: Vec<String> = rows.iter().filter(|(_, a, b)| a != b).map(|(sp, a, b)| format!(\"[{}, {}, {}]\", q(sp), q(a), q(b))).collect();\n"
               "    println!(\"OBS {{\\\"k\\\": {}, \\\"n\\\": {}, \\\"bad\\\": [{}]}}\", q(" + json.dumps(k) + "), rows.len(), bad.join(\", \"));\n}")
        mods.append((k, rec))
        meta[k] = ([], set(), "recursive_" + n, None)
    log(f"[C06] {len(cases)} builder scripts replayed, {len(mods)} twin types x {len(specs)} specs")
    # the derive named through each of the crate's three paths (a third of the twin types each): `derive_more::with_trait::Debug`
    # must be derive_more's macro too - where it is std's derive, `#[debug(..)]` attributes are unknown and generic bounds differ
    def _path(k, text):
        pick = vlib.seeded_pick(k, 61, 3)
        alt = {1: "derive_more::with_trait::Debug", 2: "derive_more::derive::Debug"}.get(pick)
        return text.replace("#[derive(derive_more::Debug)]", f"#[derive({alt})]") if alt else text
    mods = [(k, _path(k, m)) for k, m in mods]
    nsh = 4
    shards = [mods[i::nsh] for i in range(nsh)]
    import concurrent.futures as cf

    def buildc(i):
        if not shards[i]:
            return {}, {}, None
        return vlib.run_case_crate(f"c06_{i}", shards[i], prelude=ATOMS, features=("debug",),
                                   target_dir=os.path.join(vlib.BUILD, f"target-c06-{i}"))
    with cf.ThreadPoolExecutor(max_workers=nsh) as ex:
        results = list(ex.map(buildc, range(nsh)))
    nontriv = 0
    for i, (obs2, failed, br2) in enumerate(results):
        for k, _ in shards[i]:
            fields, skips, form, tw = meta[k]
            chk.cov["evaluations"] += len(specs)
            nontriv += 1 if fields else 0
            if k in failed:
                chk.deviation(k, "twin types do not compile: " + failed[k][0]["message"][:200],
                              case={"types": tw and [tw['st'][0], tw['dm'][0]]}, expected="compiles", observed=failed[k][:3],
                              tags={"kind": "compile_error", "class": ("recursive_type_param" if k == "twin:recursive:Gen" and
                                                                       "overflow evaluating" in failed[k][0]["message"] else "")})
                continue
            o = obs2.get(k)
            if o is None or o.get("crashed"):
                chk.deviation(k, "no observation", case={"key": k}, expected="runs", observed=o, tags={"kind": "crash"})
                continue
            for sp, a, b in o["bad"]:
                tuple_like = form in ("tuple", "variant_t", "fieldlit_tuple", "fieldlit_tuple_skip")
                other_opts = sp.replace("#", "") != ""
                shown = [f for j, f in enumerate(fields) if j not in skips]
                echoes = any(KINDS[f][3] for f in shown if f in KINDS) or form.startswith("fieldlit")   # (second field: i32)
                # the recorded deviation shows in every tuple-like derive_more type that is reached in pretty mode
                # with other options set: the type itself, or a nested derive_more tuple (kinds T, O)
                nested_dm_tuple = any(f in ("T", "O") for f in shown)
                known = "#" in sp and other_opts and ((tuple_like and echoes) or nested_dm_tuple)
                chk.deviation(f"{k}|{{:{sp}?}}", f"derive_more::Debug prints {b!r}, std Debug prints {a!r}",
                              case={"key": k, "spec": "{:%s?}" % sp, "types": tw and [tw['st'][0], tw['dm'][0]]},
                              expected=a, observed=b,
                              tags={"kind": "twin", "class": "tuple_pretty_options" if known else "other"})
        chk.cov["traces_validated_against_impl"] += len(shards[i])
    chk.cov["distinct_nontrivial"] += nontriv
    chk.cov["rule"] = ("builder call sequences (name or empty name, <= MaxFields fields of 6 value kinds, finish / "
                       "finish_non_exhaustive, 4 option classes) from TLC; twin types = each sequence as tuple struct, named "
                       "struct, tuple variant, named variant + real-valued fields, skipped subsets, raw identifiers, generics, "
                       "empties, field-level attributes; x formatter spec grid")
