"""C01 - every supported derive input is accepted and expands to code that compiles (warning-free).

M : TLC checks Generics.tla: the impl-header construction families of utils.rs (split_for_impl, bound on every type
    parameter, fresh type parameter inserted before consts, fresh lifetime, TryFrom's repr argument) against the
    property's structural clauses - own generic arguments on the type itself and nowhere else, added names in
    scope, lifetimes first and no defaults, fresh names disjoint - for every well-formed parameter list of
    <= MaxParams parameters (lifetimes with bounds, types and consts with bounds / defaults).
R : (a) in-process: every derive x its base items x every TLC parameter list (+ where-clauses): the REAL impl headers
        are parsed with syn and the same four clauses are evaluated on them; an error or panic for a supported input
        is a violation;
    (b) real derive + rustc under #![deny(warnings)]: every code path of the 50 derives, as written, with
        #[deprecated] fields / variants, with uninhabited field types, with raw identifiers, and compile-valid generic
        forms (lifetime + type + const parameters, inline bounds, defaults, where-clauses); a diagnostic counts only
        if the twin without the derive is clean.
"""
import json
import os
import re

import vlib
from vlib import log
from props.c15_cases import CASES
from props.c15 import split_items

INTS = "isize|usize|i8|i16|i32|i64|i128|u8|u16|u32|u64|u128"

GENERIC_ITEMS = [  # compile-valid generic declarations per derive family (derive list, declaration)
    ("Display", '#[derive(derive_more::Display)] #[display("{a} {b:?}")] pub struct G<\'a, T: Clone, U, const N: usize> where U: Copy { pub a: &\'a T, pub b: [U; N] }'),
    ("Display", '#[derive(derive_more::Display)] pub enum G<T, U = i32> { A(T), #[display("{_0}/{_1}")] B(U, T), C }'),
    ("Display", '#[derive(derive_more::Display)] #[display("<{_variant}>")] pub enum G<T, U> { A(T), #[display("{_0}!")] B(U), C }'),
    ("Display", '#[derive(derive_more::LowerHex)] #[lower_hex("{_variant}/{_0:x}")] pub enum G<T, U> { A(T), B(U) }'),
    ("Display", '#[derive(derive_more::Display)] #[display("dflt {_0}")] pub enum G<T, U> { A(T), #[display("{_0}!")] B(U) }'),
    ("Debug", "#[derive(derive_more::Debug)] pub struct G<'a, T: ?Sized, const N: usize> { pub a: &'a T, pub b: [u8; N], #[debug(skip)] pub c: () }"),
    ("Debug", "#[derive(derive_more::Debug)] pub enum G<'a, T, U> where T: Clone { A(&'a T), B { x: U }, C }"),
    ("Error", "#[derive(derive_more::Debug, derive_more::Display, derive_more::Error)] #[display(\"e\")] pub struct G<E, const N: usize> { pub source: E, pub pad: [u8; N] }"),
    ("Error", "#[derive(derive_more::Debug, derive_more::Display, derive_more::Error)] #[display(\"e\")] pub enum G<'a, E> { A { source: E }, B(#[error(not(source))] &'a str), C }"),
    ("Error", "#[derive(derive_more::Debug, derive_more::Display, derive_more::Error)] #[display(\"e\")] pub struct G<T: crate::Tr> { pub source: T::Assoc }"),
    ("Error", "#[derive(derive_more::Debug, derive_more::Display, derive_more::Error)] #[display(\"e\")] pub struct G<T: crate::Tr>(pub <T as crate::Tr>::Assoc);"),
    ("Error", "#[derive(derive_more::Debug, derive_more::Display, derive_more::Error)] #[display(\"e\")] pub enum G<T: crate::Tr, U> where U: crate::Tr { A(T::Assoc), B { source: Box<U::Assoc> }, C }"),
    ("Error", "#[derive(derive_more::Debug, derive_more::Display, derive_more::Error)] #[display(\"e\")] pub struct G<'a, T>(#[error(source)] pub &'a T, pub u8);".replace("&'a T", "Vec<T>").replace("<'a, T>", "<T>")),
    ("Display", '#[derive(derive_more::Display)] #[display("{a}")] pub struct G<T: crate::Tr> { pub a: T::Assoc }'),
    ("Debug", "#[derive(derive_more::Debug)] pub struct G<T: crate::Tr> { pub a: T::Assoc, pub b: <T as crate::Tr>::Assoc }"),
    ("From", "#[derive(derive_more::From)] pub struct G<'a, T, const N: usize>(pub &'a [T; N]);"),
    ("From", "#[derive(derive_more::From)] pub enum G<'a, T, U: Clone = u8> where T: 'a { A(&'a T), B(U, i8), #[from(skip)] C(&'a T) }"),
    ("From", "#[derive(derive_more::From)] #[from(forward)] pub struct G<T, const N: usize>(pub T, pub [u8; N]);"),
    ("Into", "#[derive(derive_more::Into)] #[into(owned, ref, ref_mut)] pub struct G<'a, T, const N: usize>(pub &'a T, pub [u8; N]);"),
    ("Into", "#[derive(derive_more::Into)] pub struct G<T: Clone, U> where U: Copy { pub a: Vec<T>, #[into(skip)] pub b: core::marker::PhantomData<U> }"),
    ("Constructor", "#[derive(derive_more::Constructor)] pub struct G<'a, T, const N: usize> where T: Clone { pub a: &'a T, pub b: [T; N] }"),
    ("FromStr", "#[derive(derive_more::FromStr)] pub struct G<T>(pub T);"),
    # the parameter mentioned through another syntactic form of the same type (parenthesised, behind a macro-free alias
    # path): the derives that bound every type parameter must still bound it
    ("FromStr", "#[derive(derive_more::FromStr)] pub struct G<T>(pub (T));"),
    ("FromStr", "#[derive(derive_more::FromStr)] pub struct G<T, U>(pub (T), pub core::marker::PhantomData<[U; 0]>);".replace(", pub core::marker::PhantomData<[U; 0]>", "").replace("<T, U>", "<T>")),
    ("Add", "#[derive(derive_more::Add, derive_more::Sub)] pub struct G<T>(pub (T), pub ((T)));"),
    ("AddAssign", "#[derive(derive_more::AddAssign)] pub struct G<T> { pub a: (T) }"),
    ("Not", "#[derive(derive_more::Not, derive_more::Neg)] pub struct G<T>(pub (T));"),
    ("Mul", "#[derive(derive_more::Mul)] #[mul(forward)] pub struct G<T>(pub (T));"),
    ("Sum", "#[derive(derive_more::Sum, derive_more::Add)] pub struct G<T>(pub (T));"),
    ("TryFrom", "#[derive(derive_more::TryFrom)] #[try_from(repr)] #[repr(u8)] pub enum G<'a, T: 'a, const N: usize> { A = 1, B, #[allow(dead_code)] C(core::marker::PhantomData<&'a [T; N]>) = 9 }"),
    ("TryInto", "#[derive(derive_more::TryInto)] #[try_into(owned, ref, ref_mut)] pub enum G<'a, const N: usize> { A(&'a str), B([u8; N], i8), C }"),
    ("TryInto", "#[derive(derive_more::TryInto)] #[try_into(owned, ref, ref_mut)] pub enum G<T: Clone, U> where U: Copy { A(Vec<T>), B(Option<U>, i8), C(u8), D }"),
    ("IsVariant", "#[derive(derive_more::IsVariant)] pub enum G<'a, T, const N: usize> where T: Clone { A(&'a T), B { x: [T; N] }, C }"),
    ("Unwrap", "#[derive(derive_more::Unwrap)] #[unwrap(owned, ref, ref_mut)] pub enum G<'a, T, const N: usize> { A(&'a T), B([T; N], u8), C }"),
    ("TryUnwrap", "#[derive(derive_more::TryUnwrap)] #[try_unwrap(owned, ref, ref_mut)] pub enum G<'a, T, const N: usize> { A(&'a T), B([T; N], u8), C }"),
    ("Deref", "#[derive(derive_more::Deref, derive_more::DerefMut)] pub struct G<'a, T, const N: usize> { #[deref] #[deref_mut] pub a: [T; N], pub b: &'a u8 }"),
    ("Deref", "#[derive(derive_more::Deref, derive_more::DerefMut)] #[deref(forward)] #[deref_mut(forward)] pub struct G<T>(pub Box<T>);"),
    ("Index", "#[derive(derive_more::Index, derive_more::IndexMut)] pub struct G<'a, T, const N: usize> { #[index] #[index_mut] pub a: Vec<T>, pub b: &'a [u8; N] }"),
    ("IntoIterator", "#[derive(derive_more::IntoIterator)] #[into_iterator(owned, ref, ref_mut)] pub struct G<T, const N: usize>(pub [T; N]);"),
    ("AsRef", "#[derive(derive_more::AsRef, derive_more::AsMut)] pub struct G<'a, T, const N: usize> { #[as_ref] #[as_mut] pub a: [T; N], pub b: &'a u8 }"),
    ("AsRef", "#[derive(derive_more::AsRef, derive_more::AsMut)] #[as_ref(forward)] #[as_mut(forward)] pub struct G<T>(pub T);"),
    ("AsRef", "#[derive(derive_more::AsRef, derive_more::AsMut)] #[as_ref([u8], T)] #[as_mut([u8], T)] pub struct G<T>(pub T);"),
    ("Add", "#[derive(derive_more::Add, derive_more::Sub, derive_more::BitAnd, derive_more::BitOr, derive_more::BitXor)] pub struct G<T, U = T> where U: Copy { pub a: T, pub b: U }"),
    ("Add", "#[derive(derive_more::Add, derive_more::Sub)] pub enum G<T, U = T> { A(T), B { x: U }, C }"),
    ("AddAssign", "#[derive(derive_more::AddAssign, derive_more::SubAssign, derive_more::BitAndAssign, derive_more::BitOrAssign, derive_more::BitXorAssign)] pub struct G<T, U>(pub T, pub U);"),
    ("Mul", "#[derive(derive_more::Mul, derive_more::Div, derive_more::Rem, derive_more::Shr, derive_more::Shl)] pub struct G<T, U, const N: usize>(pub T, pub U, pub core::marker::PhantomData<[u8; N]>);".replace(", pub core::marker::PhantomData<[u8; N]>", "").replace(", const N: usize", "")),
    ("Mul", "#[derive(derive_more::Mul, derive_more::Div)] #[mul(forward)] #[div(forward)] pub struct G<T>(pub T, pub T);"),
    ("MulAssign", "#[derive(derive_more::MulAssign, derive_more::DivAssign, derive_more::RemAssign, derive_more::ShrAssign, derive_more::ShlAssign)] pub struct G<T, U>(pub T, pub U);"),
    ("Not", "#[derive(derive_more::Not, derive_more::Neg)] pub struct G<T, U = T>(pub T, pub U);"),
    ("Not", "#[derive(derive_more::Not)] pub enum G<T> { A(T), B { x: T }, U }"),
    # field types in which an EXPRESSION (a constant's path as the array length) follows the type parameter
    ("AsRef", "#[derive(derive_more::AsRef, derive_more::AsMut)] pub struct G<T>(#[as_ref([T])] #[as_mut([T])] pub [T; LEN]);"),
    ("AsRef", "#[derive(derive_more::AsRef)] pub struct G<T> { #[as_ref([T], [T; LEN])] pub a: [T; LEN], pub b: u8 }"),
    ("AsRef", "#[derive(derive_more::AsRef, derive_more::AsMut)] pub struct G<T>(#[as_ref([u8])] #[as_mut([u8])] pub [T; LEN]);"),
    ("AsRef", "#[derive(derive_more::AsRef)] pub struct G<'a, T> { #[as_ref(str)] pub a: (&'a T, [u8; LEN]), pub b: u8 }"),
    ("Debug", "#[derive(derive_more::Debug)] pub struct G<T>(pub [T; LEN], pub [u8; LEN]);"),
    ("Display", "#[derive(derive_more::Display)] #[display(\"{}\", _0[0])] pub struct G<T>(pub [T; LEN]) where T: core::fmt::Display;"),
    ("Error", "#[derive(derive_more::Debug, derive_more::Display, derive_more::Error)] #[display(\"e\")] pub struct G<T>(#[error(source)] pub Box<T>, pub [u8; LEN]);"),
    # a type parameter declared AFTER a const parameter (rustc accepts any order of type and const parameters)
    ("Debug", "#[derive(derive_more::Debug)] pub struct G<const N: usize, T>(pub [u8; N], pub T);"),
    ("Debug", "#[derive(derive_more::Debug)] pub enum G<A, const N: usize, B> { X(A), Y { b: B, n: [u8; N] } }"),
    ("Display", "#[derive(derive_more::Display)] #[display(\"{_1}\")] pub struct G<const N: usize, T>(pub [u8; N], pub T);"),
    ("From", "#[derive(derive_more::From, derive_more::Into, derive_more::Constructor)] pub struct G<const N: usize, T>(pub [u8; N], pub T);"),
    ("Add", "#[derive(derive_more::Add, derive_more::Not)] pub struct G<const N: usize, T>(pub T, pub T);"),
    ("Error", "#[derive(derive_more::Debug, derive_more::Display, derive_more::Error)] #[display(\"e\")] pub struct G<const N: usize, T>(#[error(source)] pub T, pub [u8; N]);"),
    # parameters DECLARED with the operator's trait (no `Output = ..`): the impl still needs `T: Op<Output = T>` next to it
    ("Add", "#[derive(derive_more::Add, derive_more::Sub)] pub struct G<T: core::ops::Add + core::ops::Sub>(pub T, pub T);"),
    ("Add", "#[derive(derive_more::BitAnd, derive_more::BitOr)] pub struct G<T> where T: core::ops::BitAnd, T: core::ops::BitOr { pub a: T }"),
    ("Add", "#[derive(derive_more::Add)] pub enum G<T: core::ops::Add> { A(T), B { x: T }, C }"),
    ("Not", "#[derive(derive_more::Not, derive_more::Neg)] pub struct G<T: core::ops::Neg + core::ops::Not>(pub T, pub T);"),
    ("Mul", "#[derive(derive_more::Mul)] #[mul(forward)] pub struct G<T: core::ops::Mul>(pub T, pub T);"),
    ("Mul", "#[derive(derive_more::Mul, derive_more::Div)] pub struct G<T: core::ops::Mul<i32> + core::ops::Div<i32>>(pub T);"),
    ("MulAssign", "#[derive(derive_more::MulAssign)] pub struct G<T: core::ops::MulAssign<u8>>(pub T);"),
    ("AddAssign", "#[derive(derive_more::AddAssign)] pub struct G<T: core::ops::AddAssign>(pub T, pub T);"),
    ("Sum", "#[derive(derive_more::Sum, derive_more::Add)] pub struct G<T: core::ops::Add>(pub T, pub T);"),
    ("Sum", "#[derive(derive_more::Sum, derive_more::Add)] pub struct G<T>(pub T, pub T);"),
    ("Product", "#[derive(derive_more::Product, derive_more::Mul)] #[mul(forward)] pub struct G<T>(pub T, pub T);"),
]


def render_decl(decl):
    ps = []
    for p in decl:
        if p["k"] == "lt":
            ps.append(p["name"] + (": 'a" if p["bound"] and p["name"] != "'a" else ""))
        elif p["k"] == "ty":
            ps.append(p["name"] + (": Clone" if p["bound"] else "") + (" = i32" if p["default"] else ""))
        else:
            ps.append(f"const {p['name']}: usize" + (" = 3" if p["default"] else ""))
    return "<" + ", ".join(ps) + ">" if ps else ""


def genericize(item, decl, with_where):
    m0 = re.search(r"\b(struct|enum)\s+(r#)?(\w+)", item)
    # the type's name must not collide with the parameter names T / U / N
    item = re.sub(r"\b" + m0.group(3) + r"\b", "Zed", item)
    m = re.search(r"\b(struct|enum)\s+(r#)?(\w+)", item)
    name_end = m.end()
    g = render_decl(decl)
    tys = [p["name"] for p in decl if p["k"] == "ty"]
    # (every other where-clause ends in a comma, as rustfmt writes multi-line ones)
    where = (f" where {tys[0]}: Default" + ("," if (len(item) + len(decl)) % 2 == 0 else "")) if (with_where and tys) else ""
    head, tail = item[:name_end], item[name_end:]
    if not where:
        return head + g + tail, m.group(3)
    if m.group(1) == "enum" or tail.lstrip().startswith("{"):
        i = tail.index("{")
        return head + g + tail[:i] + where + " " + tail[i:], m.group(3)
    if tail.rstrip().endswith(";"):
        return head + g + tail.rstrip()[:-1] + where + ";", m.group(3)
    return head + g + tail, m.group(3)


def header_violations(o, name, decl, gitem=""):
    """the property's structural clauses, evaluated on the real impl headers"""
    out = []
    # Bounds: what the declaration demands of its parameters (inline bounds, its where-clause) is demanded by every
    # impl that names the type - otherwise `S<T>` is not even well-formed inside the impl
    m_where = re.search(r"\bwhere\s+(\w+)\s*:\s*Default\b", gitem)
    for im in o["impls"]:
        text = " ; ".join(im["params"]) + " ; " + " ; ".join(im["where"])
        if not re.search(r"(?<![\w:])" + re.escape(name) + r"\b", " ".join([im["trait"]["path"] if im["trait"] else "", im["self_ty"]] + im["where"])):
            continue
        for p in decl:
            if p["k"] == "ty" and p["bound"] and not re.search(r"\b" + p["name"] + r"\s*:[^;]*\bClone\b", text):
                out.append(("Bounds", f"the inline bound `{p['name']}: Clone` of the declaration is missing from the impl <{', '.join(im['params'])}> where {im['where']}"))
            if p["k"] == "lt" and p["bound"] and p["name"] != "'a" and not re.search(re.escape(p["name"]) + r"\s*:[^;]*'a\b", text):
                out.append(("Bounds", f"the lifetime bound `{p['name']}: 'a` of the declaration is missing from the impl <{', '.join(im['params'])}>"))
        if m_where and not re.search(r"\b" + m_where.group(1) + r"\s*:[^;]*\bDefault\b", text):
            out.append(("Bounds", f"the where-clause `{m_where.group(1)}: Default` of the declaration is missing from the impl: where {im['where']}"))
    args = [p["name"] for p in decl]
    want = (name + " < " + " , ".join(args) + " >") if args else None
    for im in o["impls"]:
        header = " ".join([im["trait"]["path"] if im["trait"] else "", im["self_ty"]] + im["where"])
        # SelfArgs: every mention of the type carries exactly its own arguments, in order
        for m in re.finditer(r"(?<![\w:])" + re.escape(name) + r"\b(?!\s*::)(\s*<\s*([^<>]*(?:<[^<>]*>[^<>]*)*)>)?", header):
            got = " ".join((m.group(2) or "").split())
            if args:
                if got != " , ".join(args):
                    out.append(("SelfArgs", f"`{name}` appears as `{m.group(0).strip()}` in `{header[:160]}`; its arguments are <{', '.join(args)}>"))
            elif m.group(1):
                out.append(("SelfArgs", f"`{name}` has no parameters but appears as `{m.group(0).strip()}`"))
        if re.search(r"\b(" + INTS + r")\s*<", header):
            out.append(("SelfArgs", f"generic arguments applied to a primitive type in `{header[:160]}`"))
        # Scope: every parameter-like name of the header is a parameter of the impl
        declared = set()
        for p in im["params"]:
            t = p.split(":")[0].strip()
            declared.add(t.replace("const ", "").strip())
        used = set(re.findall(r"'\w+", header)) | {x for x in re.findall(r"(?<!')\b(?:T|U|N|__\w+)\b", header)}
        for u in used:
            if u in ("'_", "'static"):
                continue
            if u not in declared and not re.search(r"for\s*<[^>]*" + re.escape(u), header):
                out.append(("Scope", f"`{u}` is used in `{header[:160]}` but is no parameter of the impl <{', '.join(im['params'])}>"))
        # Order: lifetimes first, no defaults
        kinds = im["param_kinds"]
        if any(k == "lifetime" and any(k2 != "lifetime" for k2 in kinds[:i]) for i, k in enumerate(kinds)):
            out.append(("Order", f"a lifetime follows a type/const parameter: <{', '.join(im['params'])}>"))
        if any(re.search(r"=(?!=)", p.split(":")[-1] if ":" in p else p) and "Output =" not in p and "Item =" not in p for p in im["params"]):
            out.append(("Order", f"a default survives into the impl generics: <{', '.join(im['params'])}>"))
        names = [p.split(":")[0].replace("const ", "").strip() for p in im["params"]]
        if len(set(names)) != len(names):
            out.append(("Fresh", f"duplicate parameter names: <{', '.join(im['params'])}>"))
        # Fresh: a parameter the expansion introduces for itself must be a name no declaration would use - the type may
        # declare ANY parameters and mention ANY of the caller's types in its fields, so an ordinary identifier (`Rhs`, `T0`,
        # `'a`) captures them; derive_more's own names all start with two underscores
        own = {q["name"] for q in decl}
        for nm in names:
            if nm not in own and not nm.lstrip("'").startswith("__"):
                out.append(("Fresh", f"the expansion introduces the generic parameter `{nm}`, an ordinary name a declaration (or a field type) "
                                     f"may use itself: <{', '.join(im['params'])}>"))
    return out


def run(chk, tier, seed, replay):
    chk.assumptions += ["base items: the code-path table of C15 (one item per derive and attribute mode); generic parameter lists from TLC "
                        "are applied syntactically for the in-process header checks; compile-valid generic forms are the table "
                        "GENERIC_ITEMS; field types per derive are those of the tables (fixed menu)",
                        "`compiles` is rustc's verdict under #![deny(warnings)], with a derive-less twin as control"]
    r = vlib.run_tlc("MC_Generics", f"MC_Generics_{tier}", workers=4, timeout=1800, xmx="4g")
    chk.add_tlc(r, "parameter lists x header families")
    if not r.ok:
        raise vlib.ToolError(f"TLC: {r.violation}\n{r.raw_tail[-1500:]}")
    decls = [c["decl"] for c in r.cases]
    chk.cov["exhaustive"] = not replay
    # ---------------------------------------------------------------- (a) in-process header clauses
    bases = []
    for key, decl_text, obs in CASES:
        for derives, item in split_items(decl_text):
            if re.search(r"\b(struct|enum)\s+\w+\s*<", item):
                continue
            for d in derives:
                bases.append((key, d, item))
    reqs, meta, pairs = [], {}, []
    for bi, (key, d, item) in enumerate(bases):
        for di, decl in enumerate(decls):
            if tier == "quick" and len(decl) == 3 and vlib.seeded_pick(f"{bi}:{di}", seed, 3) != 0:
                continue
            if tier == "thorough" and len(decl) == 4 and vlib.seeded_pick(f"{bi}:{di}", seed, 4) != 0:
                continue
            ww = vlib.seeded_pick(f"w{bi}:{di}", seed, 2) == 0
            gitem, name = genericize(item, decl, ww)
            k = f"{d}|{gitem}"
            if k in meta:
                continue
            reqs.append({"key": k, "derive": d, "item": gitem, "tokens": False})
            meta[k] = (d, name, decl, gitem)
            if ww and "where" in gitem:
                # the same declaration without its where-clause: what the derive ADDS must not depend on it (Additive)
                g0, _ = genericize(item, decl, False)
                k0 = f"{d}|{g0}"
                if k0 not in meta:
                    reqs.append({"key": k0, "derive": d, "item": g0, "tokens": False})
                    meta[k0] = (d, name, decl, g0)
                pairs.append((k, k0))
    if replay:
        want = json.load(open(replay))["key"]
        reqs = [x for x in reqs if x["key"] == want]
    obs = vlib.run_inproc("expand", reqs)
    nontriv = 0
    for rq in reqs:
        k = rq["key"]
        d, name, decl, gitem = meta[k]
        o = obs[k]
        chk.cov["evaluations"] += 1
        if decl:
            nontriv += 1
        if o["outcome"] != "ok":
            # a base item that is accepted without generics must be accepted with them
            chk.deviation(k, f"a supported input is not accepted once it declares generics: {o['outcome']}: {o.get('msg', '')[:160]}",
                          case={"derive": d, "item": gitem}, expected="expansion", observed=o, tags={"kind": "rejected", "derive": d})
            continue
        for clause, what in header_violations(o, name, decl, gitem)[:3]:
            chk.deviation(k + "|" + clause, f"impl header clause {clause}: {what}", case={"derive": d, "item": gitem},
                          expected=f"{clause} holds", observed=[im["text"][:300] for im in o["impls"]][:2],
                          tags={"kind": "header_" + clause, "derive": d})
        if len(chk.cov["samples"]) < 3 and len(decl) == 3 and d in ("Mul", "Into", "TryFrom"):
            chk.sample({"derive": d, "item": gitem, "impl_params": [im["params"] for im in o["impls"]][:2]})
    # Additive (Generics.tla): the predicates an impl carries for a declaration WITH a where-clause are those it carries
    # without it, plus the declaration's own - nothing the derive adds is lost or changed because a where-clause exists
    def preds(im):
        return sorted(re.sub(r"\s+", " ", w.strip().rstrip(",")) for w in im["where"])
    for k, k0 in pairs:
        o, o0 = obs.get(k), obs.get(k0)
        if not o or not o0 or o["outcome"] != "ok" or o0["outcome"] != "ok" or len(o["impls"]) != len(o0["impls"]):
            continue
        d, name, decl, gitem = meta[k]
        m_where = re.search(r"\bwhere\s+(\w+)\s*:\s*Default\b", gitem)
        chk.cov["evaluations"] += 1
        for im, im0 in zip(o["impls"], o0["impls"]):
            with_w = [w for w in preds(im) if not re.fullmatch(m_where.group(1) + r"\s*:\s*Default", w)]
            if with_w != preds(im0) and sorted(set(with_w)) != sorted(set(preds(im0))):
                chk.deviation(k + "|Additive", "the predicates the derive adds change when the declaration has a where-clause of its own: "
                              f"{with_w} (plus the declaration's) against {preds(im0)} without it", case={"derive": d, "item": gitem, "without": meta[k0][3]},
                              expected=preds(im0), observed=with_w, tags={"kind": "header_Additive", "derive": d})
                break
    chk.cov["traces_validated_against_impl"] += len(reqs)
    chk.cov["distinct_nontrivial"] += nontriv
    # GroupInvariant: an item whose field types arrive as invisible groups (`$t:ty` fragments of a macro_rules! macro)
    # gets the same impls - headers, where-clauses, bodies - as the item written out by hand
    if not replay:
        greqs = []
        for gi, (fam, decl_text) in enumerate(GENERIC_ITEMS):
            for derives, item in split_items(decl_text):
                for d in derives:
                    greqs.append({"key": f"g{gi}|{d}|plain", "derive": d, "item": item, "tokens": True})
                    greqs.append({"key": f"g{gi}|{d}|group", "derive": d, "item": item, "tokens": True, "group_types": True})
        for ci, (key, decl_text, _obs) in enumerate(CASES):
            for derives, item in split_items(decl_text):
                for d in derives:
                    greqs.append({"key": f"gc{ci}|{d}|plain", "derive": d, "item": item, "tokens": True})
                    greqs.append({"key": f"gc{ci}|{d}|group", "derive": d, "item": item, "tokens": True, "group_types": True})
        gobs = vlib.run_inproc("expand", greqs)
        for rq in greqs[::2]:
            a, b = gobs[rq["key"]], gobs[rq["key"].replace("|plain", "|group")]
            chk.cov["evaluations"] += 1
            # (as a multiset of impls: tables keyed by a field's type may iterate in another order)
            def impls_of(o):
                if o["outcome"] != "ok":
                    return o["outcome"] + ":" + str(o.get("msg"))[:120]
                return sorted(json.dumps([im["trait"], im["self_ty"], sorted(im["where"]), sorted(im["params"]),
                                          [[f["name"], f["sig"], f["body"]] for f in im["fns"]]], sort_keys=True) for im in o["impls"])
            ta, tb = impls_of(a), impls_of(b)
            if ta != tb:
                chk.deviation(rq["key"].replace("|plain", "|GroupInvariant"), "the expansion differs when the field types arrive as invisible groups "
                              f"(macro fragments): {str(tb)[:200]}", case={"derive": rq["derive"], "item": rq["item"]}, expected=str(ta)[:400],
                              observed=str(tb)[:400], tags={"kind": "header_GroupInvariant", "derive": rq["derive"]})
        chk.cov["traces_validated_against_impl"] += len(greqs)
        # RawInvariant: `r#a` and `a` are the same name. An item whose field and variant names are spelled as raw identifiers
        # expands to the same tokens as the plain item, up to that spelling (names shown as text are the plain ones)
        rreqs = []
        for ci, (key, decl_text, _obs) in enumerate(CASES):
            for derives, item in split_items(decl_text):
                for d in derives:
                    rreqs.append({"key": f"r{ci}|{d}|plain", "derive": d, "item": item, "tokens": True})
                    rreqs.append({"key": f"r{ci}|{d}|raw", "derive": d, "item": item, "tokens": True, "raw_names": True})
        for gi, (fam, decl_text) in enumerate(GENERIC_ITEMS):
            for derives, item in split_items(decl_text):
                for d in derives:
                    rreqs.append({"key": f"rg{gi}|{d}|plain", "derive": d, "item": item, "tokens": True})
                    rreqs.append({"key": f"rg{gi}|{d}|raw", "derive": d, "item": item, "tokens": True, "raw_names": True})
        robs = vlib.run_inproc("expand", rreqs)
        for rq in rreqs[::2]:
            a, b = robs[rq["key"]], robs[rq["key"].replace("|plain", "|raw")]
            chk.cov["evaluations"] += 1
            ta = a.get("tokens", "").replace("r#", "") if a["outcome"] == "ok" else a["outcome"]
            tb = b.get("tokens", "").replace("r#", "") if b["outcome"] == "ok" else b["outcome"] + ":" + str(b.get("msg"))[:160]
            if ta != tb:
                i = next((n for n, (x, y) in enumerate(zip(ta, tb)) if x != y), min(len(ta), len(tb)))
                chk.deviation(rq["key"].replace("|plain", "|RawInvariant"), "the expansion changes when field and variant names are spelled as raw "
                              f"identifiers: ...{ta[max(0, i - 60):i + 80]!r} vs ...{tb[max(0, i - 60):i + 80]!r}",
                              case={"derive": rq["derive"], "item": rq["item"]}, expected=ta[:400], observed=tb[:400],
                              tags={"kind": "header_RawInvariant", "derive": rq["derive"]})
        chk.cov["traces_validated_against_impl"] += len(rreqs)
    if replay and not reqs:
        pass
    # ---------------------------------------------------------------- (b) rustc, deny(warnings)
    mods = []

    def twin(key, decl_text):
        control = re.sub(r"#\[derive\(([^\]]*)\)\]", lambda m: "#[derive(" + ", ".join(x for x in [y.strip() for y in m.group(1).split(",")]
                                                                                    if not x.startswith("derive_more::")) + ")]", decl_text)
        control = re.sub(r"#\[derive\(\)\]\s*", "", control)
        return control
    variants = []
    for key, decl_text, obs_ in CASES:
        variants.append((key, decl_text))
        dep = decl_text
        dep = re.sub(r"(pub struct \w+\s*\()\s*(pub )", r"\1#[deprecated] \2", dep, count=1)
        dep = re.sub(r"(pub struct \w+\s*\{)\s*((?:#\[[^\]]*\]\s*)*pub )", r"\1 #[deprecated] \2", dep, count=1)
        dep = re.sub(r"(pub enum \w+\s*\{)\s*", r"\1 #[deprecated] ", dep, count=1)
        if dep != decl_text:
            variants.append((key + ":deprecated", dep))
        if re.search(r"pub (i32|u8)\b", decl_text) and not key.startswith(("Binary", "Octal", "LowerHex", "UpperHex", "LowerExp", "UpperExp",
                                                                             "Pointer", "FromStr", "TryFrom", "Mul", "Div", "Rem", "Shr", "Shl",
                                                                             "Add", "Sub", "Bit", "Not", "Neg", "Sum", "Product", "From:", "Into:", "Display:attr")):
            unin = re.sub(r"pub (i32|u8)\b", "pub core::convert::Infallible", decl_text, count=1)
            variants.append((key + ":uninhabited", unin))
    # the same declarations GENERATED BY A macro_rules! MACRO, their primitive type names passed in as `$t:tt` fragments: the
    # tokens of one item then come from two hygiene contexts (macro body / macro caller); identifiers the expansion
    # introduces for itself must all live in one of them
    for key, decl_text, obs_ in CASES:
        toks = []

        def sub(m):
            toks.append(m.group(0))
            return f"$t{len(toks) - 1}"
        body = re.sub(r"(?<![\w\"#{:])\b(i8|i16|i32|i64|u8|u16|u32|u64|bool|f32|f64)\b(?![\w\"}!(])", sub, decl_text)
        if toks and "$" not in decl_text and '"' not in "".join(re.findall(r"\$t\d+[^,;)}\]]*\"", body)):
            params = " ".join(f"$t{n}:tt" for n in range(len(toks)))
            variants.append((key + ":macro_tt", f"macro_rules! gen_item {{ ({params}) => {{ {body} }} }}\ngen_item!({' '.join(toks)});"))
    # ... and with the names of their VARIANTS and NAMED FIELDS passed in as `$h:ident` fragments by the macro's caller (the derive
    # and the attributes in the macro's body): `self`, parameters and bindings an expansion introduces must not take a
    # variant's / field's span (vlib.hygiene_twin; items whose attributes hold a format string are left alone)
    for key, decl_text, obs_ in CASES:
        if "$" in decl_text or "macro_rules" in decl_text:
            continue
        tw = vlib.hygiene_twin(decl_text)
        if tw:
            variants.append((key + ":macro_ident", tw))
    # named-field / variant forms with a #[deprecated] member for the derives whose expansions name the member
    NAMED = {"Add": "+", "Sub": "-", "BitAnd": "&", "BitOr": "|", "BitXor": "^"}
    for tr in list(NAMED) + ["AddAssign", "SubAssign", "Not", "Neg", "Sum", "Constructor", "Into", "From"]:
        extra = ", derive_more::Add" if tr == "Sum" else ""
        variants.append((f"named_deprecated:{tr}", f"#[derive(derive_more::{tr}{extra})] pub struct T {{ #[deprecated] pub a: i32, pub b: i32 }}"))
    for tr in ["Mul", "Div", "MulAssign", "RemAssign"]:
        variants.append((f"named_deprecated:{tr}", f"#[derive(derive_more::{tr})] pub struct T {{ #[deprecated] pub a: i32, pub b: i32 }}"))
    variants.append(("named_deprecated:Product", "#[derive(derive_more::Product, derive_more::Mul)] #[mul(forward)] pub struct T { #[deprecated] pub a: i32, pub b: i32 }"))
    for tr, attr in [("Deref", "deref"), ("DerefMut", "deref_mut"), ("Index", "index"), ("IndexMut", "index_mut"), ("IntoIterator", "into_iterator"),
                     ("AsRef", "as_ref"), ("AsMut", "as_mut")]:
        pre = {"DerefMut": "derive_more::Deref, ", "IndexMut": "derive_more::Index, "}.get(tr, "")
        a2 = {"DerefMut": "#[deref] ", "IndexMut": "#[index] "}.get(tr, "")
        variants.append((f"named_deprecated:{tr}", f"#[derive({pre}derive_more::{tr})] pub struct T {{ #[deprecated] {a2}#[{attr}] pub a: Vec<u8>, pub b: i32 }}"))
    variants.append(("named_deprecated:Error", "#[derive(derive_more::Debug, derive_more::Display, derive_more::Error)] #[display(\"e\")] pub struct T { #[deprecated] pub source: core::fmt::Error, pub b: i32 }"))
    variants.append(("named_deprecated:Error_enum", "#[derive(derive_more::Debug, derive_more::Display, derive_more::Error)] #[display(\"e\")] pub enum T { #[deprecated] A { source: core::fmt::Error }, B }"))
    for tr in ["IsVariant", "Unwrap", "TryUnwrap", "TryInto", "From", "Not", "Add", "Display", "Debug"]:
        variants.append((f"variant_deprecated:{tr}", f"#[derive(derive_more::{tr})] pub enum T {{ #[deprecated] A(i32), B(i8) }}"))
    variants.append(("variant_deprecated:FromStr", "#[derive(derive_more::FromStr)] pub enum T { #[deprecated] A, B }"))
    variants.append(("variant_deprecated:TryFrom", "#[derive(derive_more::TryFrom)] #[try_from(repr)] pub enum T { #[deprecated] A, B }"))
    for i, (d, decl_text) in enumerate(GENERIC_ITEMS):
        # (an array length written as a bare one-segment path: the constant is imported next to the item)
        variants.append((f"generic:{d}:{i}", ("use crate::LEN;\n" if "; LEN]" in decl_text else "") + decl_text))
    variants.append(("raw:Display", "#[derive(derive_more::Display, derive_more::Debug)] pub enum r#enum { r#fn, r#in(u8), r#type { r#struct: u8 } }"))
    variants.append(("raw:IsVariant", "#[derive(derive_more::IsVariant, derive_more::Unwrap, derive_more::TryUnwrap, derive_more::From)] pub enum r#enum { r#fn(u8), r#in(i8) }"))
    variants.append(("raw:FromStr", "#[derive(derive_more::FromStr)] pub enum r#enum { r#fn, r#in }"))
    variants.append(("raw:struct", "#[derive(derive_more::Constructor, derive_more::Into, derive_more::From, derive_more::Debug)] pub struct r#fn { pub r#type: u8, pub r#in: i8 }"))
    variants.append(("empty:enum", "#[derive(derive_more::Display, derive_more::Debug, derive_more::IsVariant, derive_more::From)] pub enum T {}"))
    if replay:
        variants = [v for v in variants if json.load(open(replay))["key"].startswith(v[0])]
    snips = [(k, d) for k, d in variants]
    log(f"[C01] {len(reqs)} headers checked in-process, {len(snips)} declarations compiled under deny(warnings)")
    prelude = "pub static K: i32 = 5;\npub const LEN: usize = 2;\npub trait Tr { type Assoc; }\n"
    per, br = vlib.verdict_crate("c01_deny", snips, prelude=prelude, crate_attrs="#![deny(warnings)]\n#![allow(dead_code, non_camel_case_types)]",
                                 check_only=True)
    failing = [k for k, _ in snips if [x for x in per[k] if x["level"] in ("error", "warning")]]
    control_msgs = {}
    if failing:
        csn = [(k, twin(k, dict(variants)[k])) for k in failing]
        perc, brc = vlib.verdict_crate("c01_control", csn, prelude=prelude,
                                       crate_attrs="#![deny(warnings)]\n#![allow(dead_code, non_camel_case_types)]", check_only=True)
        # a diagnostic of the derive-less twin is not the expansion's own: remember its messages per case
        control_msgs = {k: {x["message"] for x in perc[k]} for k, _ in csn}
    for k, snip in snips:
        chk.cov["evaluations"] += 1
        chk.cov["distinct_nontrivial"] += 1
        diags = [x for x in per[k] if x["level"] in ("error", "warning") and x["message"] not in control_msgs.get(k, set())]
        if diags:
            chk.deviation(k, "a supported input does not build under #![deny(warnings)]: " + diags[0]["message"][:220],
                          case={"decl": dict(variants)[k]}, expected="compiles without diagnostics of its own", observed=[x["message"] for x in diags[:4]],
                          tags={"kind": "rustc", "variant": k.split(":")[-1]})
    chk.notes["control_diagnostics_discounted"] = {k: sorted(v)[:3] for k, v in list(control_msgs.items())[:10] if v}
    chk.cov["traces_validated_against_impl"] += len(snips)
    chk.cov["rule"] = ("(a) 50 derives x base items x every well-formed parameter list of <= MaxParams parameters (+ where-clause on a hash-"
                       "selected half), header clauses on the real expansion; (b) every code path x {as written, #[deprecated], uninhabited} "
                       "+ generic forms + raw identifiers under deny(warnings); non-trivial = inputs with generics / compiled declarations")
