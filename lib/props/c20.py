"""C20 - every feature works on its own, with and without std.

M : the cfg gating graph is EXTRACTED from the working tree (impl/src/lib.rs module guards and create_derive!
    features, cfg attributes on the helpers of utils.rs, `crate::utils::..`/`attr::..` uses of every module, facade
    items of src/lib.rs and the `derive_more::X` names the expanders emit, optional crates named by a module vs
    the features activating them in impl/Cargo.toml) into a generated constants module; Features.tla checks
    guard(A) => guard(B) for every edge over ALL feature sets (edge-wise) and state-wise for every single feature
    and every pair, plus derive exposure.
R/T : real builds from the working tree: every single feature x {no std, std}: `cargo check` of the proc-macro crate
    and `cargo test --tests` of the facade (= the repository's own test programs whose required-features are
    met); thorough: additionally all 276 feature pairs x {no std, std} `cargo check` of the facade. The recorded
    {features, std, step, outcome} events are validated by TLC (Trace_Features).
"""
import concurrent.futures as cf
import itertools
import json
import os
import re
import shutil
import subprocess

import vlib
from vlib import log


# ------------------------------------------------------------------------------------------------ extraction
def parse_cfg(expr):
    """cfg expression -> DNF over positive features (set of frozensets) or None if it is not of that form"""
    expr = expr.strip()
    m = re.fullmatch(r'feature\s*=\s*"([\w-]+)"', expr)
    if m:
        return {frozenset([m.group(1)])}
    for kw in ("any", "all"):
        if expr.startswith(kw + "(") and expr.endswith(")"):
            parts = split_top(expr[len(kw) + 1:-1])
            subs = [parse_cfg(p) for p in parts if p.strip()]
            if any(s is None for s in subs):
                return None
            if kw == "any":
                out = set()
                for s in subs:
                    out |= s
                return out
            out = {frozenset()}
            for s in subs:
                out = {a | b for a in out for b in s}
            return out
    return None


def split_top(s):
    out, depth, cur = [], 0, ""
    for ch in s:
        if ch == "(":
            depth += 1
        elif ch == ")":
            depth -= 1
        if ch == "," and depth == 0:
            out.append(cur)
            cur = ""
        else:
            cur += ch
    out.append(cur)
    return out


CFG_RE = re.compile(r"#\[cfg\(")


def cfg_items(text):
    """[(dnf or None, following item text up to ';' or '{')] for every #[cfg(..)] attribute"""
    out = []
    for m in CFG_RE.finditer(text):
        i = m.end()
        depth = 1
        while depth and i < len(text):
            depth += {"(": 1, ")": -1}.get(text[i], 0)
            i += 1
        expr = text[m.end():i - 1]
        j = text.index("]", i) + 1
        rest = text[j:]
        # skip further attributes / doc comments
        while True:
            r2 = rest.lstrip()
            if r2.startswith("#["):
                k = 0
                d = 0
                while k < len(r2):
                    if r2[k] == "[":
                        d += 1
                    elif r2[k] == "]":
                        d -= 1
                        if d == 0:
                            break
                    k += 1
                rest = r2[k + 1:]
            elif r2.startswith("///") or r2.startswith("//"):
                rest = r2[r2.index("\n") + 1:]
            else:
                rest = r2
                break
        end = min([x for x in (rest.find(";"), rest.find("{")) if x >= 0] or [len(rest)])
        if rest.startswith("pub(crate) use") or rest.startswith("pub use") or rest.startswith("use "):
            end = rest.find(";")
        out.append((parse_cfg(" ".join(expr.split())), " ".join(rest[:end].split())))
    return out


def names_of(item):
    m = re.match(r"(?:pub(?:\([a-z]+\))?\s+)?(?:mod|struct|enum|trait|fn|type)\s+(r#)?(\w+)", item)
    if m:
        return [m.group(2)]
    m = re.match(r"(?:pub(?:\([a-z]+\))?\s+)?use\s+(.*)", item)
    if m:
        body = m.group(1)
        names = re.findall(r"(\w+)\s*(?:,|}|$)", body.replace(" as _", ""))
        return [n for n in names if n not in ("self", "crate", "super")]
    return []


def extract(repo):
    impl = os.path.join(repo, "impl", "src")
    lib = open(os.path.join(impl, "lib.rs")).read()
    guard, edges, unsupported = {}, set(), []

    def add_guard(name, dnf):
        if dnf is None:
            unsupported.append(name)
            return
        guard[name] = guard.get(name, set()) | dnf
    # modules of the proc-macro crate
    mods = {}
    for dnf, item in cfg_items(lib):
        for n in names_of(item):
            if item.lstrip("pub(crate) ").startswith("mod"):
                mods[n] = dnf
                add_guard("mod:" + n, dnf)
    add_guard("mod:utils", {frozenset()})
    # derives
    derive_feature = {}
    for m in re.finditer(r'create_derive!\(\s*"(\w+)"\s*,\s*([\w:#]+)\s*,\s*(\w+)', lib):
        feat, module, trait_ = m.group(1), m.group(2).replace("r#", ""), m.group(3)
        add_guard("derive:" + trait_, {frozenset([feat])})
        derive_feature["derive:" + trait_] = feat
        edges.add(("derive:" + trait_, "mod:" + module.split("::")[0]))
    # helpers of utils.rs
    utils = open(os.path.join(impl, "utils.rs")).read()
    helper = {}
    for dnf, item in cfg_items(utils):
        for n in names_of(item):
            if dnf is None:
                unsupported.append("utils:" + n)
                continue
            helper[n] = helper.get(n, set()) | dnf
    for n, d in helper.items():
        add_guard("utils:" + n, d)
    # uses per module file
    files = {}
    for root, _, fs in os.walk(impl):
        for f in fs:
            if f.endswith(".rs") and f not in ("lib.rs", "utils.rs"):
                rel = os.path.relpath(os.path.join(root, f), impl)
                top = rel.split(os.sep)[0].replace(".rs", "")
                files.setdefault(top, "")
                files[top] += open(os.path.join(root, f)).read() + "\n"
    facade = open(os.path.join(repo, "src", "lib.rs")).read()
    fac = {}
    for dnf, item in cfg_items(facade):
        for n in names_of(item):
            if dnf is None:
                continue
            fac[n] = fac.get(n, set()) | dnf
    for n, d in fac.items():
        add_guard("facade:" + n, d)
    # optional crates and the features activating them
    cargo = open(os.path.join(repo, "impl", "Cargo.toml")).read()
    dep_act = {}
    for m in re.finditer(r'^(\w+)\s*=\s*\[([^\]]*)\]', cargo, re.M):
        for dep in re.findall(r'"dep:([\w-]+)"', m.group(2)):
            dep_act.setdefault(dep.replace("-", "_"), set()).add(frozenset([m.group(1)]))
    for dep, d in dep_act.items():
        add_guard("dep:" + dep, d)
    for top, text in files.items():
        src = "mod:" + top
        if src not in guard:
            continue
        # strip test modules
        text = re.split(r"#\[cfg\(test\)\]", text)[0]
        used = set()
        for m in re.finditer(r"use crate::utils::\{(.*?)\};", text, re.S):
            used |= set(re.findall(r"\b([A-Za-z_]\w*)\b", m.group(1)))
        used |= set(re.findall(r"use crate::utils::(\w+)", text))
        used |= set(re.findall(r"\battr::(\w+)", text))
        used |= set(re.findall(r"\butils::(\w+)", text))
        for n in used:
            if "utils:" + n in guard:
                edges.add((src, "utils:" + n))
        for n in set(re.findall(r"derive_more\s*::\s*(?:__private\s*::\s*)?(\w+)", text)):
            if "facade:" + n in guard:
                edges.add((src, "facade:" + n))
        for dep in dep_act:
            if re.search(r"\b" + dep + r"\b", text):
                edges.add((src, "dep:" + dep))
    # nested fmt modules: debug.rs / display.rs are guarded inside fmt/mod.rs
    feats = sorted(set(derive_feature.values()))
    return guard, edges, derive_feature, feats, unsupported


def write_data(wd, guard, edges, derive_feature, feats, probe_sets=()):
    def dnf(d):
        return "{" + ", ".join("{" + ", ".join(f'"{x}"' for x in sorted(c)) + "}" for c in sorted(d, key=sorted)) + "}"
    items = sorted(guard)
    with open(os.path.join(wd, "FeaturesData.tla"), "w") as f:
        f.write("--------------------------- MODULE FeaturesData ---------------------------\n"
                "\\* generated from the working tree by lib/props/c20.py\n")
        f.write("Feature == {" + ", ".join(f'"{x}"' for x in feats) + "}\n")
        f.write("Guard == [i \\in {" + ", ".join(f'"{i}"' for i in items) + "} |->\n    CASE " +
                "\n      [] ".join(f'i = "{i}" -> {dnf(guard[i])}' for i in items) + "]\n")
        f.write("Edges == {" + ",\n  ".join(f'<<"{a}", "{b}">>' for a, b in sorted(edges)) + "}\n")
        f.write("DeriveFeature == [d \\in {" + ", ".join(f'"{d}"' for d in sorted(derive_feature)) + "} |->\n    CASE " +
                "\n      [] ".join(f'd = "{d}" -> "{derive_feature[d]}"' for d in sorted(derive_feature)) + "]\n")
        f.write("ProbeSets == {" + ", ".join("{" + ", ".join(f'"{x}"' for x in sorted(ps)) + "}" for ps in sorted(probe_sets, key=sorted)) + "}\n")
        f.write("=============================================================================\n")


# ------------------------------------------------------------------------------------------------ probes
PROBE_PRELUDE = ('pub static K: i32 = 5;\npub const LEN: usize = 2;\npub trait Tr { type Assoc; }\n'
                 '#[macro_export] macro_rules! impls { ($t:ty : $($tr:tt)+) => {{ trait Fb { const V: bool = false; } impl<T: ?Sized> Fb for T {} '
                 'struct W<T: ?Sized>(::core::marker::PhantomData<T>); #[allow(dead_code)] impl<T: ?Sized + $($tr)+> W<T> { const V: bool = true; } <W<$t>>::V }} }\n'
                 'pub fn report(k: &str, rows: &[::std::string::String]) { println!("OBS {{\\"k\\": {:?}, \\"rows\\": [{}]}}", k, '
                 'rows.iter().map(|r| format!("{:?}", r)).collect::<::std::vec::Vec<_>>().join(", ")); }\n')


# generic types deriving ONE derive whose expansion names traits of another feature (the operator of the fold): the
# other impl is written by hand, so the derive's feature really is alone
def _helper(ty):
    """which traits a helper error type implements: Display / Debug always, std's Error when derive_more has `std` (rows starting
    with `std:` are compared in the std configurations only)"""
    return ([f'::std::format!("display:{{}}", impls!({ty}: ::core::fmt::Display))', f'::std::format!("debug:{{}}", impls!({ty}: ::core::fmt::Debug))',
             f'::std::format!("std:error:{{}}", impls!({ty}: ::std::error::Error))'])


EXTRA_PROBES = [
    ("helper_error:FromStr", "#[derive(derive_more::FromStr, Debug)] pub enum E { A }", _helper("::derive_more::FromStrError")),
    ("helper_error:TryInto", "#[derive(derive_more::TryInto, Debug)] pub enum E { A(i32) }", _helper("::derive_more::TryIntoError<m::E>")),
    ("helper_error:TryFrom", "#[derive(derive_more::TryFrom, Debug)] #[try_from(repr)] pub enum E { A }", _helper("::derive_more::TryFromReprError<isize>")),
    ("helper_error:TryUnwrap", "#[derive(derive_more::TryUnwrap, Debug)] pub enum E { A(i32) }", _helper("::derive_more::TryUnwrapError<m::E>")),
    ("helper_error:Add", "#[derive(derive_more::Add, Debug)] pub enum E { A(i32), U }",
     _helper("::derive_more::BinaryError") + _helper("::derive_more::WrongVariantError") + _helper("::derive_more::UnitError")),
    ("helper_error:Not", "#[derive(derive_more::Not, Debug)] pub enum E { A(i32), U }", _helper("::derive_more::UnitError")),
    # several attributes of one derive on one item (each derive's attribute-MERGING code, under that derive's feature alone)
    ("multi_attr:Debug", "#[derive(derive_more::Debug)] #[debug(\"<{}>\", _0)] #[debug(bound(T: ::core::fmt::Display))] #[debug(bounds(T: ::core::marker::Copy))] pub struct M<T>(pub T);",
     ['::std::format!("{:?}", m::M(7u8))']),
    ("multi_attr:Display", "#[derive(derive_more::Display)] #[display(bound(T: ::core::fmt::Debug))] #[display(\"<{:?}>\", _0)] #[display(bounds(T: ::core::marker::Copy))] pub struct M<T>(pub T);",
     ['::std::format!("{}", m::M(7u8))']),
    ("multi_attr:DisplayEnum", "#[derive(derive_more::Display)] #[display(rename_all = \"snake_case\")] #[display(\"[{_variant}]\")] #[display(bound(u8: ::core::marker::Copy))] pub enum M { FooBar, Baz }",
     ['::std::format!("{} {}", m::M::FooBar, m::M::Baz)']),
    ("multi_attr:Into", "#[derive(derive_more::Into, Clone)] #[into(ref)] #[into(owned)] #[into(i64)] pub struct M(pub i32);",
     ['::std::format!("{} {} {}", <i32 as ::core::convert::From<m::M>>::from(m::M(1)), <&i32 as ::core::convert::From<&m::M>>::from(&m::M(2)), <i64 as ::core::convert::From<m::M>>::from(m::M(3)))']),
    ("multi_attr:From", "#[derive(derive_more::From)] #[from(i8)] #[from(i16, i32)] pub struct M(pub i64);",
     ['::std::format!("{} {} {}", <m::M as ::core::convert::From<i8>>::from(1).0, <m::M as ::core::convert::From<i16>>::from(2).0, <m::M as ::core::convert::From<i32>>::from(3).0)']),
    ("multi_attr:AsRef", "#[derive(derive_more::AsRef)] #[as_ref(str)] #[as_ref([u8], ::std::string::String)] pub struct M(pub ::std::string::String);",
     ['::std::format!("{} {}", <m::M as ::core::convert::AsRef<str>>::as_ref(&m::M(::std::string::String::from("ab"))), <m::M as ::core::convert::AsRef<[u8]>>::as_ref(&m::M(::std::string::String::from("ab"))).len())']),
    ("generic_alone:Sum", "#[derive(derive_more::Sum)] pub struct G<T>(pub T);\n"
     "impl<T: ::core::ops::Add<Output = T>> ::core::ops::Add for G<T> { type Output = Self; fn add(self, r: Self) -> Self { G(self.0 + r.0) } }",
     ['::std::format!("{}", ::std::vec![m::G(1i32), m::G(2)].into_iter().sum::<m::G<i32>>().0)']),
    ("generic_alone:Product", "#[derive(derive_more::Product)] pub struct G<T>(pub T);\n"
     "impl<T: ::core::ops::Mul<Output = T>> ::core::ops::Mul for G<T> { type Output = Self; fn mul(self, r: Self) -> Self { G(self.0 * r.0) } }",
     ['::std::format!("{}", ::std::vec![m::G(3i32), m::G(2)].into_iter().product::<m::G<i32>>().0)']),
]


HELPER_ARITY = {"BinaryError": 0, "WrongVariantError": 0, "UnitError": 0, "FromStrError": 0, "TryFromReprError": 1, "TryIntoError": 1,
                "TryUnwrapError": 1}


def exposure_module(key):
    """Which helper types the built facade REALLY exports (re-export globs included), without a failing compilation: a glob
    import of `derive_more::*` inside a function body takes precedence over the same-named fallback types the enclosing module
    imports; `type_name` tells which one a name resolved to."""
    fb = " ".join(f"pub struct {h}{'<T = ()>(pub T)' if a else ''};" for h, a in HELPER_ARITY.items())
    rows = ", ".join(f'::std::format!("{h}:{{}}", ::core::any::type_name::<{h}{"<u8>" if a else ""}>().starts_with("derive_more::"))'
                     for h, a in HELPER_ARITY.items())
    return (f"use super::*;\npub mod fb {{ {fb} }}\nmod q {{\n    use super::fb::*;\n    pub fn rows() -> ::std::vec::Vec<::std::string::String> {{\n"
            f"        #[allow(unused_imports)] use ::derive_more::*;\n        ::std::vec![{rows}]\n    }}\n}}\n"
            f"pub fn run() {{ report({json.dumps(key)}, &q::rows()); }}")


def probe_groups(derive_feature):
    """the code-path table of C15 and the generic declarations of C01, grouped by the exact set of features their
    derives need: group -> [(key, module)]"""
    from props.c15_cases import CASES
    from props.c01 import GENERIC_ITEMS
    feat_of = {k.split(":", 1)[1]: v for k, v in derive_feature.items()}
    groups = {}
    inner = "#![allow(dead_code, non_camel_case_types)]\nuse ::derive_more;\n"
    for key, decl, obs in list(CASES) + EXTRA_PROBES:
        fs = frozenset(feat_of[d] for d in set(re.findall(r"derive_more::(\w+)", decl)) if d in feat_of)
        if not fs:
            continue
        rows = ", ".join(o.replace("M::", "m::") for o in obs)
        mod = (f"use super::*;\npub mod m {{\n{inner}{decl}\n}}\npub fn run() {{ let rows: ::std::vec::Vec<::std::string::String> = "
               f"vec![{rows}]; report({json.dumps(key)}, &rows); }}")
        groups.setdefault(fs, []).append((key, mod))
        # the same declaration with its derives named through the crate's other two module paths (one of them per case):
        # `derive_more::with_trait::X` must be derive_more's macro under every feature set, never a std derive of that name
        alt = ["with_trait", "derive"][vlib.seeded_pick(key, 3, 2)]
        decl2 = re.sub(r"#\[derive\(([^\]]*)\)\]", lambda m: "#[derive(" + re.sub(r"\bderive_more::(\w+)", rf"derive_more::{alt}::\1", m.group(1)) + ")]", decl)
        if decl2 != decl:
            key2 = f"{key}|{alt}"
            mod2 = (f"use super::*;\npub mod m {{\n{inner}{decl2}\n}}\npub fn run() {{ let rows: ::std::vec::Vec<::std::string::String> = "
                    f"vec![{rows}]; report({json.dumps(key2)}, &rows); }}")
            groups.setdefault(fs, []).append((key2, mod2))
    for n, (fam, decl) in enumerate(GENERIC_ITEMS):
        fs = frozenset(feat_of[d] for d in set(re.findall(r"derive_more::(\w+)", decl)) if d in feat_of)
        key = f"generic:{fam}:{n}"
        mod = f"use super::*;\npub mod m {{\n{inner}{decl}\n}}\npub fn run() {{ report({json.dumps(key)}, &[]); }}"
        groups.setdefault(fs, []).append((key, mod))
    for fs in list(groups):
        key = "exposure:" + "+".join(sorted(fs))
        groups[fs].append((key, exposure_module(key)))
    return groups


# ------------------------------------------------------------------------------------------------ builds
def cargo(cmd, target, timeout=1800):
    env = vlib.cargo_env({"CARGO_TARGET_DIR": target, "RUSTFLAGS": ""})
    p = subprocess.run(cmd, cwd=vlib.REPO, env=env, stdout=subprocess.PIPE, stderr=subprocess.STDOUT, text=True, timeout=timeout)
    return p.returncode, p.stdout


def run(chk, tier, seed, replay):
    chk.assumptions += ["the scanner sees syntactic uses only (use lists, attr::X / utils::X paths, derive_more::X names in the expanders' "
                        "sources); cfg expressions other than feature/any/all are skipped and counted",
                        "`cargo test --tests` runs the repository's own test programs whose required-features are met by the configuration"]
    guard, edges, derive_feature, feats, unsupported = extract(vlib.REPO)
    wd = os.path.join(vlib.WORK, "c20", "spec")
    os.makedirs(wd, exist_ok=True)
    for f in ("Features.tla", "MC_Features.tla", "MC_Features.cfg"):
        shutil.copy(os.path.join(vlib.SPEC, f), wd)
    groups = probe_groups(derive_feature)
    write_data(wd, guard, edges, derive_feature, feats, probe_sets=list(groups))
    r = vlib.run_tlc("MC_Features", "MC_Features", workers=4, timeout=1800, cwd=wd, xmx="6g")
    chk.add_tlc(r, "extracted gating graph")
    chk.notes["graph"] = {"items": len(guard), "edges": len(edges), "features": len(feats), "cfg_not_modelled": unsupported[:20]}
    info = (r.tagged.get("CASE") or [{}])[0]
    for e in info.get("broken", []):
        a, b = e
        chk.deviation(f"edge:{a}->{b}", f"`{a}` (enabled when {sorted(map(sorted, guard[a]))}) needs `{b}` (enabled only when "
                      f"{sorted(map(sorted, guard[b]))}): some feature set enables the first without the second",
                      case={"edge": e}, expected="guard(a) => guard(b) for every feature set", observed="not implied",
                      tags={"kind": "dangling", "item": b})
    if not r.ok and not info.get("broken"):
        chk.deviation("model", f"Features.tla: {r.violation}", case={}, expected="invariants hold", observed=r.raw_tail[-600:],
                      tags={"kind": "model"})
    chk.cov["evaluations"] += len(edges)
    chk.cov["exhaustive"] = True
    # ---------------- real builds
    configs = []
    for f in feats:
        for std in (False, True):
            configs.append(([f], std, "test"))
    for f in feats:
        configs.append(([f], False, "check_impl"))
    # feature sets the sources THEMSELVES single out: every `all(feature = "a", feature = "b", ..)` in a cfg / cfg_attr of either crate
    # names a combination with code (or lints) of its own - those are built in the quick tier too
    combos = set()
    for root in (os.path.join(vlib.REPO, "impl", "src"), os.path.join(vlib.REPO, "src")):
        for dp, _, fns in os.walk(root):
            for fn in fns:
                if fn.endswith(".rs"):
                    text = open(os.path.join(dp, fn), encoding="utf-8", errors="replace").read()
                    for m in re.finditer(r"\ball\(((?:[^()]|\([^()]*\))*)\)", text):
                        fs = sorted(set(re.findall(r'feature\s*=\s*"([\w-]+)"', m.group(1))) & set(feats))
                        if len(fs) >= 2:
                            combos.add(tuple(fs))
    chk.notes["feature_combinations_named_by_the_sources"] = sorted(map(list, combos))
    for fs in sorted(combos):
        configs.append((list(fs), False, "check_impl"))
        for std in (False, True):
            configs.append((list(fs), std, "check"))
    if tier == "thorough":
        for a, b in itertools.combinations(feats, 2):
            for std in (False, True):
                configs.append(([a, b], std, "check"))
    if replay:
        want = json.load(open(replay))["case"]
        configs = [c for c in configs if list(c[0]) == want.get("features") and c[1] == want.get("std") and c[2] == want.get("step")]
    # ---------------- probes: every code path / generic declaration under exactly the features its derives need
    doc_helpers = {frozenset(fs): set(hs) for fs, hs in info.get("helpers", [])}
    pconfigs = [(fs, std) for fs in sorted(groups, key=sorted) for std in (False, True)]
    if replay:
        want = json.load(open(replay))["case"]
        pconfigs = [c for c in pconfigs if sorted(c[0]) == want.get("features") and c[1] == want.get("std") and want.get("step") == "probe"]
    psh = 4

    def probe_work(i):
        out = []
        for fs, std in pconfigs[i::psh]:
            feats_ = tuple(sorted(fs)) + (("std",) if std else ())
            try:
                obs, failed, br = vlib.run_case_crate(f"c20_probe_{i}", groups[fs], prelude=PROBE_PRELUDE, features=feats_,
                                                      default_features=False, target_dir=os.path.join(vlib.BUILD, f"target-c20p-{i}"))
            except vlib.ToolError as e:
                # the probe cannot even start because derive_more / derive_more-impl do not compile with these features:
                # that is the property's subject, not a tool problem
                if "could not compile `derive_more" in str(e):
                    out.append((fs, std, None, str(e)[-1200:]))
                    continue
                raise
            out.append((fs, std, obs, failed))
        return out
    # the reference: the same modules under `full`
    allmods = [m for fs in sorted(groups, key=sorted) for m in groups[fs]]
    with cf.ThreadPoolExecutor(max_workers=psh + 1) as ex:
        ref_f = ex.submit(vlib.run_case_crate, "c20_probe_full", allmods, prelude=PROBE_PRELUDE, features=("full",),
                          target_dir=os.path.join(vlib.BUILD, "target-c20p-full")) if not replay or pconfigs else None
        presults = [x for part in ex.map(probe_work, range(psh)) for x in part]
        ref_obs, ref_failed, _ = ref_f.result() if ref_f else ({}, {}, None)
    for fs, std, obs, failed in presults:
        if obs is None:
            chk.cov["evaluations"] += 1
            chk.deviation(f"probe:{'+'.join(sorted(fs))}:{'std' if std else 'no_std'}:<crates>",
                          f"derive_more does not build with features {sorted(fs)} {'+ std' if std else '(no std)'}",
                          case={"features": sorted(fs), "std": std, "step": "probe"}, expected="both crates build",
                          observed=failed, tags={"kind": "build", "features": sorted(fs)})
            continue
        for key, _ in groups[fs]:
            chk.cov["evaluations"] += 1
            chk.cov["distinct_nontrivial"] += 1
            name = f"probe:{'+'.join(sorted(fs))}:{'std' if std else 'no_std'}:{key}"
            case = {"features": sorted(fs), "std": std, "step": "probe", "key": key}
            if key.startswith("exposure:"):
                # the helper types this build exports against the owner table of Features.tla (DocHelpers), not against `full`
                got = {r.split(":")[0] for r in ((obs.get(key) or {}).get("rows") or []) if r.endswith(":true")}
                want_h = doc_helpers.get(frozenset(fs))
                if key in failed or want_h is None or obs.get(key) is None:
                    raise vlib.ToolError(f"exposure probe {name}: {failed.get(key) or 'no expectation / observation'}")
                if got != want_h:
                    chk.deviation(name, f"with features {sorted(fs)} {'+ std' if std else '(no std)'} the facade exports the helper types "
                                  f"{sorted(got)}, the enabled features own {sorted(want_h)}", case=case, expected=sorted(want_h),
                                  observed=sorted(got), tags={"kind": "helper_exposure", "features": sorted(fs)})
                continue
            if key in ref_failed:
                continue        # not a supported input even under `full` (C01's subject)
            if key in failed:
                chk.deviation(name, f"`{key}` compiles under `full` but not with features {sorted(fs)} "
                              f"{'+ std' if std else 'alone (no std)'}: {failed[key][0]['message'][:200]}", case=case,
                              expected="compiles as under full", observed=failed[key][:3], tags={"kind": "probe_compile", "features": sorted(fs)})
            elif [r for r in ((obs.get(key) or {}).get("rows") or []) if std or not r.startswith("std:")] != \
                    [r for r in ((ref_obs.get(key) or {}).get("rows") or []) if std or not r.startswith("std:")]:
                chk.deviation(name, f"`{key}` behaves differently with features {sorted(fs)} than under `full`", case=case,
                              expected=ref_obs.get(key), observed=obs.get(key), tags={"kind": "probe_behaviour", "features": sorted(fs)})
        chk.cov["traces_validated_against_impl"] += len(groups[fs])
    chk.notes["probe_feature_sets"] = len(groups)
    nsh = 4
    shards = [configs[i::nsh] for i in range(nsh)]

    def work(i):
        out = []
        tgt = os.path.join(vlib.BUILD, f"target-c20-{i}")
        for fs, std, step in shards[i]:
            fl = ",".join(fs + (["std"] if std else []))
            if step == "test":
                cmd = ["cargo", "test", "--offline", "-q", "-p", "derive_more", "--no-default-features", "--features", fl, "--tests"]
            elif step == "check":
                cmd = ["cargo", "check", "--offline", "-q", "-p", "derive_more", "--no-default-features", "--features", fl]
            else:
                cmd = ["cargo", "check", "--offline", "-q", "-p", "derive_more-impl", "--no-default-features", "--features", ",".join(fs)]
            rc, text = cargo(cmd, tgt)
            out.append((fs, std, step, rc, text[-1500:]))
        return out
    with cf.ThreadPoolExecutor(max_workers=nsh) as ex:
        results = [x for part in ex.map(work, range(nsh)) for x in part]
    os.makedirs(os.path.join(vlib.WORK, "c20"), exist_ok=True)
    tpath = os.path.join(vlib.WORK, "c20", "trace.ndjson")
    with open(tpath, "w") as f:
        for n, (fs, std, step, rc, text) in enumerate(results):
            f.write(json.dumps({"id": n, "features": fs, "std": std, "step": step, "outcome": "ok" if rc == 0 else "failed"}) + "\n")
    tr = vlib.run_tlc("Trace_Features", "Trace_Features", workers=1, timeout=900, dfs=True, env={"TRACE": tpath})
    chk.add_tlc(tr, "trace validation of feature builds")
    done = tr.tagged.get("DONE", [])
    if not done or done[0]["consumed"] != len(results):
        raise vlib.ToolError(f"trace not consumed: {tr.raw_tail[-1500:]}")
    chk.cov["evaluations"] += len(results)
    chk.cov["traces_validated_against_impl"] += len(results)
    chk.cov["distinct_nontrivial"] += len(results)
    for b in tr.tagged.get("BAD", []):
        fs, std, step, rc, text = results[b["id"]]
        errs = [l for l in text.splitlines() if l.startswith("error") or "FAILED" in l or "panicked" in l][:4]
        chk.deviation(f"build:{'+'.join(fs)}:{'std' if std else 'no_std'}:{step}",
                      f"features {fs} {'with' if std else 'without'} std: `{step}` fails: {errs}",
                      case={"features": fs, "std": std, "step": step}, expected="ok", observed=text[-800:],
                      tags={"kind": "build", "features": fs})
    chk.sample({"edge": sorted(edges)[len(edges) // 2], "guards": {k: sorted(map(sorted, guard[k])) for k in sorted(edges)[len(edges) // 2]}})
    chk.sample({"build": {"features": results[0][0], "std": results[0][1], "step": results[0][2], "outcome": results[0][3]}})
    chk.cov["rule"] = ("extracted gating graph: every edge over all feature sets + all single features and pairs state-wise (TLC); real "
                       "builds: 24 features x {no std, std} test + impl check (quick), + 276 pairs x {no std, std} check (thorough); "
                       "probes: every code path of the C15 table and every generic declaration of C01 under exactly the features its "
                       "derives need x {no std, std}, compared with the same module under `full`")
