"""C13 - FromStr: newtypes delegate to the field, enums match variant names.

M : TLC checks FromStr.tla (the documented rule vs the transcription of the lower-case grouping) on every
    enum of <= MaxVariants variants from a pool with case-colliding groups and a raw identifier, x every
    string of length <= MaxLen over the letters of the names.
R : every (enum, string) state is replayed on the real derived FromStr (one probe binary holding all enums).
T : random longer strings are parsed by the real code; the recorded events are validated by TLC
    (Trace_FromStr evaluates the documented rule on every event).
    Newtypes over i32/u8/bool/f32/char/IpAddr: the parse result (value or error) must equal the field type's.
"""
import json
import os
import random
import subprocess

import vlib
from vlib import log


SYM = {"U+C4": "\u00c4", "U+E4": "\u00e4"}
UNSYM = {v: k for k, v in SYM.items()}


def text(chars):
    return "".join(SYM.get(ch, ch) for ch in chars)


def vname(v):
    return ("r#" if v["raw"] else "") + text(v["name"])


def enum_key(vs):
    return ",".join(vname(v) for v in vs)


NEWTYPES = [("i32", ["0", "-17", "+5", "2147483648", "", " 1", "0x10", "१"]),
            ("u8", ["255", "256", "-1", "007", "a"]),
            ("bool", ["true", "false", "True", "1", ""]),
            ("f32", ["1.5", "NaN", "inf", "-0", "1e400", "1,5", "."]),
            ("char", ["a", "ab", "", "é"]),
            ("std::net::IpAddr", ["127.0.0.1", "::1", "256.0.0.1", "localhost"]),
            # a user type whose inherent `from_str` is NOT its FromStr impl: `Field::from_str(src)` in an expansion would reach it
            ("Own", ["7", "x", "", "007"])]
OWN_TYPE = ("#[derive(Debug, PartialEq, Clone)] pub struct Own(pub u8);\n"
            "impl core::str::FromStr for Own { type Err = core::num::ParseIntError; fn from_str(s: &str) -> Result<Own, Self::Err> { s.parse::<u8>().map(Own) } }\n"
            "impl Own { pub fn from_str(_s: &str) -> Result<Own, core::num::ParseIntError> { Ok(Own(213)) } }\n")


def probe_source(enums):
    parts = ["#![allow(non_camel_case_types, dead_code)]\nuse std::io::{BufRead, Write};\nuse core::str::FromStr;\n" + OWN_TYPE]
    arms = []
    for i, vs in enumerate(enums):
        vars_ = ", ".join(vname(v) for v in vs)
        idx = " ".join(f"En{i}::{vname(v)} => {j + 1}," for j, v in enumerate(vs))
        # every third enum has a (defaulted) const parameter: the impl is for the enum with all of its generics
        g = "<const K: usize = 0>" if i % 3 == 0 else ""
        parts.append(f"#[derive(derive_more::FromStr)]\npub enum En{i}{g} {{ {vars_} }}\n"
                     f"fn p{i}(s: &str) -> (i64, bool) {{ match <En{i}>::from_str(s) {{ Ok(v) => (match v {{ {idx} }}, true), "
                     f"Err(e) => (0, e.to_string().contains(\"En{i}\")) }} }}\n")
        arms.append(f"{i} => p{i}(s),")
    nt = []
    for j, (ty, corpus) in enumerate(NEWTYPES):
        parts.append(f"#[derive(derive_more::FromStr, Debug, PartialEq)]\npub struct Nt{j}(pub {ty});\n"
                     f"#[derive(derive_more::FromStr, Debug, PartialEq)]\npub struct Nn{j} {{ pub v: {ty} }}\n")
        # the same newtypes generic over their field type: inline bound, where-clause (ending in a comma), lifetime + const
        parts.append(f"#[derive(derive_more::FromStr, Debug, PartialEq)]\npub struct Gt{j}<T: Clone>(pub T) where T: core::fmt::Debug,;\n"
                     f"#[derive(derive_more::FromStr, Debug, PartialEq)]\npub struct Gn{j}<T> where T: PartialEq {{ pub v: T }}\n")
        for s in corpus:
            lit = vlib.rust_str(s)
            nt.append(f'    {{ let a = Nt{j}::from_str({lit}).map(|n| n.0); let c = Nn{j}::from_str({lit}).map(|n| n.v); '
                      f'let g = Gt{j}::<{ty}>::from_str({lit}).map(|n| n.0); let h = Gn{j}::<{ty}>::from_str({lit}).map(|n| n.v); '
                      f'let b = <{ty} as FromStr>::from_str({lit}); '
                      f'println!("NT {{}}", (format!("{{:?}}", a) == format!("{{:?}}", b) && format!("{{:?}}", c) == format!("{{:?}}", b) '
                      f'&& format!("{{:?}}", g) == format!("{{:?}}", b) && format!("{{:?}}", h) == format!("{{:?}}", b)) as u8); }}')
    parts.append("fn main() {\n" + "\n".join(nt) + """
    let stdin = std::io::stdin(); let out = std::io::stdout(); let mut out = std::io::BufWriter::new(out.lock());
    for line in stdin.lock().lines() { let line = line.unwrap(); let mut it = line.splitn(2, '\\t');
        let id: usize = it.next().unwrap().parse().unwrap(); let s = it.next().unwrap_or("");
        let (r, named) = match id { """ + " ".join(arms) + """ _ => (-9, false) };
        writeln!(out, "{}\\t{}", r, named as u8).unwrap(); }
}
""")
    return "".join(parts)


def run(chk, tier, seed, replay):
    chk.assumptions += ["variant pool: Foo/FOO/foo, Ba/BA, r#fn/Fn, a, Äa/äa (non-ASCII case pair); strings over the letters of these names in both cases plus '#'",
                        "newtypes over i32, u8, bool, f32, char, IpAddr with a fixed corpus of valid and invalid strings"]
    r = vlib.run_tlc("MC_FromStr", f"MC_FromStr_{tier}", workers=8, timeout=2400, xmx="8g")
    chk.add_tlc(r, "enums x strings")
    if not r.ok:
        raise vlib.ToolError(f"TLC: {r.violation}\n{r.raw_tail[-1500:]}")
    cases = r.cases
    chk.cov["exhaustive"] = not replay
    enums, eidx = [], {}
    for c in cases:
        k = enum_key(c["vs"])
        if k not in eidx:
            eidx[k] = len(enums)
            enums.append(c["vs"])
    src = probe_source(enums)
    d = vlib.write_probe("c13_probe", src, features=("from_str",))
    br = vlib.cargo_build(d)
    if not br.ok:
        errs = [x for x in br.diags if x["level"] == "error"]
        # the enums are all supported inputs: a compile failure is a deviation of the derive
        chk.deviation("compile", "derive(FromStr) on supported enums/newtypes does not compile: "
                      + (errs[0]["message"][:300] if errs else br.raw[-300:]), case={"n_enums": len(enums)},
                      expected="compiles", observed=[e["message"] for e in errs[:5]], tags={"kind": "compile_error"})
        return
    rnd = random.Random(seed)
    queries = [(eidx[enum_key(c["vs"])], text(c["s"]), c["doc"], c) for c in cases]
    # T: random longer strings, results recorded as events for TLC
    alph = ["F", "f", "O", "o", "B", "a", "A", "n", "#", "r", "N", "b", "R", "Z", "Ä", "ä"]
    extra = []
    n_extra = 4000 if tier == "quick" else 60000
    for _ in range(n_extra):
        vs = rnd.choice(enums)
        base = list(text(rnd.choice(vs)["name"]))
        op = rnd.random()
        if op < 0.4:     # case-mutated own name
            s = [ch.upper() if rnd.random() < 0.5 else ch.lower() for ch in base]
        elif op < 0.7:   # name with an edit
            s = list(base)
            s.insert(rnd.randrange(len(s) + 1), rnd.choice(alph))
        else:
            s = [rnd.choice(alph) for _ in range(rnd.randrange(4, 9))]
        extra.append((eidx[enum_key(vs)], "".join(s), vs, s))
    inp = "\n".join(f"{i}\t{s}" for i, s, _, _ in queries) + "\n" + "\n".join(f"{i}\t{s}" for i, s, _, _ in extra) + "\n"
    p = subprocess.run([br.exe], input=inp.encode(), stdout=subprocess.PIPE, stderr=subprocess.PIPE, timeout=1800)
    lines = p.stdout.decode().splitlines()
    nt = [l for l in lines if l.startswith("NT ")]
    res = [l for l in lines if not l.startswith("NT ")]
    if p.returncode != 0 or len(res) != len(queries) + len(extra):
        raise vlib.ToolError(f"probe failed rc={p.returncode}: {p.stderr.decode()[-500:]}")
    # newtypes
    k = 0
    for ty, corpus in NEWTYPES:
        for s in corpus:
            chk.cov["evaluations"] += 1
            if nt[k] != "NT 1":
                chk.deviation(f"newtype:{ty}:{s}", "a newtype's from_str differs from its field type's", case={"type": ty, "string": s},
                              expected="same value / same error", observed="different", tags={"kind": "newtype"})
            k += 1
    nontriv = 0
    for (i, s, doc, c), line in zip(queries, res):
        got, named = line.split("\t")
        got = int(got)
        chk.cov["evaluations"] += 1
        if doc != 0:
            nontriv += 1
        key = f"enum{{{enum_key(c['vs'])}}}:{s!r}"
        if got != doc:
            chk.deviation(key, f"from_str({s!r}) is {('variant %d' % got) if got else 'Err'}, the rule says "
                          f"{('variant %d' % doc) if doc else 'Err'}", case={"enum": enum_key(c["vs"]), "string": s},
                          expected=doc, observed=got, tags={"kind": "enum_parse"})
        elif got == 0 and named != "1":
            chk.deviation(key, "the error does not name the enum", case={"enum": enum_key(c["vs"]), "string": s},
                          expected="FromStrError naming the enum", observed="other text", tags={"kind": "error_text"})
    chk.cov["distinct_nontrivial"] += nontriv
    chk.cov["traces_validated_against_impl"] += len(queries)
    chk.sample({"enum": enum_key(queries[len(queries) // 2][3]["vs"]), "string": queries[len(queries) // 2][1],
                "expected_variant": queries[len(queries) // 2][2]})
    # trace validation of the random events
    os.makedirs(os.path.join(vlib.WORK, "c13"), exist_ok=True)
    tpath = os.path.join(vlib.WORK, "c13", "trace.ndjson")
    with open(tpath, "w") as f:
        for n, ((i, s, vs, chars), line) in enumerate(zip(extra, res[len(queries):])):
            f.write(json.dumps({"id": n, "vs": vs, "s": [UNSYM.get(ch, ch) for ch in chars], "result": int(line.split("\t")[0])}) + "\n")
    tr = vlib.run_tlc("Trace_FromStr", "Trace_FromStr", workers=1, timeout=1800, dfs=True, env={"TRACE": tpath}, xmx="6g")
    chk.add_tlc(tr, "trace validation of random strings")
    done = tr.tagged.get("DONE", [])
    if not done or done[0]["consumed"] != len(extra):
        raise vlib.ToolError(f"trace not consumed: {tr.raw_tail[-1500:]}")
    chk.cov["traces_validated_against_impl"] += len(extra)
    chk.cov["evaluations"] += len(extra)
    for b in tr.tagged.get("BAD", []):
        i, s, vs, chars = extra[b["id"]]
        chk.deviation(f"enum{{{enum_key(vs)}}}:{s!r}", f"trace event rejected: the rule says {b['expected']}",
                      case={"enum": enum_key(vs), "string": s}, expected=b["expected"], observed="see trace",
                      tags={"kind": "enum_parse"})
    chk.cov["rule"] = ("enums of <= MaxVariants variants from an 8-name pool x all strings <= MaxLen over 10 letters (TLC states) "
                       "+ random longer strings (trace-validated); non-trivial = the string parses to a variant")
