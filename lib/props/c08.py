"""C08 - From, Into and Constructor preserve field order and invert each other.

M : TLC checks Conv.tla: the documented impl set of derive(From) (one per listed type / tuple, none for skipped or
    unit variants, none for un-annotated variants once any carries #[from]) vs the transcription of from.rs'
    `has_explicit_from`; the components of Into's tuple conversion are the non-skipped fields in order.
R : every case becomes real types: all fields of a variant have ONE type (so a permutation still compiles) with
    distinguishable values; conversions are observed by value, reference forms by address, `types`/`forward`
    conversions through instrumented From impls that count their calls (exactly one per field); presence and
    absence of impls by trait-resolution probes; Into after From must be the identity; Constructor::new is
    checked for every arity (and as a const fn).
"""
import json
import os

import vlib
from vlib import log

PRELUDE = r'''
use core::sync::atomic::{AtomicUsize, Ordering};
pub static COUNT: AtomicUsize = AtomicUsize::new(0);
pub fn count() -> usize { COUNT.load(Ordering::SeqCst) }
macro_rules! tys { ($p:ident, $q:ident, $r:ident) => {
    #[derive(Clone, Copy, Debug, PartialEq)] #[repr(transparent)] pub struct $p(pub u8);
    #[derive(Clone, Copy, Debug, PartialEq)] pub struct $q(pub u8);
    #[derive(Clone, Copy, Debug, PartialEq)] pub struct $r(pub u8);
    // inherent methods named like the conversion methods: method-call syntax in an expansion would reach these
    impl $p { pub fn from<X>(_x: X) -> $p { $p(213) } pub fn into<X: From<$p>>(self) -> X { X::from($p(214)) } }
    // (the LISTED source types too: `value.0.into()` on a listed `#[from(Q)]` value would reach this one)
    impl $q { pub fn from<X>(_x: X) -> $q { $q(215) } pub fn into<X: From<$q>>(self) -> X { X::from($q(216)) } }
    impl $r { pub fn from<X>(_x: X) -> $r { $r(217) } }
    impl From<$q> for $p { fn from(q: $q) -> $p { COUNT.fetch_add(1, Ordering::SeqCst); $p(q.0) } }
    impl From<$p> for $r { fn from(p: $p) -> $r { COUNT.fetch_add(1, Ordering::SeqCst); $r(p.0) } }
} }
tys!(P1, Q1, R1); tys!(P2, Q2, R2); tys!(P3, Q3, R3);
// targets of listed Into types: owned, shared and mutable conversions, each counting its calls; the reference forms
// return a reference INTO the source field (same address), which repr(transparent) over u8 makes sound
macro_rules! conv { ($p:ident, $t:ident) => {
    #[derive(Clone, Copy, Debug, PartialEq)] #[repr(transparent)] pub struct $t(pub u8);
    impl From<$p> for $t { fn from(p: $p) -> $t { COUNT.fetch_add(1, Ordering::SeqCst); $t(p.0) } }
    impl<'a> From<&'a $p> for &'a $t { fn from(p: &'a $p) -> &'a $t { COUNT.fetch_add(1, Ordering::SeqCst); unsafe { &*(p as *const $p as *const $t) } } }
    impl<'a> From<&'a mut $p> for &'a mut $t { fn from(p: &'a mut $p) -> &'a mut $t { COUNT.fetch_add(1, Ordering::SeqCst); unsafe { &mut *(p as *mut $p as *mut $t) } } }
} }
conv!(P1, RS1); conv!(P2, RS2); conv!(P1, ZF1); conv!(P2, ZF2);
// modules named like the words the attribute grammars know: a listed type may be reached through them (`types::Q1`)
pub mod types { pub use super::*; } pub mod forward { pub use super::*; }
pub mod owned { pub use super::*; } pub mod ref_mut { pub use super::*; }
// on a struct, `#[from(skip)]` lists a type that happens to be called `skip`
#[allow(non_camel_case_types)] pub type skip = Q1; #[allow(non_camel_case_types)] pub type ignore = Q1;
macro_rules! impls { ($t:ty : $($tr:tt)+) => {{
    trait Fb { const V: bool = false; } impl<T: ?Sized> Fb for T {}
    struct W<T: ?Sized>(core::marker::PhantomData<T>);
    #[allow(dead_code)] impl<T: ?Sized + $($tr)+> W<T> { const V: bool = true; }
    <W<$t>>::V }} }
pub fn ad<T>(t: &T) -> usize { t as *const T as usize }
pub fn report(k: &str, rows: &[String]) { println!("OBS {{\"k\": {:?}, \"rows\": [{}]}}", k, rows.iter().map(|r| format!("{:?}", r)).collect::<Vec<_>>().join(", ")); }
'''


ALT_NAMES = ["value", "input", "from"]      # named like the expansions' own parameters / the trait's method


def fn(key, i):
    """name of the i-th named field: a, b, c - or, for a third of the cases each, names the expansions use themselves,
    and keywords as raw identifiers"""
    pick = vlib.seeded_pick(str(key), 29, 3)
    return ALT_NAMES[i] if pick == 0 else (["r#type", "r#fn", "r#match"][i] if pick == 1 else "abc"[i])


def tup(items):
    if len(items) == 0:
        return "()"
    if len(items) == 1:
        return items[0]
    return "(" + ", ".join(items) + ")"


def key_of(c):
    if c["kind"] == "into":
        i = c["into"]
        return (f"into|n{i['n']}|forms{sorted(i['forms'])}|sattr{int(i['sattr'])}|skip{sorted(i['skip'])}|f{i['fattr']}|"
                f"types{int(i['types'])}" + (f"|split:{i['split']}" if i["split"] != "one" else ""))
    return c["kind"] + "|" + ",".join(f"{v['n']}{v['attr']}" for v in c["vs"])


def genericize_decl(decl, key):
    """A twin of the declaration that is generic over its field types (inline bound on the first parameter, a where-clause
    ending in a comma on the last), reached by the rest of the module through a type alias of the original name, so
    values, patterns and impl probes stay as they are. Only where an alias can stand for the type: enums and structs
    with named fields; and only without listed conversion types (their impls are for concrete field types)."""
    import re as _re
    m = _re.search(r"pub (enum|struct) (E|S)( \{|\{)", decl)
    plain = _re.sub(r"#\[(from|into)\((skip|ignore)\)\]", "", decl)
    if not m or _re.search(r"\b(Q\d|R\d|RS\d|ZF\d|skip|ignore)\b", plain):
        return decl
    if "(forward)" in decl:
        return decl      # `impl<T, A> From<T> for E<A> where A: From<T>` overlaps core's `impl<T> From<T> for T`
    if len(set(_re.findall(r"\bV\d\b", decl))) > 1:
        return decl      # two generic variants' `From<(A1,)>` / `From<(A2,)>` overlap: one-variant enums only
    if vlib.seeded_pick(key, 41, 2) != 0:
        return decl
    used = sorted(set(_re.findall(r"\bP(\d)\b", decl[m.start():])))
    if not used:
        return decl
    name = m.group(2)
    body = _re.sub(r"\bP(\d)\b", r"A\1", decl[m.end():])
    params = ", ".join((f"A{u}: Clone" if i == 0 else f"A{u}") for i, u in enumerate(used))
    where = f" where A{used[-1]}: core::fmt::Debug,"
    head = decl[:m.start()]
    return (f"{head}pub {m.group(1)} {name}G<{params}>{where} {{{body}\npub type {name} = {name}G<{', '.join('P' + u for u in used)}>;")


def from_module(c, key):
    is_enum = c["kind"] == "from_enum"
    vs = c["vs"]
    named = [vlib.seeded_pick(key + str(j), 5, 2) == 0 for j in range(len(vs))]
    decls, rows, exp = [], [], []
    impls = {(k, j) for k, j in c["fromImpls"]}
    for j, v in enumerate(vs):
        P, Q = f"P{j + 1}", f"Q{j + 1}"
        n = v["n"]
        # half of the typed lists spell their types through modules named like attribute keywords
        kw = ["types", "forward"]
        qs = [f"{kw[(j + i) % 2]}::{Q}" for i in range(n)] if vlib.seeded_pick(key + str(j), 9, 2) == 0 else [Q] * n
        if not is_enum and n == 1 and j == 0 and vlib.seeded_pick(key, 19, 2) == 0:
            qs = [["skip", "ignore"][vlib.seeded_pick(key, 23, 2)]]      # type aliases of Q1 named like the variant keywords
        # a HETEROGENEOUS listed tuple for two or more fields: every second component is the field's own type (P: From<P>),
        # so a component handed to the wrong field no longer type-checks
        hetero = v["attr"] == "types" and n >= 2 and qs == [Q] * n
        if hetero:
            qs = [Q if i % 2 == 0 else P for i in range(n)]
        attr = {"none": "", "from": "#[from] ", "skip": "#[from(skip)] ", "forward": "#[from(forward)] ", "empty": "#[from()] ",
                "types": f"#[from({tup(qs)})] "}[v["attr"]]
        if not is_enum and v["attr"] in ("from", "skip"):
            attr = ""
        if n == 0:
            body = "" if (is_enum and named[j]) else ("()" if not named[j] else " {}")
            if not is_enum and body == "":
                body = ";"
        elif named[j]:
            body = " { " + ", ".join(f"{fn(key, i)}: {P}" for i in range(n)) + " }"
        else:
            body = "(" + ", ".join([P] * n) + ")"
        path = f"E::V{j}" if is_enum else "E"
        if is_enum:
            decls.append(f"{attr}V{j}{body}")
        else:
            decls.append((attr, body))
        if n == 0:
            pat = path + ("" if body in ("", ";") else body.strip() if body.strip() in ("()", "{}") else "")
        elif named[j]:
            pat = path + " { " + ", ".join(f"{fn(key, i)}: f{i}" for i in range(n)) + " }"
        else:
            pat = path + "(" + ", ".join(f"f{i}" for i in range(n)) + ")"
        fields_vec = ("vec![" + ", ".join(f"f{i}.0" for i in range(n)) + "]") if n else "Vec::<u8>::new()"
        other = ", _ => vec![255]" if is_enum and len(vs) > 1 else ""
        want = "[" + ", ".join(str(i + 1) for i in range(n)) + "]"
        # presence / absence of the plain tuple impl
        has_tuple = ["tuple", j + 1] in c["fromImpls"]
        has_types = ["types", j + 1] in c["fromImpls"]
        has_fwd = ["forward", j + 1] in c["fromImpls"]
        src_plain = tup([P] * n)
        # (`From<()>` is shared by all field-less variants: only checked when this is the only one)
        if not has_fwd and not (n == 0 and sum(1 for x in vs if x["n"] == 0) > 1):
            rows.append(f'rows.push(format!("has_tuple {j} {{}}", impls!(E: From<{src_plain}>)));')
            exp.append(f"has_tuple {j} {'true' if has_tuple else 'false'}")
        if has_tuple:
            vals = tup([f"{P}({i + 1})" for i in range(n)])
            rows.append(f'rows.push(format!("from_tuple {j} {{:?}}", match E::from({vals}) {{ {pat} => {fields_vec}{other} }}));')
            exp.append(f"from_tuple {j} {want}")
        if has_types or has_fwd:
            vals = tup([f"{(Q if (not (hetero and has_types) or i % 2 == 0) else P)}({i + 1})" for i in range(n)])
            kind = "types" if has_types else "forward"
            rows.append(f'{{ let c0 = count(); let e = E::from({vals}); let c1 = count(); rows.push(format!("from_{kind} {j} {{:?}} {{}}", match e {{ {pat} => {fields_vec}{other} }}, c1 - c0)); }}')
            # (one counted From::from per component that is not already the field's type)
            exp.append(f"from_{kind} {j} {want} {(n + 1) // 2 if (hetero and has_types) else n}")
    if is_enum:
        decl = "#[derive(derive_more::From, Debug)]\npub enum E { " + ", ".join(decls) + " }"
    else:
        attr, body = decls[0]
        decl = f"#[derive(derive_more::From, Debug)]\n{attr.strip()}\npub struct E{body}" + ("" if body.endswith(";") or body.strip().startswith("{") else ";")
    decl = genericize_decl(decl, key)
    mod = "use super::*;\n" + decl + "\npub fn run() { let mut rows: Vec<String> = vec![];\n    " + "\n    ".join(rows) + f"\n    report({json.dumps(key)}, &rows); }}"
    return mod, exp, decl


def into_module(c, key):
    i = c["into"]
    n, forms, sattr, skip, fattr, types = i["n"], sorted(i["forms"]), i["sattr"], set(i["skip"]), i["fattr"], i["types"]
    named = vlib.seeded_pick(key, 5, 2) == 0
    comps = list(c["intoComponents"])
    ftys = ["P2" if (f + 1) == fattr else "P1" for f in range(n)]
    # the single-field conversion of a lone non-skipped field of the same type would be implemented twice
    impl_keys = [tuple(x) for x in c["intoImpls"]]
    has_tuple_forms = [x[0] for x in impl_keys if x[1] == "tuple"]
    if fattr and has_tuple_forms and comps == [fattr]:
        return None
    struct_attr = ""
    if sattr:
        if types:
            struct_attr = "#[into(" + tup(["R" + ftys[f - 1][1] for f in comps]) + ")]\n"
        elif forms and i["split"] != "one":
            order = [f for f in ("owned", "ref", "ref_mut") if f in forms]
            if i["split"] == "rev":
                order.reverse()
            struct_attr = "".join(f"#[into({f})]\n" for f in order)
        elif forms:
            struct_attr = "#[into(" + ", ".join(forms) + ")]\n"
        else:
            struct_attr = "#[into]\n"
    fields = []
    for f in range(n):
        a = ("#[into(skip)] " if (f + 1) in skip else "") + ("#[into] " if (f + 1) == fattr else "")
        fields.append(f"{a}pub {fn(key, f)}: {ftys[f]}" if named else f"{a}pub {ftys[f]}")
    if n == 0:
        body = " {}" if named else "();"
    else:
        body = (" { " + ", ".join(fields) + " }") if named else ("(" + ", ".join(fields) + ");")
    derive_from = (not skip and not fattr and not types and n >= 1)
    decl = (f"#[derive(derive_more::Into{', derive_more::From' if derive_from else ''}, Clone, Copy, Debug, PartialEq)]\n"
            f"{struct_attr}pub struct S{body}")
    vals = [f"{ftys[f]}({f + 1})" for f in range(n)]
    if n == 0:
        init = "S {}" if named else "S()"
    else:
        init = ("S { " + ", ".join(f"{fn(key, f)}: {v}" for f, v in enumerate(vals)) + " }") if named else "S(" + ", ".join(vals) + ")"
    mem = lambda f: (fn(key, f - 1) if named else str(f - 1))
    rows, exp = [], []
    comp_tys = [ftys[f - 1] for f in comps]
    nc = len(comps)
    want_vals = "[" + ", ".join(str(f) for f in comps) + "]"

    def unpack(var, deref=""):
        if nc == 0:
            return "Vec::<u8>::new()"
        if nc == 1:
            return f"vec![{var}.0]"
        return "vec![" + ", ".join(f"{var}.{x}.0" for x in range(nc)) + "]"
    eff_forms = has_tuple_forms
    if not types and not (fattr and comps == [fattr]):
        rows.append(f'rows.push(format!("has_owned_tuple {{}}", impls!({tup(comp_tys)}: From<S>)));')
    if not types and not (fattr and comps == [fattr]):
        exp.append(f"has_owned_tuple {'true' if 'owned' in eff_forms else 'false'}")
    if not types and not (fattr and comps == [fattr]) and nc >= 1:
        # presence AND absence of the reference forms (the impl set is exactly the documented one)
        rt = tup(["&'static " + t for t in comp_tys])
        rows.append(f"rows.push(format!(\"has_ref_tuple {{}}\", impls!({rt}: From<&'static S>)));")
        exp.append(f"has_ref_tuple {'true' if 'ref' in eff_forms else 'false'}")
        rt = tup(["&'static mut " + t for t in comp_tys])
        rows.append(f"rows.push(format!(\"has_mut_tuple {{}}\", impls!({rt}: From<&'static mut S>)));")
        exp.append(f"has_mut_tuple {'true' if 'ref_mut' in eff_forms else 'false'}")
    if "owned" in eff_forms:
        if types:
            rt = tup(["R" + t[1] for t in comp_tys])
            rows.append(f'{{ let c0 = count(); let t: {rt} = s.into(); let c1 = count(); rows.push(format!("into_types {{:?}} {{}}", {unpack("t")}, c1 - c0)); }}')
            exp.append(f"into_types {want_vals} {nc}")
        else:
            rows.append(f'{{ let t: {tup(comp_tys)} = s.into(); rows.push(format!("into_owned {{:?}}", {unpack("t")})); }}')
            exp.append(f"into_owned {want_vals}")
            if derive_from:
                rows.append(f'{{ let t: {tup(comp_tys)} = s.into(); rows.push(format!("round_trip {{}}", S::from(t) == s)); }}')
                exp.append("round_trip true")
    if "ref" in eff_forms and nc >= 1:
        rt = tup(["&" + t for t in comp_tys])
        addr = "vec![ad(t)]" if nc == 1 else "vec![" + ", ".join(f"ad(t.{x})" for x in range(nc)) + "]"
        wantaddr = "vec![" + ", ".join(f"ad(&s.{mem(f)})" for f in comps) + "]"
        rows.append(f'{{ let t = <{rt}>::from(&s); rows.push(format!("into_ref {{}}", {addr} == {wantaddr})); }}')
        exp.append("into_ref true")
    if "ref_mut" in eff_forms and nc >= 1:
        rt = tup(["&mut " + t for t in comp_tys])
        setall = "t.0 = 200;" if nc == 1 else " ".join(f"t.{x}.0 = {200 + x};" for x in range(nc))
        got = "vec![" + ", ".join(f"m.{mem(f)}.0" for f in comps) + "]"
        wantm = "[" + ", ".join(str(200 + x) for x in range(nc)) + "]"
        rows.append(f'{{ let mut m = s; {{ let t = <{rt}>::from(&mut m); {setall} }} rows.push(format!("into_mut {{:?}}", {got})); }}')
        exp.append(f"into_mut {wantm}")
    if fattr:
        rows.append(f'{{ let t: P2 = s.into(); rows.push(format!("into_field {{}}", t.0)); }}')
        exp.append(f"into_field {fattr}")
    if nc >= 2 and not fattr:
        # (a single component would make the target a bare type parameter: `impl<A> From<S<A>> for A` is not a legal impl)
        decl = genericize_decl(decl, key)
    mod = ("use super::*;\n" + decl + f"\npub fn run() {{ let s = {init}; let mut rows: Vec<String> = vec![];\n    " + "\n    ".join(rows) +
           f"\n    report({json.dumps(key)}, &rows); }}")
    return mod, exp, decl


def into_attr_text(a, typed_target):
    """the text of one #[into(...)] attribute for a content record of IntoAttr.tla"""
    if a["k"] == "none":
        return ""
    if a["k"] == "top":
        return f"#[into({typed_target})] "
    if a["k"] == "parens0":
        return "#[into()] "
    parts = []
    for f in ("owned", "ref", "ref_mut"):
        if a[f] == "bare":
            parts.append(f)
        elif a[f] == "typed":
            parts.append(f"{f}({typed_target})")
        elif a[f] == "both":
            parts += [f, f"{f}({typed_target})"]
    return "#[into(" + ", ".join(parts) + ")] " if parts else "#[into] "


def into2_module(c, key):
    """IntoAttr.tla: the full attribute grammar (per-form bare / typed conversions on the struct and on one field)"""
    st = c["st"]
    n, skip, sa, fk, fa = st["n"], set(st["skip"]), st["sa"], st["fk"], st["fa"]
    comps = list(c["comps"])
    impls = {tuple(x) for x in c["impls"]}
    named = vlib.seeded_pick(key, 7, 2) == 0
    ftys = ["P2" if (f + 1) == fk else "P1" for f in range(n)]
    mem = lambda f: (fn(key, f - 1) if named else str(f - 1))
    comp_tys = [ftys[f - 1] for f in comps]
    comp_typed = ["RS" + t[1] for t in comp_tys]
    kwm = ["owned", "ref_mut", "types", "forward"]
    spelled = [f"{kwm[i % 4]}::{t}" for i, t in enumerate(comp_typed)] if vlib.seeded_pick(key, 13, 2) == 0 else comp_typed
    s_typed_target = tup(spelled) if len(spelled) != 1 else spelled[0]
    struct_attr = into_attr_text(sa, s_typed_target).strip()
    fields = []
    for f in range(n):
        a = ("#[into(skip)] " if (f + 1) in skip else "") + (into_attr_text(fa, "ZF2") if (f + 1) == fk else "")
        fields.append(f"{a}pub {fn(key, f)}: {ftys[f]}" if named else f"{a}pub {ftys[f]}")
    if n == 0:
        body = " {}" if named else "();"
    else:
        body = (" { " + ", ".join(fields) + " }") if named else ("(" + ", ".join(fields) + ");")
    decl = f"#[derive(derive_more::Into, Clone, Copy, Debug, PartialEq)]\n{struct_attr}\npub struct S{body}"
    vals = [f"{ftys[f]}({f + 1})" for f in range(n)]
    if n == 0:
        init = "S {}" if named else "S()"
    else:
        init = ("S { " + ", ".join(f"{fn(key, f)}: {v}" for f, v in enumerate(vals)) + " }") if named else "S(" + ", ".join(vals) + ")"
    REF = {"owned": "", "ref": "&'static ", "ref_mut": "&'static mut "}
    SRC = {"owned": "S", "ref": "&'static S", "ref_mut": "&'static mut S"}
    # every conversion target that could exist, and whether the documented impl set has it
    targets = {}      # (form, target text) -> [impl, ...]
    cand = []
    for form in ("owned", "ref", "ref_mut"):
        cand.append((("struct", form, "bare"), comp_tys))
        if comps:
            cand.append((("struct", form, "typed"), comp_typed))
        if fk:
            cand.append((("field", form, "bare"), ["P2"]))
            cand.append((("field", form, "typed"), ["ZF2"]))
    rows, exp = [], []
    for impl, tys in cand:
        form = impl[1]
        t = tup([REF[form] + x for x in tys])
        targets.setdefault((form, t), []).append(impl)
    for (form, t), il in targets.items():
        rows.append(f"rows.push(format!(\"has {form} {t} {{}}\", impls!({t}: From<{SRC[form]}>)));")
        exp.append(f"has {form} {t} {'true' if any(i in impls for i in il) else 'false'}")
    # behaviour of every documented impl
    for impl in sorted(impls):
        level, form, kind = impl
        if level == "struct":
            idx, tys = comps, (comp_tys if kind == "bare" else comp_typed)
        else:
            idx, tys = [fk], (["P2"] if kind == "bare" else ["ZF2"])
        nc = len(idx)
        calls = nc if kind == "typed" else 0
        tag = f"{level} {form} {kind}"
        get = (lambda var, x: f"{var}.0" if nc == 1 else f"{var}.{x}.0")
        if form == "owned":
            t = tup(tys)
            vec = "Vec::<u8>::new()" if nc == 0 else "vec![" + ", ".join(get("t", x) for x in range(nc)) + "]"
            rows.append(f'{{ let c0 = count(); let t: {t} = s.into(); let c1 = count(); rows.push(format!("{tag} {{:?}} {{}}", {vec}, c1 - c0)); }}')
            exp.append(f"{tag} {[i for i in idx]} {calls}")
        elif form == "ref" and nc >= 1:
            t = tup(["&" + x for x in tys])
            addr = "vec![ad(t)]" if nc == 1 else "vec![" + ", ".join(f"ad(t.{x})" for x in range(nc)) + "]"
            want = "vec![" + ", ".join(f"ad(&s.{mem(f)})" for f in idx) + "]"
            rows.append(f'{{ let c0 = count(); let t = <{t}>::from(&s); let c1 = count(); rows.push(format!("{tag} {{}} {{}}", {addr} == {want}, c1 - c0)); }}')
            exp.append(f"{tag} true {calls}")
        elif form == "ref_mut" and nc >= 1:
            t = tup(["&mut " + x for x in tys])
            setall = "t.0 = 200;" if nc == 1 else " ".join(f"t.{x}.0 = {200 + x};" for x in range(nc))
            got = "vec![" + ", ".join(f"m.{mem(f)}.0" for f in idx) + "]"
            rows.append(f'{{ let mut m = s; let c0 = count(); {{ let t = <{t}>::from(&mut m); {setall} }} let c1 = count(); rows.push(format!("{tag} {{:?}} {{}}", {got}, c1 - c0)); }}')
            exp.append(f"{tag} {[200 + x for x in range(nc)]} {calls}")
    mod = ("use super::*;\n" + decl + f"\npub fn run() {{ let s = {init}; let mut rows: Vec<String> = vec![];\n    " + "\n    ".join(rows) +
           f"\n    report({json.dumps(key)}, &rows); }}")
    return mod, exp, decl


def key_of_into2(c):
    st = c["st"]

    def a(x):
        if x["k"] != "forms":
            return x["k"]
        return "/".join(f"{f}:{x[f]}" for f in ("owned", "ref", "ref_mut") if x[f] != "no") or "empty"
    return f"into2|n{st['n']}|skip{sorted(st['skip'])}|s[{a(st['sa'])}]|f{st['fk']}[{a(st['fa'])}]"


def constructor_modules():
    out = []
    for n in range(0, 4):
        for named in (False, True, "alt", "raw"):
            k = f"constructor|n{n}|{'named' if named is True else ('tuple' if not named else 'named_' + named)}"
            if named in ("alt", "raw") and n == 0:
                continue
            # "raw": fields named by keywords (`r#type`): the parameters of `new` are those fields' names
            name_of = (lambda f: ["r#type", "r#fn", "r#match"][f]) if named == "raw" else (lambda f: fn(k, f))
            if n == 0:
                body = " {}" if named else "();"
            else:
                body = (" { " + ", ".join(f"pub {name_of(f)}: P1" for f in range(n)) + " }") if named else ("(" + ", ".join(["pub P1"] * n) + ");")
            args = ", ".join(f"P1({f + 1})" for f in range(n))
            got = "vec![" + ", ".join(f"s.{(name_of(f) if named else f)}.0" for f in range(n)) + "]" if n else "Vec::<u8>::new()"
            want = "[" + ", ".join(str(f + 1) for f in range(n)) + "]"
            mod = (f"use super::*;\n#[derive(derive_more::Constructor)]\npub struct S{body}\npub const C: S = S::new({args});\n"
                   f"pub fn run() {{ let s = S::new({args}); let mut rows: Vec<String> = vec![]; rows.push(format!(\"new {{:?}}\", {got}));\n"
                   f"    report({json.dumps(k)}, &rows); }}")
            out.append((k, mod, [f"new {want}"], mod))
    return out


def lifetime_modules():
    """Types with a lifetime parameter of their own (a borrowed field, and an INVARIANT one: Cell<&'a _>): the reference forms
    borrow the struct for the duration of the conversion's own lifetime only - two mutable conversions in a row, a use
    of the struct between and after them, and finally the owned conversion all compile and see the same objects."""
    out = []
    for forms in (["owned"], ["ref"], ["ref_mut"], ["owned", "ref"], ["ref", "ref_mut"], ["owned", "ref", "ref_mut"]):
        for named in (False, True):
            k = f"lifetimes|{'named' if named else 'tuple'}|{','.join(forms)}"
            attr = f"#[into({', '.join(forms)})]"
            body = "{ pub a: &'a P1, pub b: core::cell::Cell<&'a P2> }" if named else "(pub &'a P1, pub core::cell::Cell<&'a P2>);"
            fa, fb = ("a", "b") if named else ("0", "1")
            init = f"S {{ a: &p1, b: core::cell::Cell::new(&p2) }}" if named else "S(&p1, core::cell::Cell::new(&p2))"
            rows, exp = [], []
            if "ref" in forms:
                rows.append(f'{{ let (x, y): (&&P1, &core::cell::Cell<&P2>) = (&s).into(); rows.push(format!("ref {{}} {{}}", ad(x) == ad(&s.{fa}), ad(y) == ad(&s.{fb}))); }}')
                exp.append("ref true true")
                rows.append(f's.{fb}.set(&p2b); rows.push(format!("after_ref {{}}", s.{fb}.get().0));')
                exp.append("after_ref 22")
            if "ref_mut" in forms:
                rows.append(f'{{ let (x, _y): (&mut &P1, &mut core::cell::Cell<&P2>) = (&mut s).into(); *x = &p1b; }}')
                rows.append(f'{{ let (_x, y): (&mut &P1, &mut core::cell::Cell<&P2>) = (&mut s).into(); y.set(&p2); }}')
                rows.append(f'rows.push(format!("after_mut {{}} {{}}", s.{fa}.0, s.{fb}.get().0));')
                exp.append("after_mut 11 2")
            if "owned" in forms:
                rows.append(f'{{ let (x, y): (&P1, core::cell::Cell<&P2>) = s.into(); rows.push(format!("owned {{}} {{}}", x.0, y.get().0)); }}')
                exp.append("owned " + ("11" if "ref_mut" in forms else "1") + " " + ("2" if "ref_mut" in forms or "ref" not in forms else "22"))
            mod = (f"use super::*;\n#[derive(derive_more::Into)]\n{attr}\npub struct S<'a>{' ' if named else ''}{body}\n"
                   f"pub fn run() {{ let (p1, p1b, p2, p2b) = (P1(1), P1(11), P2(2), P2(22)); let _ = (&p1b, &p2b);\n"
                   f"    #[allow(unused_mut)] let mut s = {init}; let mut rows: Vec<String> = vec![];\n    " + "\n    ".join(rows) +
                   f"\n    report({json.dumps(k)}, &rows); }}")
            out.append((k, mod, exp, mod))
    return out


def run(chk, tier, seed, replay):
    chk.assumptions += ["all fields of one variant/struct share one tagged type (a permutation would still compile); values 1..n",
                        "typed / forwarded conversions go through instrumented From impls counting their calls"]
    r = vlib.run_tlc("MC_Conv", f"MC_Conv_{tier}", workers=4, timeout=1800, xmx="4g")
    chk.add_tlc(r, "From/Into cases")
    if not r.ok:
        raise vlib.ToolError(f"TLC: {r.violation}\n{r.raw_tail[-1500:]}")
    mods, exps = [], {}
    for c in r.cases:
        k = key_of(c)
        res = into_module(c, k) if c["kind"] == "into" else from_module(c, k)
        if res is None:
            continue
        m, e, d = res
        if not e:
            continue
        mods.append((k, m))
        exps[k] = (e, d)
    r2 = vlib.run_tlc("MC_IntoAttr", f"MC_IntoAttr_{tier}", workers=4, timeout=1800, xmx="4g")
    chk.add_tlc(r2, "Into attribute grammar")
    if not r2.ok:
        raise vlib.ToolError(f"TLC: {r2.violation}\n{r2.raw_tail[-1500:]}")
    into2 = {key_of_into2(c): c for c in r2.cases}
    sel = vlib.cap_cases(into2.keys(), seed, 2400 if tier == "quick" else 12000)
    for k, c in into2.items():
        if k in sel:
            m, e, d = into2_module(c, k)
            mods.append((k, m))
            exps[k] = (e, d)
    chk.notes["into_attr_cases"] = {"model": len(into2), "compiled": len(sel)}
    for k, m, e, d in constructor_modules() + lifetime_modules():
        mods.append((k, m))
        exps[k] = (e, d)
    if replay:
        want = json.load(open(replay))["key"]
        mods = [x for x in mods if x[0] == want]
    chk.cov["exhaustive"] = not replay
    log(f"[C08] {len(mods)} conversion cases")
    nsh = 4
    shards = [mods[i::nsh] for i in range(nsh)]
    import concurrent.futures as cf

    def buildc(i):
        if not shards[i]:
            return {}, {}, None
        return vlib.run_case_crate(f"c08_{i}", shards[i], prelude=PRELUDE, target_dir=os.path.join(vlib.BUILD, f"target-c08-{i}"),
                                   features=("from", "into", "constructor"))
    with cf.ThreadPoolExecutor(max_workers=nsh) as ex:
        results = list(ex.map(buildc, range(nsh)))
    for i, (obs, failed, br) in enumerate(results):
        for k, mod in shards[i]:
            exp, decl = exps[k]
            chk.cov["evaluations"] += len(exp)
            chk.cov["distinct_nontrivial"] += 1
            if k in failed:
                chk.deviation(k, "a documented conversion derive does not compile (or an impl the rule promises is missing): "
                              + failed[k][0]["message"][:200], case={"module": mod}, expected=exp, observed=failed[k][:3],
                              tags={"kind": "compile_error"})
                continue
            o = obs.get(k)
            if o is None or o.get("crashed"):
                chk.deviation(k, "no observation", case={"module": mod}, expected=exp, observed=o, tags={"kind": "crash"})
                continue
            if o["rows"] != exp:
                diff = [(g, w) for g, w in zip(o["rows"], exp) if g != w][:4]
                chk.deviation(k, f"conversion result / impl set differs from the contract (got, want): {diff}",
                              case={"module": mod}, expected=exp, observed=o["rows"], tags={"kind": "conversion"})
            if len(chk.cov["samples"]) < 4 and len(exp) > 2:
                chk.sample({"decl": decl, "rows": exp})
        chk.cov["traces_validated_against_impl"] += len(shards[i])
    chk.cov["rule"] = ("From: struct/enum shapes x per-variant attribute (none, #[from], skip, types, forward); Into: arity x forms x "
                       "struct attribute x skipped subset x field-level attribute x types; Constructor: arity 0..3 tuple/named")
