"""C03 - format literals are interpreted exactly as std::fmt interprets them.

M : TLC checks FmtGrammar (Std* vs Dm*) on every string <= MaxLen and on every grammar derivation.
R : every TLC case is replayed into the real literal parser (in-process, working-tree source) and,
    for the implicit counter, through real expansions (where-clause); std-rejected literals must not
    take the transparent path, and a sample goes through the real derive + rustc.
R0: the Std* layer itself is validated against the real `format_args!` (rustc verdicts).
T : one-edit neighbours and random long literals are parsed by the real parser, the recorded
    events are validated by TLC (Trace_FmtGrammar).
"""
import json
import os
import random
import hashlib
import concurrent.futures as cf

import vlib
from vlib import log

CHARMAP = {"U2": "é", "C2": "·", "U3": "€", "U4": "\U0001F600", "T": "\t", "W3": "\u3000"}
INV = {v: k for k, v in CHARMAP.items()}


def real(chars):
    return "".join(CHARMAP.get(c, c) for c in chars)


def abstract(s):
    return [INV.get(c, c) for c in s]


def _arg_t(a):
    if a["k"] == "none":
        return None
    t = real(a["txt"])
    return ("int", str(int(t))) if a["k"] == "int" else ("id", t)


def _cnt_t(c):
    if c["k"] == "none":
        return None
    if c["k"] == "int":
        return ("int", str(int(real(c["arg"]["txt"]))))
    return ("param", _arg_t(c["arg"]))


def canon_tlc(ph):
    sp = ph["spec"]
    spec = None
    if ph["hasSpec"]:
        spec = (real([sp["fillc"]]) if sp["fill"] else None, sp["align"], sp["sign"], sp["alt"], sp["zero"],
                _cnt_t(sp["width"]), "star" if sp["star"] else _cnt_t(sp["prec"]), sp["ty"])
    return (_arg_t(ph["arg"]), spec)


def _arg_h(a):
    if a is None:
        return None
    if "int" in a:
        return ("int", str(int(a["int"])))
    return ("id", a["id"])


def _cnt_h(c):
    if c is None:
        return None
    if c == "star":
        return "star"
    if "int" in c:
        return ("int", str(int(c["int"])))
    return ("param", _arg_h(c["param"]))


def canon_harness(f):
    sp = f["spec"]
    spec = None
    if sp is not None:
        spec = (sp["fill"], sp["align"] or "none", sp["sign"] or "none", sp["alt"], sp["zero"],
                _cnt_h(sp["width"]), _cnt_h(sp["prec"]), sp["ty"])
    return (_arg_h(f["arg"]), spec)


TRAITS = ["Display", "Debug", "Octal", "LowerHex", "UpperHex", "Pointer", "Binary", "LowerExp", "UpperExp"]


def tlc_cases(chk, tier):
    out = []
    maxlen = 4 if tier == "quick" else 5
    cfg = f"MC_FmtStrings_{tier}"
    # TLC checks every string; the replay keeps every string <= 4 and (thorough) a fixed half of the longer ones, so that
    # the driver's memory stays bounded (4.5M records were 39 GB)
    keep = (lambda tag, c: tag != "CASE" or len(c["chars"]) <= 4 or vlib.seeded_pick("".join(c["chars"]), 0, 2) == 0) if tier == "thorough" else None
    r = vlib.run_tlc("MC_FmtStrings", cfg, workers=8, timeout=3000, xmx="8g", keep=keep)
    chk.notes["strings_emitted_by_tlc"] = r.emitted.get("CASE", 0)
    chk.add_tlc(r, f"all strings <= {maxlen}")
    if not r.ok:
        raise SpecViolation("MC_FmtStrings", r)
    out += r.cases
    # (the thorough derivation space is ~4.2M literals: TLC checks them all, the replay takes a fixed twelfth)
    keep2 = (lambda tag, c: tag != "CASE" or vlib.seeded_pick("".join(c["chars"]), 1, 12) == 0) if tier == "thorough" else None
    r2 = vlib.run_tlc("MC_FmtDeriv", f"MC_FmtDeriv_{tier}", workers=8, timeout=3000, xmx="8g", keep=keep2)
    chk.notes["derivations_emitted_by_tlc"] = r2.emitted.get("CASE", 0)
    chk.add_tlc(r2, "grammar derivations")
    if not r2.ok:
        raise SpecViolation("MC_FmtDeriv", r2)
    out += r2.cases
    # the unbounded part: the implicit counter as a machine consuming one placeholder per step (FmtCounter.tla; the two TLC
    # runs above have folded the same step operator over every bounded literal: P_C03_Machine)
    proofs = [vlib.run_apalache("FmtCounter", ["--init=Init", "--inv=IndInv", "--length=0"]),
              vlib.run_apalache("FmtCounter", ["--init=IndInv", "--inv=IndInv", "--length=1"]),
              vlib.run_apalache("FmtCounter", ["--init=IndInv", "--next=NextBroken", "--inv=IndInv", "--length=1"], expect_error=True),
              vlib.run_tlapm("FmtCounter_proofs")]
    chk.notes["unbounded"] = proofs
    for p in proofs:
        if not p["ok"]:
            raise vlib.ToolError(f"FmtCounter: {p}")
    return out


class SpecViolation(Exception):
    def __init__(self, module, res):
        self.module, self.res = module, res
        super().__init__(f"TLC reports a violation in {module}: {res.violation}\n{res.raw_tail[-1500:]}")


# --------------------------------------------------------------------------------------------
# R0: Std* against the real format_args!
# --------------------------------------------------------------------------------------------
NPOS = 4
NAMES = ["a", "x", "_0"]
NARGS = NPOS + len(NAMES)      # a position past the positional arguments denotes a named one (rustc only lints that)


def refs_ok(case):
    """argument-dependent validity: every reference denotes a supplied argument"""
    for ph in case["phs"]:
        # a literal count (`{:21}`) is a number, not a reference: only `{:1$}` / `{:.1$}` denote arguments
        refs = [ph["arg"]] + [ph["spec"][c]["arg"] for c in ("width", "prec") if ph["spec"][c]["k"] == "param"]
        for a in refs:
            if a["k"] == "int" and int(real(a["txt"])) >= NARGS:
                return False
    for r in case["res"]:
        if r["ref"]["k"] == "p" and r["ref"]["n"] >= NARGS:
            return False
        if r["precFrom"] != 99 and r["precFrom"] >= NARGS:
            return False
    return True


def std_probe_snippet(lit):
    pos = ", ".join(f"P({i})" for i in range(NPOS))
    named = ", ".join(f"{n} = P({20 + i})" for i, n in enumerate(NAMES))
    use_all = "".join("{%d:?}" % i for i in range(NPOS)) + "".join("{%s:?}" % n for n in NAMES)
    return f"pub fn f() {{ let _ = format_args!({vlib.rust_str(use_all + lit)}, {pos}, {named}); }}"


PRELUDE_P = "pub struct P(pub usize);\n" + "".join(
    f"impl core::fmt::{t} for P {{ fn fmt(&self, _: &mut core::fmt::Formatter<'_>) -> core::fmt::Result {{ Ok(()) }} }}\n"
    for t in ["Display", "Debug", "Octal", "LowerHex", "UpperHex", "Pointer", "Binary", "LowerExp", "UpperExp"])


def std_validate(chk, cases, tier):
    """rustc's verdict on each literal vs StdOk. Any disagreement outside OutOfScope is a defect
    of the *specification* (tool error), never a property verdict."""
    todo = []
    seen = set()
    for c in cases:
        lit = real(c["chars"])
        if lit in seen:
            continue
        seen.add(lit)
        if "{" not in lit and "}" not in lit and vlib.seeded_pick(lit, 0, 50) != 0:
            continue   # plain text: trivially accepted by both; a 2% sample is still compiled
        if lit.startswith("{}") and lit.endswith("{:?}") and len(lit) > 8:
            continue   # the "second" context repeats the bare derivation between two fixed placeholders
        if tier == "thorough" and len(c["chars"]) > 4 and vlib.seeded_pick(lit, 0, 96) != 0:
            continue   # rustc cannot compile millions of probes: every string <= 4 plus a fixed 1/96 of the longer ones
        todo.append((lit, c))
    todo.sort(key=lambda t: t[0])
    h = hashlib.sha1()
    h.update(open(os.path.join(vlib.SPEC, "FmtGrammar.tla"), "rb").read())
    for lit, c in todo:
        h.update(lit.encode())
        h.update(b"1" if c["stdOk"] else b"0")
    digest = h.hexdigest()[:20]
    marker = os.path.join(vlib.SPEC, "validated", f"FmtGrammar.{tier}.json")
    if os.path.exists(marker):
        m = json.load(open(marker))
        if m.get("digest") == digest:
            chk.notes["std_validation"] = dict(m, cached=True)
            return
    if tier == "quick" and os.environ.get("VERIF_FORCE_STD_VALIDATION") != "1" and os.path.exists(marker):
        # the spec or the case set changed since the last validation: redo it (below)
        pass
    log(f"[C03] validating Std* against rustc on {len(todo)} literals")
    par = 12 if tier == "quick" else 6           # concurrent rustc processes (one probe crate each)
    per = 9000 if tier == "quick" else 6000      # probes per crate (rustc stays below ~3 GB / ~2 GB)
    nshards = par * max(1, -(-len(todo) // (par * per)))
    shards = [todo[i::nshards] for i in range(nshards)]

    def run(i):
        snips = [(lit, std_probe_snippet(lit)) for lit, _ in shards[i]]
        per, r = vlib.verdict_crate(f"c03_std_{i % par}", snips, prelude=PRELUDE_P, features=("display",),
                                    target_dir=os.path.join(vlib.BUILD, f"target-std-{i % par}"), jobs=2)
        return per, r

    disagreements = []
    oos = 0
    results = []
    for rnd in range(nshards // par):            # rounds of `par` crates; slot i % par is reused between rounds
        with cf.ThreadPoolExecutor(max_workers=par) as ex:
            results += list(ex.map(run, range(rnd * par, (rnd + 1) * par)))
    for i, (per, r) in enumerate(results):
        for lit, c in shards[i]:
            errs = [d for d in per[lit] if d["level"] == "error" and not d["code"]]
            rustc_ok = not errs
            expect_ok = c["stdOk"] and refs_ok(c)
            if c["oos"]:
                oos += 1
                continue
            if rustc_ok != expect_ok:
                disagreements.append({"lit": lit, "chars": c["chars"], "spec_ok": expect_ok, "rustc_ok": rustc_ok,
                                      "msg": errs[0]["message"] if errs else None})
    summary = {"digest": digest, "literals": len(todo), "out_of_scope": oos, "disagreements": len(disagreements)}
    chk.notes["std_validation"] = summary
    if disagreements:
        p = os.path.join(vlib.WORK, "c03_std_disagreements.json")
        json.dump(disagreements, open(p, "w"), indent=1, ensure_ascii=False)
        raise vlib.ToolError(f"Std* layer of FmtGrammar.tla disagrees with rustc on {len(disagreements)} literals, "
                             f"e.g. {disagreements[:5]} (full list: {p})")
    os.makedirs(os.path.dirname(marker), exist_ok=True)
    json.dump(summary, open(marker, "w"), indent=1)


# --------------------------------------------------------------------------------------------
# R: replay into the real parser and expansions
# --------------------------------------------------------------------------------------------

def replay_parser(chk, cases):
    reqs = []
    by_key = {}
    for c in cases:
        lit = real(c["chars"])
        if lit in by_key:
            continue
        by_key[lit] = c
        reqs.append({"key": lit, "lit": lit})
    obs = vlib.run_inproc("parse-fmt", reqs)
    n_nontrivial = 0
    for lit, c in by_key.items():
        o = obs.get(lit)
        chk.cov["evaluations"] += 1
        if o is None:
            raise vlib.ToolError(f"no observation for literal {lit!r}")
        if o["outcome"] in ("panic", "crash", "timeout"):
            chk.deviation(f"lit:{lit}", f"literal parser {o['outcome']}: {o.get('msg')} at {o.get('loc')}",
                          case=c, expected="a parse result", observed=o, tags={"kind": "parser_" + o["outcome"]})
            continue
        if c["oos"]:
            chk.notes["out_of_scope"] = chk.notes.get("out_of_scope", 0) + 1
            continue
        if c["stdOk"]:
            exp = [canon_tlc(p) for p in c["phs"]]
            if exp:
                n_nontrivial += 1
            got = None if o["outcome"] == "none" else [canon_harness(f) for f in o["formats"]]
            if got != exp:
                chk.deviation(f"lit:{lit}", "placeholders recognised differ from std::fmt's",
                              case={"literal": lit, "chars": c["chars"]}, expected=exp, observed=got,
                              tags={"kind": "parse_mismatch"})
            if len(chk.cov["samples"]) < 3 and exp and exp[0][1] is not None:
                chk.sample({"literal": lit, "expected_placeholders": exp, "real_parser": got})
    chk.cov["distinct_nontrivial"] += n_nontrivial
    chk.cov["traces_validated_against_impl"] += len(by_key)
    return by_key, obs


def replay_counter(chk, by_key):
    """implicit counter / resolved arguments, observed through the where-clause of real expansions"""
    reqs = []
    exp = {}
    for lit, c in by_key.items():
        if not c["stdOk"] or c["oos"] or not c["res"]:
            continue
        want = set()
        ok = True
        for r in c["res"]:
            ref = r["ref"]
            if ref["k"] == "p":
                if ref["n"] >= 4:
                    ok = False
                    break
                want.add((ref["n"], r["trait"]))
            else:
                nm = real(ref["name"])
                if nm.startswith("_") and nm[1:].isdigit() and int(nm[1:]) < 4 and str(int(nm[1:])) == nm[1:]:
                    want.add((int(nm[1:]), r["trait"]))
        if not ok:
            continue
        item = f"#[display({vlib.rust_str(lit)}, _0, _1, _2, _3)] struct S<A, B, C, D>(A, B, C, D);"
        reqs.append({"key": lit, "derive": "Display", "item": item, "tokens": False})
        exp[lit] = want
    obs = vlib.run_inproc("expand", reqs)
    params = {"A": 0, "B": 1, "C": 2, "D": 3}
    for lit, want in exp.items():
        o = obs[lit]
        chk.cov["evaluations"] += 1
        if o["outcome"] != "ok":
            chk.deviation(f"ctr:{lit}", f"expansion of a std-accepted literal: {o['outcome']} {o.get('msg')}",
                          case={"literal": lit}, expected="Ok", observed=o, tags={"kind": "expand_" + o["outcome"]})
            continue
        got = set()
        for im in o["impls"]:
            for w in im["where"]:
                parts = w.split(":", 1)
                if len(parts) == 2 and parts[0].strip() in params:
                    got.add((params[parts[0].strip()], parts[1].strip().split("::")[-1].strip()))
        if got != want:
            chk.deviation(f"ctr:{lit}", "arguments the placeholders resolve to (seen through inferred bounds) "
                          "differ from format_args!'s", case={"literal": lit, "args": "_0,_1,_2,_3"},
                          expected=sorted(want), observed=sorted(got), tags={"kind": "counter_mismatch"})
    chk.cov["traces_validated_against_impl"] += len(exp)


def replay_rejects(chk, by_key, tier, seed):
    """std rejects => the derive must not side-step format_args!"""
    reqs = []
    for lit, c in by_key.items():
        if c["grammarOk"] and c["stdOk"]:
            continue
        item = f"#[display({vlib.rust_str(lit)}, _0)] struct S(i32);"
        reqs.append({"key": lit, "derive": "Display", "item": item, "tokens": False, "lit": lit})
        # the same literal WITHOUT arguments on the shapes that have their own code paths: a field-less struct, a field-less
        # variant (variant-level attribute), an enum-level attribute, a Debug field, a two-field struct
        if vlib.seeded_pick(lit, 53, 3) != 0 and len(lit) > 3:
            continue      # (every short literal, a third of the longer ones)
        for sk, it, dv in (("unit", f"#[display({vlib.rust_str(lit)})] struct S;", "Display"),
                           ("unitvariant", f"enum S {{ #[display({vlib.rust_str(lit)})] V, W }}", "Display"),
                           ("shared", f"#[display({vlib.rust_str(lit)})] enum S {{ V, W(i32) }}", "Display"),
                           ("debugfield", f"struct S {{ #[debug({vlib.rust_str(lit)})] a: i32, b: u8 }}", "Debug"),
                           ("two", f"#[lower_hex({vlib.rust_str(lit)})] struct S(i32, u8);", "LowerHex")):
            reqs.append({"key": f"{sk}|{lit}", "derive": dv, "item": it, "tokens": False, "lit": lit, "shape": sk})
    obs = vlib.run_inproc("expand", reqs)
    rejected = []
    for rq in reqs:
        lit = rq["lit"]
        o = obs[rq["key"]]
        if rq.get("shape"):
            # (only the verdict "never silently accepted" is taken from the extra shapes)
            chk.cov["evaluations"] += 1
            if o["outcome"] == "ok":
                bodies = " ".join(f["body"] for im in o["impls"] for f in im["fns"])
                if "write !" not in bodies and "format_args !" not in bodies:
                    chk.deviation(f"rej:{rq['key']}", "a literal std::fmt rejects is silently accepted (never reaches format_args!)",
                                  case={"literal": lit, "item": rq["item"]}, expected="literal handed to write!() / format_args!()",
                                  observed=bodies[:400], tags={"kind": "silent_accept"})
            elif o["outcome"] != "err":
                chk.deviation(f"rej:{rq['key']}", f"expansion {o['outcome']}: {o.get('msg')} at {o.get('loc')}",
                              case={"literal": lit, "item": rq["item"]}, expected="Err or write!(..literal..)", observed=o,
                              tags={"kind": "expand_" + o["outcome"]})
            continue
        chk.cov["evaluations"] += 1
        if o["outcome"] == "err":
            continue
        if o["outcome"] != "ok":
            chk.deviation(f"rej:{lit}", f"expansion {o['outcome']}: {o.get('msg')} at {o.get('loc')}",
                          case={"literal": lit}, expected="Err or write!(..literal..)", observed=o,
                          tags={"kind": "expand_" + o["outcome"]})
            continue
        bodies = " ".join(f["body"] for im in o["impls"] for f in im["fns"])
        if "write !" not in bodies:
            chk.deviation(f"rej:{lit}", "a literal std::fmt rejects is silently accepted (never reaches format_args!)",
                          case={"literal": lit, "item": rq["item"]}, expected="literal handed to write!()",
                          observed=bodies[:400], tags={"kind": "silent_accept"})
        rejected.append(lit)
    # a seeded sample through the real derive + rustc: must fail to compile
    n = 150 if tier == "quick" else 1500
    sample = sorted(rejected, key=lambda l: vlib.seeded_pick(l, seed, 1 << 30))[:n]
    snips = [(lit, f"#[derive(derive_more::Display)]\n#[display({vlib.rust_str(lit)}, _0)]\npub struct S(pub i32);")
             for lit in sample]
    per, r = vlib.verdict_crate("c03_reject", snips, features=("display",))
    for lit in sample:
        chk.cov["evaluations"] += 1
        errs = [d for d in per[lit] if d["level"] == "error"]
        if not errs:
            chk.deviation(f"rejc:{lit}", "derive compiles although std::fmt rejects the literal",
                          case={"literal": lit}, expected="compile error", observed="compiled",
                          tags={"kind": "silent_accept_rustc"})
    chk.notes["reject_sample_compiled"] = len(sample)


# --------------------------------------------------------------------------------------------
# T: neighbours and random literals, validated by TLC
# --------------------------------------------------------------------------------------------
ALPH = ["{", "}", ":", "0", "1", "2", "9", "a", "s", "v", "x", "X", "o", "p", "b", "e", "E", "?", "$", ".", "*",
        "<", "^", ">", "+", "-", "#", " ", "_", "U2", "C2", "U3", "U4", "T", "W3", "!"]


def trace_validate(chk, cases, tier, seed):
    rnd = random.Random(seed)
    events = {}
    base = [c["chars"] for c in cases if c["grammarOk"] and 3 <= len(c["chars"]) <= 14]
    rnd.shuffle(base)
    n_base = 1500 if tier == "quick" else 20000
    for chars in base[:n_base]:
        for _ in range(6):
            s = list(chars)
            op = rnd.choice("ids")
            pos = rnd.randrange(len(s) + (1 if op == "i" else 0))
            if op == "i":
                s.insert(pos, rnd.choice(ALPH))
            elif op == "d":
                del s[pos]
            else:
                s[pos] = rnd.choice(ALPH)
            events[tuple(s)] = None
    n_rand = 3000 if tier == "quick" else 60000
    pieces = [["{", "}"], ["{", "0", "}"], ["{", ":", "?", "}"], ["{", "{"], ["}", "}"], ["a"], [" "], ["U3"], ["{", "a", ":", ">", "1", "$", ".", "*", "x", "?", " ", "}"],
              ["{", ":", ".", "*", "}"], ["{", "_", "0", ":", "#", "x", "}"], ["{", "1", ":", "0", "2", "$", "}"], ["U4"], ["{"], ["}"], [":"]]
    for _ in range(n_rand):
        s = []
        for _ in range(rnd.randrange(1, 7)):
            if rnd.random() < 0.7:
                s += rnd.choice(pieces)
            else:
                s.append(rnd.choice(ALPH))
        if len(s) <= 40:
            events[tuple(s)] = None
    evs = [list(k) for k in events]
    reqs = [{"key": str(i), "lit": real(ch)} for i, ch in enumerate(evs)]
    obs = vlib.run_inproc("parse-fmt", reqs)
    os.makedirs(os.path.join(vlib.WORK, "c03"), exist_ok=True)
    tpath = os.path.join(vlib.WORK, "c03", "trace.ndjson")
    with open(tpath, "w", encoding="utf-8") as f:
        for i, ch in enumerate(evs):
            o = obs[str(i)]
            if o["outcome"] == "some":
                sig = [sig_of(canon_harness(x)) for x in o["formats"]]
                f.write(json.dumps({"id": i, "chars": ch, "outcome": "some", "sig": sig}) + "\n")
            else:
                f.write(json.dumps({"id": i, "chars": ch, "outcome": o["outcome"], "sig": []}) + "\n")
    r = vlib.run_tlc("Trace_FmtGrammar", "Trace_FmtGrammar", workers=1, timeout=3000, dfs=True, coverage=False,
                     env={"TRACE": tpath}, xmx="6g")
    chk.add_tlc(r, "trace validation of neighbours/random literals")
    bad = r.tagged.get("BAD", [])
    done = r.tagged.get("DONE", [])
    if not done or done[0].get("consumed") != len(evs):
        raise vlib.ToolError(f"trace validation did not consume the trace: {r.raw_tail[-1500:]}")
    chk.cov["traces_validated_against_impl"] += len(evs)
    chk.cov["evaluations"] += len(evs)
    chk.notes["trace_events"] = len(evs)
    chk.notes["trace_out_of_scope"] = done[0].get("oos")
    for b in bad:
        i = b["id"]
        lit = real(evs[i])
        chk.deviation(f"lit:{lit}", f"trace event rejected by the specification: {b['why']}",
                      case={"literal": lit, "chars": evs[i]}, expected=b.get("expected"), observed=obs[str(i)],
                      tags={"kind": "trace_" + b["why"]})


def sig_of(canon):
    """flat signature string of a canonical placeholder; the same format is produced in TLA+ (Sig)"""
    arg, spec = canon

    def a(x):
        return "next" if x is None else f"{x[0]}:{'.'.join(abstract(x[1])) if x[0] == 'id' else x[1]}"

    def c(x):
        if x is None:
            return "none"
        if x == "star":
            return "star"
        if x[0] == "int":
            return "int:" + x[1]
        return "param:" + a(x[1])
    if spec is None:
        return a(arg) + "|nospec"
    fill, align, sign, alt, zero, width, prec, ty = spec
    return "|".join([a(arg), "fill:" + (INV.get(fill, fill) if fill is not None else "none"), align, sign,
                     "alt" if alt else "noalt", "zero" if zero else "nozero", c(width), c(prec), ty])


def run(chk, tier, seed, replay):
    chk.assumptions += [
        "characters are class representatives (digits 0/1/2/9, the 7 type letters, 4 other XID_Start incl. a 2-byte one, "
        "one XID_Continue-only, 3- and 4-byte non-identifier characters, space, tab)",
        "Std* layer of FmtGrammar.tla validated against rustc's format_args! on every enumerated literal (R0)",
    ]
    if replay:
        rp = json.load(open(replay))
        lit = rp["case"]["literal"]
        cases = None
        log(f"replaying literal {lit!r}")
        # re-run through the trace spec: one event
        chars = abstract(lit)
        trace_single(chk, chars)
        return
    try:
        cases = tlc_cases(chk, tier)
    except SpecViolation as e:
        # The model-level property fails: the transcription of the code and the contract part.
        # That is reported against the real code below only if the real code deviates too.
        raise vlib.ToolError(str(e))
    chk.cov["exhaustive"] = True
    std_validate(chk, cases, tier)
    by_key, _ = replay_parser(chk, cases)
    replay_counter(chk, by_key)
    replay_rejects(chk, by_key, tier, seed)
    trace_validate(chk, cases, tier, seed)
    chk.cov["rule"] = ("every string over an 18-symbol class alphabet up to the tier's length bound plus every "
                       "grammar derivation (TLC states); non-trivial = std accepts and the literal has >= 1 placeholder")


def trace_single(chk, chars):
    obs = vlib.run_inproc("parse-fmt", [{"key": "0", "lit": real(chars)}])
    o = obs["0"]
    os.makedirs(os.path.join(vlib.WORK, "c03"), exist_ok=True)
    tpath = os.path.join(vlib.WORK, "c03", "replay.ndjson")
    with open(tpath, "w") as f:
        sig = [sig_of(canon_harness(x)) for x in o["formats"]] if o["outcome"] == "some" else []
        f.write(json.dumps({"id": 0, "chars": chars, "outcome": o["outcome"], "sig": sig}) + "\n")
    r = vlib.run_tlc("Trace_FmtGrammar", "Trace_FmtGrammar", workers=1, timeout=600, dfs=True, coverage=False,
                     env={"TRACE": tpath})
    chk.add_tlc(r, "replay")
    chk.cov["evaluations"] += 1
    for b in r.tagged.get("BAD", []):
        chk.deviation(f"lit:{real(chars)}", f"trace event rejected by the specification: {b['why']}",
                      case={"literal": real(chars), "chars": chars}, expected=b.get("expected"), observed=o,
                      tags={"kind": "trace_" + b["why"]})
