"""C11 - variant accessors agree with the value's variant and never lose data.

M : TLC enumerates Variants.tla's contract tables (is / unwrap / try_unwrap / TryInto per (value's variant,
    accessor)) for every enum of <= MaxVariants variants over unit / tuple / named kinds, ignored flags, generics,
    and checks its laws (exactly one is_x per value, exactly one TryInto target per live value).
R : every enum becomes a real enum deriving IsVariant, Unwrap, TryUnwrap and TryInto; every accessor is called on
    every variant value (panics caught); payloads are compared by value, reference forms by address, error
    payloads with the original value.
"""
import json
import re
import os

import vlib
from vlib import log

NAMES = [("Foo", "foo"), ("FooBar", "foo_bar"), ("Ab", "ab"), ("Quux", "quux")]
PRELUDE = r'''
#[derive(Clone, Debug, PartialEq)] pub struct A(pub u8);
#[derive(Clone, Debug, PartialEq)] pub struct B(pub u8);
pub fn panic_text(p: Box<dyn std::any::Any + Send>) -> String {
    if let Some(s) = p.downcast_ref::<&'static str>() { String::from(*s) } else if let Some(s) = p.downcast_ref::<String>() { s.clone() } else { String::from("<non-string payload>") }
}
pub fn ad<T>(t: &T) -> usize { t as *const T as usize }
pub fn report(k: &str, rows: &[String]) { println!("OBS {{\"k\": {:?}, \"rows\": [{}]}}", k, rows.iter().map(|r| format!("{:?}", r)).collect::<Vec<_>>().join(", ")); }
'''


def key_of(c):
    fa = sorted(c["formsAttr"])
    ftag = ("{" + ",".join(fa) + "}") if fa else ""
    if c.get("place") == "variant1":
        ftag += "@v1"
    return ("G" if c["generic"] else "") + ftag + "enum[" + ",".join(
        f"{v['k']}({''.join(t.lower() if fi else t for t, fi in zip(v['tys'], v['fign']))}){'!' if v['ign'] else ''}"
        for v in c["vs"]) + "]"


def val(t, n):
    """a value of field type t tagged n: A(n), B(n), and for the one-element TUPLE type `(A,)` the tuple (A(n),)"""
    return f"(A({n}),)" if t == "(A,)" else f"{t}({n})"


def tyname(t, c, i, j):
    """field type text; with `generic`, the first field of the first non-unit variant is the parameter T"""
    return t


def build(c, key):
    global NAMES
    # a third of the enums name their last variant with a raw identifier (accessors: is_fn, unwrap_fn, ...)
    NAMES = [("Foo", "foo"), ("FooBar", "foo_bar"), ("Ab", "ab"), ("Quux", "quux")]
    pick = vlib.seeded_pick(key, 11, 6)
    if pick == 0 and len(c["vs"]) <= 4:
        NAMES[len(c["vs"]) - 1] = ("r#fn", "fn")
    elif pick == 1:
        # underscores are word boundaries, never part of a word: leading, doubled and trailing ones vanish
        NAMES = [("_Phantom", "phantom"), ("Left__Right", "left_right"), ("Trailing_", "trailing"), ("Q_", "q")]
    elif pick == 2:
        NAMES = [("Plain_Name", "plain_name"), ("lower", "lower"), ("X", "x"), ("Yz", "yz")]
    NAMES = NAMES + [("W" + ch, "w" + ch) for ch in "abcdefghijklm"]      # (the seventeen-variant enum)
    vs = c["vs"]
    # (a named variant that is IGNORED takes no accessor: Unwrap / TryUnwrap are derivable next to it, and its values still
    # reach the other variants' accessors)
    has_named = any(v["k"] == "named" and not v["ign"] for v in vs)
    derives = ["IsVariant", "TryInto"] if has_named else ["IsVariant", "Unwrap", "TryUnwrap", "TryInto"]
    gen_pos = None
    if c["generic"]:
        for i, v in enumerate(vs):
            if v["tys"] and v["tys"][0] == "A":
                gen_pos = i
                break
    if gen_pos is not None:
        # `impl<T> TryFrom<E<T>> for T` is not a legal impl (orphan rule): TryInto is not derivable for a
        # variant holding a bare type parameter, so generic enums exercise the other three derives
        derives = [d for d in derives if d != "TryInto"]
    g = "<T>" if gen_pos is not None else ""
    gi = "<A>" if gen_pos is not None else ""
    decls, vals, pats = [], [], []
    for i, v in enumerate(vs):
        nm = NAMES[i][0]
        tys = list(v["tys"])
        if gen_pos == i:
            tys[0] = "T"
        # field-level #[try_into(ignore)] (only meaningful, and only registered, when TryInto is derived)
        if "TryInto" in derives:
            tys = [("#[try_into(ignore)] " if fi else "") + t for t, fi in zip(tys, v["fign"])]
        ign = "".join(f"#[{a}(ignore)] " for a in ["is_variant", "unwrap", "try_unwrap", "try_into"]
                      if a.replace("_", "") in [d.lower() for d in derives] or a in ("is_variant", "try_into", "try_unwrap", "unwrap")) if v["ign"] else ""
        if v["ign"]:
            ign = "".join(f"#[{a}(ignore)] " for a, d in [("is_variant", "IsVariant"), ("unwrap", "Unwrap"),
                                                        ("try_unwrap", "TryUnwrap"), ("try_into", "TryInto")] if d in derives)
        fv = [val(t, 10 * (i + 1) + j) for j, t in enumerate(v["tys"])]
        if v["k"] == "unit":
            decls.append(f"{ign}{nm}")
            vals.append(f"E::{nm}")
            pats.append(f"E::{nm}")
        elif v["k"] == "tuple":
            decls.append(f"{ign}{nm}(" + ", ".join(tys) + ")")
            vals.append(f"E::{nm}(" + ", ".join(fv) + ")")
            pats.append(f"E::{nm}(" + ", ".join(f"f{j}" for j in range(len(tys))) + ")")
        else:
            decls.append(f"{ign}{nm} {{ " + ", ".join(
                (f"#[try_into(ignore)] {'xy'[j]}: {t[len('#[try_into(ignore)] '):]}" if t.startswith("#[try_into") else f"{'xy'[j]}: {t}")
                for j, t in enumerate(tys)) + " }")
            vals.append(f"E::{nm} {{ " + ", ".join(f"{'xy'[j]}: {fv[j]}" for j in range(len(tys))) + " }")
            pats.append(f"E::{nm} {{ " + ", ".join(f"{'xy'[j]}: f{j}" for j in range(len(tys))) + " }")
    F = set(c["forms"])
    order = [f for f in ("owned", "ref", "ref_mut") if f in c["formsAttr"]]
    forms = "".join(f"#[{a}({', '.join(order)})]\n" for a, d in [("unwrap", "Unwrap"), ("try_unwrap", "TryUnwrap"),
                                                                   ("try_into", "TryInto")] if d in derives) if order else ""
    # per variant: which accessor forms the contract says exist (Variants.tla DocFormsAt); TryInto's forms are the enum-level ones
    FA = [set(x) for x in c["formsAt"]]
    F_into = F
    if c.get("place") == "variant1":
        # the Unwrap / TryUnwrap form attributes on the FIRST non-ignored variant only, nothing on the enum; TryInto unattributed
        first = next(i for i, v in enumerate(vs) if not v["ign"])
        vattr = "".join(f"#[{a}({', '.join(order)})] " for a, d in [("unwrap", "Unwrap"), ("try_unwrap", "TryUnwrap")] if d in derives)
        decls[first] = vattr + decls[first]
        forms = ""
        F_into = {"owned"}
    head = ("#[derive(" + ", ".join("derive_more::" + d for d in derives) + ", Clone, Debug, PartialEq)]\n" + forms +
            f"pub enum E{g} {{ {', '.join(decls)} }}")
    if vlib.seeded_pick(key, 47, 3) == 0:
        # the same enum GENERATED BY A macro_rules! MACRO that gets the variant names as `$v:ident` fragments from its caller (the
        # derives are written in the macro's body): the names carry the caller's hygiene context - `self`, bindings and
        # parameters an expansion introduces must not be rebuilt with a variant's span
        mdecls = list(decls)
        for i in range(len(vs)):
            nm = NAMES[i][0]
            mdecls[i] = re.sub(r"(?<![\w#])" + re.escape(nm) + r"(?![\w])", f"$v{i}", mdecls[i], count=1)
        params = " ".join(f"$v{i}:ident" for i in range(len(vs)))
        mhead = ("#[derive(" + ", ".join("derive_more::" + d for d in derives) + ", Clone, Debug, PartialEq)]\n" + forms +
                 f"pub enum E{g} {{ {', '.join(mdecls)} }}")
        head = f"macro_rules! mk_e {{ ({params}) => {{ {mhead} }} }}\nmk_e!({' '.join(NAMES[i][0] for i in range(len(vs)))});"
    body = [f"let vals: Vec<E{gi}> = vec![{', '.join(vals)}];", "let mut rows: Vec<String> = vec![];"]
    exp = []   # expected rows, same order

    def tup(n):
        return "()" if n == 0 else ("f" if n == 1 else "(" + ", ".join(f"f.{j}" for j in range(n)) + ")")

    # ---- extension (Variants.tla, "the TEXTS of the failure paths"): TLC's texts are for the naming Foo/FooBar/Ab/Quux of
    # an enum called E; for a renamed enum the same formula is rendered from the emitted structure (and the rendering is
    # checked against TLC's text on every default-named enum, so the two cannot drift apart)
    default_names = [("Foo", "foo"), ("FooBar", "foo_bar"), ("Ab", "ab"), ("Quux", "quux")] + [("W" + ch, "w" + ch) for ch in "abcdefghijklm"]
    texts = c.get("texts")
    FORMS_SUFFIX = {"owned": "", "ref": "_ref", "ref_mut": "_mut"}

    def render_unwrap(kind, names, a, x, form):
        head = "called `E::unwrap_" if kind == "p" else "Attempt to call `E::try_unwrap_"
        return f"{head}{names[x][1]}{FORMS_SUFFIX[form]}()` on a `E::{names[a][0]}` value"

    def render_into(names, T):
        grp = next(g for t, _, g in texts["tryInto"] if list(t) == list(T))
        ty = T[0] if len(T) == 1 else "(" + ", ".join(T) + ")"
        return "Only " + ", ".join(names[i - 1][0] for i in grp) + " can be converted to " + ty

    def into_text(T):
        if texts is None:
            return "?"
        tlc = next(txt for t, txt, _ in texts["tryInto"] if list(t) == list(T))
        if render_into(default_names, T) != tlc:
            raise vlib.ToolError(f"rendering of the TryInto text drifted from Variants.tla: {tlc!r}")
        return render_into(NAMES, T)

    def text_rows(a, x, form, sn, suffix):
        if texts is None or "Unwrap" not in derives:
            return
        for kind, key in (("p", "unwrapPanic"), ("t", "tryUnwrap")):
            tlc = texts[key][a][x][form]
            if render_unwrap(kind, default_names, a, x, form) != tlc:
                raise vlib.ToolError(f"rendering of the {key} text drifted from Variants.tla: {tlc!r}")
            want = render_unwrap(kind, NAMES, a, x, form)
            bind = {"owned": f"let m = vals[{a}].clone();", "ref": f"let m = &vals[{a}];", "ref_mut": f"let mut m = vals[{a}].clone();"}[form]
            if kind == "p":
                body.append(f'rows.push(format!("text_unwrap{suffix} {a} {x} {{}}", match std::panic::catch_unwind(|| {{ {bind} let _ = m.unwrap_{sn}{suffix}(); }}) {{ Ok(_) => String::from("ok"), Err(p) => panic_text(p) }}));')
                exp.append(f"text_unwrap{suffix} {a} {x} {want}")
            else:
                body.append(f'rows.push(format!("text_try_unwrap{suffix} {a} {x} {{}}", {{ {bind} let r = match m.try_unwrap_{sn}{suffix}() {{ Ok(_) => String::from("ok"), Err(e) => e.to_string() }}; r }}));')
                exp.append(f"text_try_unwrap{suffix} {a} {x} {want}")

    for a, va in enumerate(vs):
        for x, vx in enumerate(vs):
            if vx["ign"]:
                continue
            sn = NAMES[x][1]
            n = len(vx["tys"])
            hit = c["is"][a][x]
            body.append(f'rows.push(format!("is {a} {x} {{}}", vals[{a}].is_{sn}()));')
            exp.append(f"is {a} {x} {'true' if hit else 'false'}")
            if "Unwrap" not in derives:
                continue
            ok = c["unwrap"][a][x] == "ok"
            fvals = ", ".join(val(t, 10 * (x + 1) + j) for j, t in enumerate(vx["tys"]))
            want_dbg = "()" if n == 0 else (fvals if n == 1 else f"({fvals})")
            # owned
            body.append(f'rows.push(format!("unwrap {a} {x} {{}}", match std::panic::catch_unwind(|| {{ let f = vals[{a}].clone().unwrap_{sn}(); format!("{{:?}}", f) }}) {{ Ok(s) => s, Err(_) => String::from("panic") }}));')
            exp.append(f"unwrap {a} {x} {want_dbg if ok else 'panic'}")
            body.append(f'rows.push(format!("try_unwrap {a} {x} {{}}", match vals[{a}].clone().try_unwrap_{sn}() {{ Ok(f) => format!("{{:?}}", f), Err(e) => String::from(if e.input == vals[{a}] {{ "err_same" }} else {{ "err_changed" }}) }}));')
            exp.append(f"try_unwrap {a} {x} {want_dbg if ok else 'err_same'}")
            if not ok:
                text_rows(a, x, "owned", sn, "")
            # reference forms: the very same objects
            if n >= 1:
                addr_f = ", ".join(f"ad(f{j})" for j in range(n))
                addr_r = "ad(r)" if n == 1 else ", ".join(f"ad(r.{j})" for j in range(n))
                body.append(f'rows.push(format!("unwrap_ref {a} {x} {{}}", match std::panic::catch_unwind(|| {{ let r = vals[{a}].unwrap_{sn}_ref(); let want = match &vals[{a}] {{ {pats[x]} => vec![{addr_f}], _ => vec![] }}; if vec![{addr_r}] == want {{ "same" }} else {{ "other" }} }}) {{ Ok(s) => String::from(s), Err(_) => String::from("panic") }}));')
                exp.append(f"unwrap_ref {a} {x} {'same' if ok else 'panic'}")
                body.append(f'rows.push(format!("try_unwrap_ref {a} {x} {{}}", match vals[{a}].try_unwrap_{sn}_ref() {{ Ok(r) => {{ let want = match &vals[{a}] {{ {pats[x]} => vec![{addr_f}], _ => vec![] }}; String::from(if vec![{addr_r}] == want {{ "same" }} else {{ "other" }}) }}, Err(e) => String::from(if ad(e.input) == ad(&vals[{a}]) {{ "err_same" }} else {{ "err_changed" }}) }}));')
                exp.append(f"try_unwrap_ref {a} {x} {'same' if ok else 'err_same'}")
                if not ok:
                    text_rows(a, x, "ref", sn, "_ref")
                    text_rows(a, x, "ref_mut", sn, "_mut")
                # mutable form: a write through it is visible in the value
                setv = f"*r = {val(vx['tys'][0], 99)};" if n == 1 else f"*r.0 = {val(vx['tys'][0], 99)};"
                first_pat = pats[x]
                body.append(f'rows.push(format!("unwrap_mut {a} {x} {{}}", match std::panic::catch_unwind(|| {{ let mut m = vals[{a}].clone(); {{ let r = m.unwrap_{sn}_mut(); {setv} }} match &m {{ {first_pat} => format!("{{:?}}", f0), _ => String::from("?") }} }}) {{ Ok(s) => s, Err(_) => String::from("panic") }}));')
                exp.append(f"unwrap_mut {a} {x} {val(vx['tys'][0], 99) if ok else 'panic'}")
                body.append(f'rows.push(format!("try_unwrap_mut {a} {x} {{}}", {{ let mut m = vals[{a}].clone(); let before = ad(&m); let res = match m.try_unwrap_{sn}_mut() {{ Ok(r) => {{ {setv} String::from("ok") }}, Err(e) => String::from(if ad(&*e.input) == before {{ "err_same" }} else {{ "err_changed" }}) }}; if res == "ok" {{ match &m {{ {first_pat} => format!("{{:?}}", f0), _ => String::from("?") }} }} else if m == vals[{a}] {{ res }} else {{ String::from("err_modified") }} }}));')
                exp.append(f"try_unwrap_mut {a} {x} {val(vx['tys'][0], 99) if ok else 'err_same'}")
        # TryInto: every target type
        for T in (c["targets"] if "TryInto" in derives else []):
            n = len(T)
            tt = "()" if n == 0 else (T[0] if n == 1 else "(" + ", ".join(T) + ")")
            rt = "()" if n == 0 else ("&" + T[0] if n == 1 else "(" + ", ".join("&" + t for t in T) + ")")
            ok = list(T) in [list(t) for t in c["okTargets"][a]]
            live = [j - 1 for j in c["liveIdx"][a]]
            fvals = ", ".join(val(va['tys'][j], 10 * (a + 1) + j) for j in live)
            want_dbg = "()" if n == 0 else (fvals if n == 1 else f"({fvals})")
            tk = "".join(T) or "unit"
            body.append(f'rows.push(format!("try_into {a} {tk} {{}}", match <{tt}>::try_from(vals[{a}].clone()) {{ Ok(f) => format!("{{:?}}", f), Err(e) => String::from(if e.input == vals[{a}] {{ "err_same" }} else {{ "err_changed" }}) }}));')
            exp.append(f"try_into {a} {tk} {want_dbg if ok else 'err_same'}")
            if not ok:
                body.append(f'rows.push(format!("text_try_into {a} {tk} {{}}", match <{tt}>::try_from(vals[{a}].clone()) {{ Ok(_) => String::from("ok"), Err(e) => e.to_string() }}));')
                exp.append(f"text_try_into {a} {tk} {into_text(T)}")
                if n >= 1 and "ref" in F_into:
                    body.append(f'rows.push(format!("text_try_into_ref {a} {tk} {{}}", match <{rt}>::try_from(&vals[{a}]) {{ Ok(_) => String::from("ok"), Err(e) => e.to_string() }}));')
                    exp.append(f"text_try_into_ref {a} {tk} {into_text(T)}")
            if n >= 1:
                addr_f = ", ".join(f"ad(f{j})" for j in live) if ok else ""
                addr_r = "ad(r)" if n == 1 else ", ".join(f"ad(r.{j})" for j in range(n))
                want_expr = f"match &vals[{a}] {{ {pats[a]} => vec![{addr_f}], _ => vec![] }}" if ok else "Vec::<usize>::new()"
                body.append(f'rows.push(format!("try_into_ref {a} {tk} {{}}", match <{rt}>::try_from(&vals[{a}]) {{ Ok(r) => {{ let want = {want_expr}; String::from(if vec![{addr_r}] == want {{ "same" }} else {{ "other" }}) }}, Err(e) => String::from(if ad(e.input) == ad(&vals[{a}]) {{ "err_same" }} else {{ "err_changed" }}) }}));' if ok or True else "")
                exp.append(f"try_into_ref {a} {tk} {'same' if ok else 'err_same'}")
                mt = "&mut " + T[0] if n == 1 else "(" + ", ".join("&mut " + t for t in T) + ")"
                setm = f"*r = {val(T[0], 98)};" if n == 1 else f"*r.0 = {val(T[0], 98)};"
                okread = (f'match &m {{ {pats[a]} => format!("{{:?}}", f{live[0]}), _ => String::from("?") }}' if ok
                          else 'String::from("unexpected_ok")')
                body.append(f'rows.push(format!("try_into_mut {a} {tk} {{}}", {{ let mut m = vals[{a}].clone(); let before = ad(&m); let res = match <{mt}>::try_from(&mut m) {{ Ok(r) => {{ {setm} String::from("ok") }}, Err(e) => String::from(if ad(&*e.input) == before {{ "err_same" }} else {{ "err_changed" }}) }}; if res == "ok" {{ {okread} }} else if m == vals[{a}] {{ res }} else {{ String::from("err_modified") }} }}));')
                exp.append(f"try_into_mut {a} {tk} {val(T[0], 98) if ok else 'err_same'}")
    # only the listed reference forms exist (no attribute: the owned form)
    FORM_OF = {"unwrap": "owned", "try_unwrap": "owned", "try_into": "owned", "unwrap_ref": "ref", "try_unwrap_ref": "ref",
               "try_into_ref": "ref", "text_unwrap": "owned", "text_try_unwrap": "owned", "text_unwrap_ref": "ref",
               "text_try_unwrap_ref": "ref", "text_unwrap_mut": "ref_mut", "text_try_unwrap_mut": "ref_mut", "text_try_into": "owned",
               "text_try_into_ref": "ref", "unwrap_mut": "ref_mut", "try_unwrap_mut": "ref_mut", "try_into_mut": "ref_mut"}
    def keep(row):
        w = row.split(" ")
        name = w[0]
        if FORM_OF.get(name) is None:
            return True
        if "try_into" in name:
            return FORM_OF[name] in F_into
        return FORM_OF[name] in FA[int(w[2])]          # `<accessor> <value's variant> <accessor's variant> ...`
    pre = 'rows.push(format!("'
    body = [b for b in body if not b.startswith(pre) or keep(b[len(pre):])]
    exp = [e for e in exp if keep(e)]
    body.append(f"report({json.dumps(key)}, &rows);")
    mod = "use super::*;\nuse core::convert::TryFrom;\n" + head + "\npub fn run() {\n    " + "\n    ".join(body) + "\n}"
    return mod, exp


def lifetime_module():
    """An enum with a lifetime parameter of its own (a borrowed field and an INVARIANT one, Cell<&'a _>): the reference forms of
    every accessor borrow the value only for the call - mutable accessors can be called one after another, the value is
    used in between, and the owned forms still work afterwards."""
    k = "lifetimes"
    mod = r"""use super::*;
use core::cell::Cell;
use core::convert::TryFrom;
#[derive(derive_more::IsVariant, derive_more::Unwrap, derive_more::TryUnwrap, derive_more::TryInto)]
#[unwrap(owned, ref, ref_mut)]
#[try_unwrap(owned, ref, ref_mut)]
#[try_into(owned, ref, ref_mut)]
pub enum L<'a> { First(&'a A), Second(Cell<&'a B>), Both(&'a A, Cell<&'a B>) }
pub fn run() {
    let (a1, a2, b1, b2) = (A(1), A(2), B(3), B(4));
    let mut rows: Vec<String> = vec![];
    let mut l = L::First(&a1);
    { let r: &&A = l.unwrap_first_ref(); rows.push(format!("ref {}", ad(r) == ad(match &l { L::First(x) => x, _ => unreachable!() }))); }
    { let r: &mut &A = l.unwrap_first_mut(); *r = &a2; }
    { let r: &mut &A = l.try_unwrap_first_mut().ok().unwrap(); *r = &a1; }
    { let r: &mut &A = <&mut &A>::try_from(&mut l).ok().unwrap(); *r = &a2; }
    rows.push(format!("after_mut {} {}", l.is_first(), l.unwrap_first_ref().0));
    let mut m = L::Second(Cell::new(&b1));
    { let c: &Cell<&B> = m.unwrap_second_ref(); c.set(&b2); }
    { let c: &Cell<&B> = m.try_unwrap_second_ref().ok().unwrap(); rows.push(format!("cell {}", c.get().0)); }
    { let c: &mut Cell<&B> = m.unwrap_second_mut(); c.set(&b1); }
    { let c: &mut Cell<&B> = <&mut Cell<&B>>::try_from(&mut m).ok().unwrap(); c.set(&b2); }
    { let c: &Cell<&B> = <&Cell<&B>>::try_from(&m).ok().unwrap(); rows.push(format!("cell2 {}", c.get().0)); }
    let mut n = L::Both(&a1, Cell::new(&b1));
    { let (x, y): (&mut &A, &mut Cell<&B>) = n.unwrap_both_mut(); *x = &a2; y.set(&b2); }
    { let (x, y): (&mut &A, &mut Cell<&B>) = <(&mut &A, &mut Cell<&B>)>::try_from(&mut n).ok().unwrap(); *x = &a1; let _ = y; }
    { let (x, y): (&&A, &Cell<&B>) = n.try_unwrap_both_ref().ok().unwrap(); rows.push(format!("both {} {}", x.0, y.get().0)); }
    let x: &A = l.unwrap_first(); let y: Cell<&B> = m.try_unwrap_second().ok().unwrap();
    let (p, q): (&A, Cell<&B>) = <(&A, Cell<&B>)>::try_from(n).ok().unwrap();
    rows.push(format!("owned {} {} {} {}", x.0, y.get().0, p.0, q.get().0));
    report("lifetimes", &rows);
}"""
    exp = ["ref true", "after_mut true 2", "cell 4", "cell2 4", "both 1 4", "owned 2 4 1 4"]
    return k, mod, exp


def run(chk, tier, seed, replay):
    chk.assumptions += ["field types are two tagged types A, B (optionally a type parameter instantiated with A); variant names "
                        "Foo, FooBar, Ab (accessor names foo, foo_bar, ab), a raw identifier, and names with leading / doubled / "
                        "trailing / inner underscores, all-lowercase and one-letter names",
                        "named variants are exercised for IsVariant and TryInto only (Unwrap/TryUnwrap document tuple and unit variants)"]
    r = vlib.run_tlc("MC_Variants", f"MC_Variants_{tier}", workers=4, timeout=1800, xmx="4g")
    chk.add_tlc(r, "enums")
    if not r.ok:
        raise vlib.ToolError(f"TLC: {r.violation}\n{r.raw_tail[-1500:]}")
    cases = {key_of(c): c for c in r.cases}
    if replay:
        want = json.load(open(replay))["key"]
        cases = {k: v for k, v in cases.items() if k == want}
    if not replay:
        # every form set for 1-variant enums; for larger enums the full list plus one seeded form set per enum
        def pick(k, c):
            fa = sorted(c["formsAttr"])
            if len(c["vs"]) < 2 or len(fa) == 3:
                return True
            base = k.split("enum[")[1]
            opts = [[], ["owned"], ["ref"], ["ref_mut"], ["owned", "ref"], ["owned", "ref_mut"], ["ref", "ref_mut"]]
            return fa == opts[vlib.seeded_pick(base, seed, len(opts))]
        cases = {k: c for k, c in cases.items() if pick(k, c)}
    if tier == "thorough" and not replay:
        cases = {k: c for k, c in cases.items() if len(c["vs"]) < 3 or vlib.seeded_pick(k, seed, 3) == 0}
    if not replay:
        # rustc cannot take an unbounded number of probe modules (the thorough tier once reached 48 GB): every enum of up to two
        # variants and every wide one, then a seeded share of the rest
        sel = vlib.cap_cases(list(cases), seed, 6000 if tier == "quick" else 14000,
                             keep=lambda k: len(cases[k]["vs"]) <= (2 if tier == "quick" else 1) or len(cases[k]["vs"]) > 3)
        cases = {k: c for k, c in cases.items() if k in sel}
    chk.cov["exhaustive"] = False   # reference-form sets are sampled for enums of 2+ variants
    mods, exps = [], {}
    for k, c in cases.items():
        m, e = build(c, k)
        mods.append((k, m))
        exps[k] = (e, m)
    if not replay or json.load(open(replay))["key"] == "lifetimes":
        k, m, e = lifetime_module()
        mods.append((k, m))
        exps[k] = (e, m)
    log(f"[C11] {len(mods)} enums")
    nsh = 4
    shards = [mods[i::nsh] for i in range(nsh)]
    import concurrent.futures as cf

    def buildc(i):
        if not shards[i]:
            return {}, {}, None
        return vlib.run_case_crate(f"c11_{i}", shards[i], prelude=PRELUDE, target_dir=os.path.join(vlib.BUILD, f"target-c11-{i}"),
                                   features=("is_variant", "unwrap", "try_unwrap", "try_into", "std"))
    with cf.ThreadPoolExecutor(max_workers=nsh) as ex:
        results = list(ex.map(buildc, range(nsh)))
    for i, (obs, failed, br) in enumerate(results):
        for k, mod in shards[i]:
            exp, _ = exps[k]
            chk.cov["evaluations"] += len(exp)
            chk.cov["distinct_nontrivial"] += 1
            if k in failed:
                chk.deviation(k, "accessor derives on a supported enum do not compile: " + failed[k][0]["message"][:200],
                              case={"module": mod}, expected="compiles", observed=failed[k][:3], tags={"kind": "compile_error"})
                continue
            o = obs.get(k)
            if o is None or o.get("crashed"):
                chk.deviation(k, "no observation", case={"module": mod}, expected="runs", observed=o, tags={"kind": "crash"})
                continue
            # rows starting with text_ are the specification's extension (failure texts): reported, never a C11 verdict
            ext = chk.notes.setdefault("extension_failure_texts", {"checked": 0, "mismatches": []})
            got_rows = o["rows"]
            if len(got_rows) == len(exp):
                for g, w in zip(got_rows, exp):
                    if w.startswith("text_"):
                        ext["checked"] += 1
                        if g != w:
                            if len(ext["mismatches"]) < 20:
                                ext["mismatches"].append({"enum": k, "expected": w, "observed": g})
                            log(f"EXTENSION-MISMATCH (not a C11 verdict) failure text: {k}: expected {w!r}, observed {g!r}")
                exp = [w for w in exp if not w.startswith("text_")]
                o = dict(o, rows=[g for g, w in zip(got_rows, exps[k][0]) if not w.startswith("text_")])
            if o["rows"] != exp:
                diff = [(g, w) for g, w in zip(o["rows"], exp) if g != w][:4]
                chk.deviation(k, f"accessor table differs from the contract (got, want): {diff}", case={"module": mod},
                              expected=exp, observed=o["rows"], tags={"kind": "table"})
            if len(chk.cov["samples"]) < 3 and len(exp) > 12:
                chk.sample({"enum": k, "table_rows": exp[:8]})
        chk.cov["traces_validated_against_impl"] += len(shards[i])
    chk.cov["rule"] = "enums of <= MaxVariants variants over 7 variant kinds x ignored flags x generic flag; full (value, accessor) table each"
