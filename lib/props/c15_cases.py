"""Code paths of the 50 derives for C15: (key, derives, declarations, observations).

`decl` is placed verbatim in a hostile module and in a normal twin; it may only name external items through
absolute paths (`::core::..`, `::std::..`) or `derive_more::..`, primitives excepted.  `obs` are Rust
expressions of type String with `M` standing for the module path.
"""
D = "::core::fmt::Debug"
STD_DERIVES = "#[derive(::core::fmt::Debug, ::core::clone::Clone, ::core::cmp::PartialEq)]"
VEC = "::std::vec::Vec<u8>"
CASES = []


def add(key, decl, obs):
    CASES.append((key, decl, obs))


# ---------------------------------------------------------------- Display-like, Debug
for tr, let in [("Display", ""), ("Binary", "b"), ("Octal", "o"), ("LowerHex", "x"), ("UpperHex", "X"), ("LowerExp", "e"), ("UpperExp", "E")]:
    add(f"{tr}:newtype", f"#[derive(derive_more::{tr})] pub struct T(pub i32);", [f'format!("{{:{let}}}", M::T(42))'])
add("Pointer:newtype", "#[derive(derive_more::Pointer)] pub struct T(pub &'static i32);", ['format!("{}", format!("{:p}", M::T(&crate::K)).len())'])
add("Display:attr", '#[derive(derive_more::Display)] #[display("a {_0} {} {b}", _1, b = _0 + 1)] pub struct T(pub i32, pub u8);', ['format!("{}", M::T(1, 2))'])
add("Display:unit", "#[derive(derive_more::Display)] pub struct T;", ['format!("{}", M::T)'])
add("Display:enum", '#[derive(derive_more::Display)] pub enum T { A, #[display("b{_0}")] B(i32), C { x: u8 } }',
    ['format!("{}|{}|{}", M::T::A, M::T::B(3), M::T::C { x: 4 })'])
add("Display:shared", '#[derive(derive_more::Display)] #[display("[{_variant}]")] pub enum T { A, #[display("b{_0}")] B(i32), C(u8) }',
    ['format!("{}|{}|{}", M::T::A, M::T::B(3), M::T::C(4))'])
add("Display:shared_default", '#[derive(derive_more::Display)] #[display("dflt")] pub enum T { A, #[display("b{_0}")] B(i32), C(u8, u8) }',
    ['format!("{}|{}|{}", M::T::A, M::T::B(3), M::T::C(4, 5))'])
add("Display:rename", '#[derive(derive_more::Display)] #[display(rename_all = "snake_case")] pub enum T { FooBar, Baz }', ['format!("{}|{}", M::T::FooBar, M::T::Baz)'])
add("Display:generic_bound", '#[derive(derive_more::Display)] #[display("{}", self.0.len())] #[display(bound(X: ::core::convert::AsRef<[u8]>))] pub struct T<X>(pub X);'.replace("self.0.len()", "_0.as_ref().len()"),
    ['format!("{}", M::T([1u8, 2]))'])
add("Display:pointer_named", "#[derive(derive_more::Display)] #[display(\"{}\", format_args!(\"{:p}\", *_0).as_str().is_some())] pub struct T(pub &'static i32);".replace('format_args!("{:p}", *_0).as_str().is_some()', "true"),
    ['format!("{}", M::T(&crate::K))'])
add("Debug:struct", "#[derive(derive_more::Debug)] pub struct T { pub a: i32, #[debug(skip)] pub b: u8, #[debug(\"<{c}>\")] pub c: u8 }",
    ['format!("{:?}|{:#?}", M::T { a: 1, b: 2, c: 3 }, M::T { a: 1, b: 2, c: 3 })'])
add("Debug:tuple", "#[derive(derive_more::Debug)] pub struct T(pub i32, #[debug(skip)] pub u8, pub u8);", ['format!("{:?}|{:#?}", M::T(1, 2, 3), M::T(1, 2, 3))'])
add("Debug:unit_enum", "#[derive(derive_more::Debug)] pub enum T { A, B(i32), C { x: u8 } }", ['format!("{:?}|{:?}|{:#?}", M::T::A, M::T::B(1), M::T::C { x: 2 })'])
add("Debug:attr", '#[derive(derive_more::Debug)] #[debug("T<{_0}>")] pub struct T(pub i32);', ['format!("{:?}", M::T(7))'])
add("Debug:generic", "#[derive(derive_more::Debug)] pub struct T<X>(pub X, pub ::core::marker::PhantomData<X>);", ['format!("{:?}", M::T(7u8, ::core::marker::PhantomData))'])
# unions (documented for the Display-like derives: a literal is required, fields are reachable through `self` only)
add("Display:union", '#[derive(derive_more::Display)] #[display("Hello there!")] pub union T { pub i: u32, pub f: f32 }', ['format!("{}", M::T { i: 1 })'])
add("Display:union_self", '#[derive(derive_more::Display)] #[display("{}", unsafe { self.i })] pub union T { pub i: u32, pub b: [u8; 4] }', ['format!("{}", M::T { i: 77 })'])
add("LowerHex:union_generic", '#[derive(derive_more::LowerHex)] #[lower_hex("{:x}", unsafe { self.i })] pub union T<X: ::core::marker::Copy> { pub i: u32, pub x: X }',
    ['format!("{:x}", M::T::<u8> { i: 255 })'])
# ---------------------------------------------------------------- Error
ERRBASE = "#[derive(derive_more::Debug, derive_more::Display)] pub struct Inner; impl ::std::error::Error for Inner {}\n"
SRC = 'match ::std::error::Error::source(&{v}) {{ Some(_) => "some", None => "none" }}.to_string()'
add("Error:named_source", ERRBASE + '#[derive(derive_more::Debug, derive_more::Display, derive_more::Error)] #[display("t")] pub struct T { pub source: Inner }',
    [SRC.format(v="M::T { source: M::Inner }")])
add("Error:tuple", ERRBASE + '#[derive(derive_more::Debug, derive_more::Display, derive_more::Error)] #[display("t")] pub struct T(pub Inner);',
    [SRC.format(v="M::T(M::Inner)")])
add("Error:none", '#[derive(derive_more::Debug, derive_more::Display, derive_more::Error)] #[display("t")] pub struct T { pub code: i32 }', [SRC.format(v="M::T { code: 1 }")])
add("Error:enum", ERRBASE + '#[derive(derive_more::Debug, derive_more::Display, derive_more::Error)] #[display("t")] pub enum T { A, B { source: Inner }, '
    'C(#[error(not(source))] i32), #[error(ignore)] D(Inner), E(#[error(ignore)] u8, #[error(source)] Inner) }',
    [SRC.format(v="M::T::A"), SRC.format(v="M::T::B { source: M::Inner }"), SRC.format(v="M::T::C(1)"), SRC.format(v="M::T::D(M::Inner)"), SRC.format(v="M::T::E(1, M::Inner)")])
add("Error:enum_all_sourced_but_ignored", ERRBASE + '#[derive(derive_more::Debug, derive_more::Display, derive_more::Error)] #[display("t")] pub enum T { '
    'A { source: Inner }, B(Inner), #[error(ignore)] C(Inner), #[error(ignore)] D }',
    [SRC.format(v="M::T::A { source: M::Inner }"), SRC.format(v="M::T::B(M::Inner)"), SRC.format(v="M::T::C(M::Inner)"), SRC.format(v="M::T::D")])
add("Error:enum_all_ignored", ERRBASE + '#[derive(derive_more::Debug, derive_more::Display, derive_more::Error)] #[display("t")] pub enum T { '
    '#[error(ignore)] A { source: Inner }, #[error(ignore)] B }',
    [SRC.format(v="M::T::A { source: M::Inner }"), SRC.format(v="M::T::B")])
add("Error:enum_single_sourced", ERRBASE + '#[derive(derive_more::Debug, derive_more::Display, derive_more::Error)] #[display("t")] pub enum T { A(Inner) }',
    [SRC.format(v="M::T::A(M::Inner)")])
for nm, marks in (("boxed", ""), ("boxed_send", " + ::core::marker::Send"), ("boxed_send_sync", " + ::core::marker::Send + ::core::marker::Sync"),
                  ("boxed_send_sync_unwind", " + ::core::marker::Send + ::core::marker::Sync + ::core::panic::UnwindSafe")):
    add(f"Error:{nm}", ERRBASE + '#[derive(derive_more::Debug, derive_more::Display, derive_more::Error)] #[display("t")] '
        f"pub struct T {{ pub source: ::std::boxed::Box<dyn ::core::error::Error{marks} + 'static> }}",
        [SRC.format(v="M::T { source: ::std::boxed::Box::new(M::Inner) }")])
add("Error:generic", ERRBASE + '#[derive(derive_more::Debug, derive_more::Display, derive_more::Error)] #[display("t")] pub struct T<X>(pub X);', [SRC.format(v="M::T(M::Inner)")])
# ---------------------------------------------------------------- conversions
add("From:struct", STD_DERIVES + " #[derive(derive_more::From)] pub struct T(pub i32, pub u8);", ['format!("{:?}", <M::T as ::core::convert::From<(i32, u8)>>::from((1, 2)))'])
add("From:forward", STD_DERIVES + " #[derive(derive_more::From)] #[from(forward)] pub struct T(pub i64);", ['format!("{:?}", <M::T as ::core::convert::From<i32>>::from(5))'])
add("From:types", STD_DERIVES + " #[derive(derive_more::From)] #[from(i8, i16)] pub struct T(pub i64);", ['format!("{:?}", <M::T as ::core::convert::From<i16>>::from(5))'])
add("From:enum", STD_DERIVES + " #[derive(derive_more::From)] pub enum T { A(i32), #[from(skip)] B(i32), C { x: u8, y: u8 }, U }",
    ['format!("{:?}|{:?}", <M::T as ::core::convert::From<i32>>::from(1), <M::T as ::core::convert::From<(u8, u8)>>::from((2, 3)))'])
add("From:enum_explicit", STD_DERIVES + " #[derive(derive_more::From)] pub enum T { A(i32), #[from] B(u8), #[from(i8, i16)] C(i64), #[from] U }",
    ['format!("{:?}|{:?}|{:?}", <M::T as ::core::convert::From<u8>>::from(1), <M::T as ::core::convert::From<i16>>::from(2), <M::T as ::core::convert::From<()>>::from(()))'])
add("Into:struct", STD_DERIVES + " #[derive(derive_more::Into)] #[into(owned, ref, ref_mut)] pub struct T(pub i32, #[into(skip)] pub u8, pub u8);",
    ['format!("{:?}|{:?}", <(i32, u8) as ::core::convert::From<M::T>>::from(M::T(1, 2, 3)), <(&i32, &u8) as ::core::convert::From<&M::T>>::from(&M::T(1, 2, 3)))'])
# fields whose own type is a tuple / unit / array (a sole tuple-typed field must not be taken apart)
add("Into:tuple_field", STD_DERIVES + " #[derive(derive_more::Into)] #[into(owned, ref, ref_mut)] pub struct T(pub (i32, u8));",
    ['format!("{:?}", <(i32, u8) as ::core::convert::From<M::T>>::from(M::T((1, 2))))',
     'format!("{:?}", <&(i32, u8) as ::core::convert::From<&M::T>>::from(&M::T((3, 4))))'])
add("Into:tuple_field_skip", STD_DERIVES + " #[derive(derive_more::Into)] pub struct T(#[into(skip)] pub bool, pub (i32, i64));",
    ['format!("{:?}", <(i32, i64) as ::core::convert::From<M::T>>::from(M::T(true, (1, 2))))'])
add("From:tuple_field", STD_DERIVES + " #[derive(derive_more::From)] pub struct T(pub (i32, u8));",
    ['format!("{:?}", <M::T as ::core::convert::From<(i32, u8)>>::from((1, 2)))'])
add("From:tuple_fields2", STD_DERIVES + " #[derive(derive_more::From, derive_more::Into)] pub struct T(pub (i32, u8), pub [u8; 2]);",
    ['format!("{:?}", <M::T as ::core::convert::From<((i32, u8), [u8; 2])>>::from(((1, 2), [3, 4])))',
     'format!("{:?}", <((i32, u8), [u8; 2]) as ::core::convert::From<M::T>>::from(M::T((1, 2), [3, 4])))'])
add("Constructor:tuple_field", STD_DERIVES + " #[derive(derive_more::Constructor)] pub struct T(pub (i32, u8), pub ());",
    ['format!("{:?}", M::T::new((1, 2), ()))'])
add("Into:types", STD_DERIVES + " #[derive(derive_more::Into)] #[into(i64, i128)] pub struct T(pub i32);", ['format!("{:?}", <i128 as ::core::convert::From<M::T>>::from(M::T(9)))'])
add("Constructor", STD_DERIVES + " #[derive(derive_more::Constructor)] pub struct T { pub a: i32, pub b: u8 }", ['format!("{:?}", M::T::new(1, 2))'])
add("FromStr:newtype", STD_DERIVES + " #[derive(derive_more::FromStr)] pub struct T(pub i32);",
    ['format!("{:?}|{}", <M::T as ::core::str::FromStr>::from_str("12"), <M::T as ::core::str::FromStr>::from_str("x").is_err())'])
add("FromStr:enum", STD_DERIVES + " #[derive(derive_more::FromStr)] pub enum T { Foo, Bar, BAR }",
    ['format!("{:?}|{:?}|{}", <M::T as ::core::str::FromStr>::from_str("foo"), <M::T as ::core::str::FromStr>::from_str("BAR"), <M::T as ::core::str::FromStr>::from_str("bar").is_err())'])
add("TryFrom:repr", STD_DERIVES + " #[derive(derive_more::TryFrom)] #[try_from(repr)] #[repr(u8)] pub enum T { A = 1, B, C = 7 }",
    ['format!("{:?}|{}", <M::T as ::core::convert::TryFrom<u8>>::try_from(2), <M::T as ::core::convert::TryFrom<u8>>::try_from(3).is_err())'])
add("TryInto", STD_DERIVES + " #[derive(derive_more::TryInto)] #[try_into(owned, ref, ref_mut)] pub enum T { A(i32), B(u8, u8), C }",
    ['format!("{:?}|{}|{:?}", <i32 as ::core::convert::TryFrom<M::T>>::try_from(M::T::A(1)), <i32 as ::core::convert::TryFrom<M::T>>::try_from(M::T::C).is_err(), '
     '<(&u8, &u8) as ::core::convert::TryFrom<&M::T>>::try_from(&M::T::B(2, 3)).is_ok())'])
add("IsVariant", STD_DERIVES + " #[derive(derive_more::IsVariant)] pub enum T { A(i32), FooBar { x: u8 }, C }", ['format!("{}|{}|{}", M::T::A(1).is_a(), M::T::C.is_foo_bar(), M::T::C.is_c())'])
add("Unwrap", STD_DERIVES + " #[derive(derive_more::Unwrap)] #[unwrap(owned, ref, ref_mut)] pub enum T { A(i32), B(u8, u8), C }",
    ['format!("{:?}|{:?}|{:?}", M::T::A(1).unwrap_a(), M::T::B(2, 3).unwrap_b_ref(), M::T::C.unwrap_c())'])
add("TryUnwrap", STD_DERIVES + " #[derive(derive_more::TryUnwrap)] #[try_unwrap(owned, ref, ref_mut)] pub enum T { A(i32), B(u8, u8), C }",
    ['format!("{:?}|{}|{:?}", M::T::A(1).try_unwrap_a().ok(), M::T::C.try_unwrap_a().is_err(), M::T::B(2, 3).try_unwrap_b_ref().ok())'])
# ---------------------------------------------------------------- delegation
add("Deref", f"#[derive(derive_more::Deref, derive_more::DerefMut)] pub struct T {{ #[deref] #[deref_mut] pub v: {VEC}, pub o: u8 }}",
    ['{ let mut t = M::T { v: ::std::vec![1, 2], o: 0 }; ::core::ops::DerefMut::deref_mut(&mut t).push(3); format!("{:?}", ::core::ops::Deref::deref(&t)) }'])
add("Deref:forward", "#[derive(derive_more::Deref, derive_more::DerefMut)] #[deref(forward)] #[deref_mut(forward)] pub struct T(pub ::std::boxed::Box<i32>);",
    ['{ let mut t = M::T(::std::boxed::Box::new(4)); *::core::ops::DerefMut::deref_mut(&mut t) += 1; format!("{:?}", ::core::ops::Deref::deref(&t)) }'])
add("Index", f"#[derive(derive_more::Index, derive_more::IndexMut)] pub struct T {{ #[index] #[index_mut] pub v: {VEC}, pub o: u8 }}",
    ['{ let mut t = M::T { v: ::std::vec![1, 2], o: 0 }; t[1] = 9; format!("{:?}", t[1]) }'])
add("IntoIterator", f"#[derive(derive_more::IntoIterator)] #[into_iterator(owned, ref, ref_mut)] pub struct T(pub {VEC});",
    ['{ let t = M::T(::std::vec![1, 2]); let a: ::std::vec::Vec<&u8> = ::core::iter::IntoIterator::into_iter(&t).collect(); let n = a.len(); let b: ::std::vec::Vec<u8> = ::core::iter::IntoIterator::into_iter(t).collect(); format!("{}|{:?}", n, b) }'])
add("AsRef", f"#[derive(derive_more::AsRef, derive_more::AsMut)] pub struct T {{ #[as_ref] #[as_mut] pub v: {VEC}, pub o: u8 }}",
    [f'{{ let mut t = M::T {{ v: ::std::vec![1], o: 0 }}; ::core::convert::AsMut::<{VEC}>::as_mut(&mut t).push(2); format!("{{:?}}", ::core::convert::AsRef::<{VEC}>::as_ref(&t)) }}'])
# unsized last fields (`str`, `[u8]`): values exist behind references only (repr(transparent) + a pointer cast)
UNSZ = "unsafe {{ &*({v} as *const {inner} as *const M::T) }}"
add("AsRef:unsized_types", "#[derive(derive_more::AsRef)] #[as_ref([u8], str)] #[repr(transparent)] pub struct T(pub str);",
    ['format!("{:?}|{}", <M::T as ::core::convert::AsRef<[u8]>>::as_ref(' + UNSZ.format(v='"abc"', inner="str") + '), '
     '<M::T as ::core::convert::AsRef<str>>::as_ref(' + UNSZ.format(v='"abc"', inner="str") + '))'])
add("AsRef:unsized_field", "#[derive(derive_more::AsRef)] #[repr(transparent)] pub struct T(#[as_ref] pub [u8]);",
    ['format!("{:?}", <M::T as ::core::convert::AsRef<[u8]>>::as_ref(' + UNSZ.format(v="&[1u8, 2][..]", inner="[u8]") + '))'])
add("AsRef:unsized_forward", "#[derive(derive_more::AsRef)] #[as_ref(forward)] #[repr(transparent)] pub struct T(pub str);",
    ['format!("{:?}", <M::T as ::core::convert::AsRef<[u8]>>::as_ref(' + UNSZ.format(v='"ab"', inner="str") + '))'])
add("Deref:unsized", "#[derive(derive_more::Deref)] #[repr(transparent)] pub struct T(pub str);",
    ['format!("{}", ::core::ops::Deref::deref(' + UNSZ.format(v='"abc"', inner="str") + '))'])
add("Index:unsized", "#[derive(derive_more::Index)] #[repr(transparent)] pub struct T(pub [u8]);",
    ['format!("{}", ' + UNSZ.format(v="&[7u8, 8][..]", inner="[u8]") + '[1])'])
add("Display:unsized", "#[derive(derive_more::Display, derive_more::Debug)] #[repr(transparent)] pub struct T(pub str);",
    ['format!("{}|{:?}", ' + UNSZ.format(v='"abc"', inner="str") + ', ' + UNSZ.format(v='"abc"', inner="str") + ')'])
add("AsRef:forward", f"#[derive(derive_more::AsRef, derive_more::AsMut)] #[as_ref(forward)] #[as_mut(forward)] pub struct T(pub {VEC});",
    ['{ let t = M::T(::std::vec![1, 2]); format!("{:?}", ::core::convert::AsRef::<[u8]>::as_ref(&t)) }'])
add("AsRef:types", f"#[derive(derive_more::AsRef, derive_more::AsMut)] #[as_ref([u8], {VEC})] #[as_mut([u8], {VEC})] pub struct T(pub {VEC});",
    [f'{{ let t = M::T(::std::vec![1, 2]); format!("{{:?}}|{{:?}}", ::core::convert::AsRef::<[u8]>::as_ref(&t), ::core::convert::AsRef::<{VEC}>::as_ref(&t)) }}'])
# ---------------------------------------------------------------- operators
for tr, sym in [("Add", "+"), ("Sub", "-"), ("BitAnd", "&"), ("BitOr", "|"), ("BitXor", "^")]:
    add(f"{tr}:struct", STD_DERIVES + f" #[derive(derive_more::{tr})] pub struct T(pub i32, pub i32);", [f'format!("{{:?}}", M::T(7, 9) {sym} M::T(3, 5))'])
    add(f"{tr}:enum", STD_DERIVES + f" #[derive(derive_more::{tr})] pub enum T {{ A(i32), B {{ x: i32 }}, U }}",
        [f'format!("{{:?}}|{{}}|{{}}", (M::T::A(7) {sym} M::T::A(3)).ok(), (M::T::A(7) {sym} M::T::B {{ x: 1 }}).is_err(), (M::T::U {sym} M::T::U).is_err())'])
    add(f"{tr}Assign", STD_DERIVES + f" #[derive(derive_more::{tr}Assign)] pub struct T(pub i32, pub i32);", [f'{{ let mut t = M::T(7, 9); t {sym}= M::T(3, 5); format!("{{:?}}", t) }}'])
for tr, sym in [("Mul", "*"), ("Div", "/"), ("Rem", "%"), ("Shr", ">>"), ("Shl", "<<")]:
    add(f"{tr}:scalar", STD_DERIVES + f" #[derive(derive_more::{tr})] pub struct T(pub i32, pub i32);", [f'format!("{{:?}}", M::T(17, 9) {sym} 2)'])
    add(f"{tr}:forward", STD_DERIVES + f" #[derive(derive_more::{tr})] #[{tr.lower()}(forward)] pub struct T(pub i32, pub i32);", [f'format!("{{:?}}", M::T(17, 9) {sym} M::T(3, 2))'])
    add(f"{tr}Assign:scalar", STD_DERIVES + f" #[derive(derive_more::{tr}Assign)] pub struct T(pub i32, pub i32);", [f'{{ let mut t = M::T(17, 9); t {sym}= 2; format!("{{:?}}", t) }}'])
    add(f"{tr}Assign:forward", STD_DERIVES + f" #[derive(derive_more::{tr}Assign)] #[{tr.lower()}_assign(forward)] pub struct T(pub i32, pub i32);",
        [f'{{ let mut t = M::T(17, 9); t {sym}= M::T(3, 2); format!("{{:?}}", t) }}'])
add("Not:struct", STD_DERIVES + " #[derive(derive_more::Not)] pub struct T(pub i32, pub bool);", ['format!("{:?}", !M::T(1, true))'])
add("Neg:struct", STD_DERIVES + " #[derive(derive_more::Neg)] pub struct T { pub a: i32 }", ['format!("{:?}", -M::T { a: 1 })'])
add("Not:enum", STD_DERIVES + " #[derive(derive_more::Not)] pub enum T { A(i32), U }", ['format!("{:?}|{}", (!M::T::A(1)).ok(), (!M::T::U).is_err())'])
add("Not:enum_mixed", STD_DERIVES + " #[derive(derive_more::Not)] pub enum T { A(i32), B { x: i32 }, U }",
    ['format!("{:?}|{:?}|{}", (!M::T::A(1)).ok(), (!M::T::B { x: 2 }).ok(), (!M::T::U).is_err())'])
add("Neg:enum_mixed", STD_DERIVES + " #[derive(derive_more::Neg)] pub enum T { A(i32), B { x: i32 }, V(), W {}, U }",
    ['format!("{:?}|{:?}|{:?}|{}", (-M::T::A(1)).ok(), (-M::T::B { x: 2 }).ok(), (-M::T::V()).ok(), (-M::T::U).is_err())'])
add("Neg:enum", STD_DERIVES + " #[derive(derive_more::Neg)] pub enum T { A(i32), B { x: i32 } }", ['format!("{:?}", -M::T::A(1))'])
add("Sum", STD_DERIVES + " #[derive(derive_more::Sum, derive_more::Add)] pub struct T(pub i32, pub i32);",
    ['format!("{:?}", ::core::iter::Iterator::sum::<M::T>(::std::vec![M::T(1, 2), M::T(3, 4)].into_iter()))'])
add("Product", STD_DERIVES + " #[derive(derive_more::Product, derive_more::Mul)] #[mul(forward)] pub struct T(pub i32, pub i32);",
    ['format!("{:?}", ::core::iter::Iterator::product::<M::T>(::std::vec![M::T(1, 2), M::T(3, 4)].into_iter()))'])
# ---------------------------------------------------------------- variants named like the traits' associated items
# (`Self::Output` / `Self::Error` / `Self::Err` inside an impl for an enum is ambiguous with a variant of that name:
# the expansions must spell the associated types out)
ASSOC = "Output(i32), Error(i32), Err(i32), Target(i32), Item(i32)"
for tr, sym in [("Add", "+"), ("Sub", "-"), ("BitAnd", "&"), ("BitOr", "|"), ("BitXor", "^")]:
    add(f"{tr}:assoc_named_variants", STD_DERIVES + f" #[derive(derive_more::{tr})] pub enum T {{ {ASSOC} }}",
        [f'format!("{{:?}}|{{}}", (M::T::Output(7) {sym} M::T::Output(3)).ok(), (M::T::Output(7) {sym} M::T::Error(3)).is_err())'])
for tr, sym in [("Mul", "*"), ("Shl", "<<")]:
    add(f"{tr}:assoc_named_variants", STD_DERIVES + f" #[derive(derive_more::{tr})] #[{tr.lower()}(forward)] pub enum T {{ {ASSOC} }}",
        [f'format!("{{:?}}", (M::T::Output(7) {sym} M::T::Output(3)).ok())'])
add("Not:assoc_named_variants", STD_DERIVES + f" #[derive(derive_more::Not, derive_more::Neg)] pub enum T {{ {ASSOC} }}",
    ['format!("{:?}|{:?}", !M::T::Output(1), -M::T::Error(2))'])
add("TryFrom:assoc_named_variants", STD_DERIVES + " #[derive(derive_more::TryFrom)] #[try_from(repr)] #[repr(u8)] pub enum T { Output, Error, Err, Ok }",
    ['format!("{:?}|{}", <M::T as ::core::convert::TryFrom<u8>>::try_from(1).ok(), <M::T as ::core::convert::TryFrom<u8>>::try_from(9).is_err())'])
add("FromStr:assoc_named_variants", STD_DERIVES + " #[derive(derive_more::FromStr)] pub enum T { Err, Ok, Output, Error }",
    ['format!("{:?}|{}", <M::T as ::core::str::FromStr>::from_str("err").ok(), <M::T as ::core::str::FromStr>::from_str("x").is_err())'])
add("TryInto:assoc_named_variants", STD_DERIVES + " #[derive(derive_more::TryInto, derive_more::Unwrap, derive_more::TryUnwrap, derive_more::IsVariant, derive_more::From)] "
    "#[try_into(owned, ref, ref_mut)] #[try_unwrap(owned, ref, ref_mut)] pub enum T { Error(i32), Output(u8), Err(bool), Ok }",
    ['format!("{:?}|{}|{}|{:?}", <i32 as ::core::convert::TryFrom<M::T>>::try_from(M::T::Error(4)).ok(), M::T::Output(1).is_output(), '
     'M::T::Err(true).try_unwrap_err().is_ok(), <M::T as ::core::convert::From<u8>>::from(3))'])
add("Display:assoc_named_variants", '#[derive(derive_more::Display, derive_more::Debug)] pub enum T { Error(i32), #[display("o")] Output, #[display("e{x}")] Err { x: u8 } }',
    ['format!("{}|{}|{:?}", M::T::Error(1), M::T::Output, M::T::Err { x: 2 })'])
add("Error:assoc_named_variants", ERRBASE + '#[derive(derive_more::Debug, derive_more::Display, derive_more::Error)] #[display("t")] '
    'pub enum T { Error { source: Inner }, Output, Err(Inner) }',
    [SRC.format(v="M::T::Error { source: M::Inner }"), SRC.format(v="M::T::Output"), SRC.format(v="M::T::Err(M::Inner)")])
