"""C16 - format arguments are split where Rust's expression grammar splits them.

M : TLC checks ExprSplit.tla (scanner transcription vs generated ground truth) on every list of
    <= MaxArgs expression forms (+ aliases, trailing comma).
R : every TLC case is rendered to Rust tokens and goes (a) through Punctuated<parsing::Expr> and
    Punctuated<syn::Expr> in-process (syn validates the specification's ground truth), (b) end to end
    through the attribute path of a real expansion with a sentinel field after the list
    (bounds reveal which argument derive_more thinks each index denotes) and the verbatim hand-over.
T : random deeper lists from the same productions, recorded and validated by TLC.
"""
import json
import os
import random
import re

import vlib
from vlib import log

GROUP_TEXT = {"G(": "(y, z)", "G[": "[0]", "G{": "{ y; z }"}
PUNCT = set("<>|,.:=+-!&?*")


def render(tokens):
    out = []
    prev_p = False
    for t in tokens:
        txt = GROUP_TEXT.get(t, t)
        is_p = t != "::" and all(ch in PUNCT for ch in t)
        glue = (prev_p and is_p and t != ",") or (t == "::") or (out and out[-1] == "::" and t == "<")
        if out and out[-1] == "=" and len(out) >= 3 and out[-3] == "b" and t == "|":
            glue = False   # alias `b = |a| ..`: `=` and `|` are separate tokens
        if out and not glue:
            out.append(" ")
        out.append(txt)
        prev_p = is_p and t != ","
    return "".join(out)


def count_tokens(norm):
    """abstract token count of a proc_macro2-normalised token string"""
    n = 0
    i = 0
    s = norm
    closers = {"(": ")", "[": "]", "{": "}"}
    while i < len(s):
        ch = s[i]
        if ch.isspace():
            i += 1
        elif ch in closers:
            depth = 0
            while i < len(s):
                if s[i] in "([{":
                    depth += 1
                elif s[i] in ")]}":
                    depth -= 1
                    if depth == 0:
                        i += 1
                        break
                i += 1
            n += 1
        elif ch.isalnum() or ch == "_":
            if s.startswith("r#", i) and i + 2 < len(s) and (s[i + 2].isalpha() or s[i + 2] == "_"):
                i += 2      # a raw identifier is one token
            while i < len(s) and (s[i].isalnum() or s[i] == "_"):
                i += 1
            n += 1
        elif s.startswith("::", i):
            i += 2
            n += 1
        else:
            i += 1
            n += 1
    return n


def ranges_from_texts(args):
    out = []
    pos = 1
    for a in args:
        n = count_tokens(a["text"])
        out.append({"from": pos, "to": pos + n - 1, "ident": a["ident"]})
        pos += n + 1
    return out


def norm_ranges(r):
    return [(x["from"], x["to"], bool(x["ident"])) for x in r]


def kd_tags(case):
    return {"kd": list(case.get("kds", []))}


def check_split(chk, key, case, tokens, truth, model, o, kds, text):
    """compare the real Punctuated<parsing::Expr> with the ground truth"""
    chk.cov["evaluations"] += 1
    if o["outcome"] != "done":
        raise vlib.ToolError(f"cannot lex generated tokens {text!r}: {o}")
    sy = o["syn"]
    if not sy["ok"] or norm_ranges(ranges_from_texts(sy["args"])) != [(a, b, i) for a, b, i in truth]:
        # the specification's own ground truth is wrong for this rendering: spec defect, not a verdict
        raise vlib.ToolError(f"syn's Expr parser disagrees with the specification's ground truth on {text!r}: "
                             f"{sy} vs {truth}")
    dm = o["dm"]
    if dm.get("outcome") in ("panic",):
        chk.deviation(key, f"argument scanner panicked: {dm.get('msg')} at {dm.get('loc')}", case=case,
                      expected=truth, observed=dm, tags={"kind": "panic"})
        return
    real = norm_ranges(ranges_from_texts(dm["args"])) if dm.get("ok") else [("error",)]
    if real == truth:
        if model is not None and model != truth:
            chk.model_drift(key, "the scanner splits correctly where the transcription (pinned tree) does not")
        return
    explained = model is not None and real == model and kds
    chk.deviation(key, "arguments split differently from Rust's expression grammar"
                  + ("" if explained else " (not one of the recorded mechanisms)"),
                  case=case, expected=truth, observed=real,
                  tags={"kd": list(kds) if explained else [], "kind": "split"})


def run(chk, tier, seed, replay):
    chk.assumptions += ["expression forms are the 40 listed in ExprSplit.tla (groups are opaque token trees)",
                        "syn 2 `full` Expr parser is the reference for Rust's expression grammar"]
    r = vlib.run_tlc("MC_ExprSplit", f"MC_ExprSplit_{tier}", workers=8, timeout=1800, xmx="6g")
    chk.add_tlc(r, "lists of expression forms")
    if not r.ok:
        raise vlib.ToolError(f"TLC: {r.violation}\n{r.raw_tail[-1500:]}")
    cases = r.cases
    if replay:
        rp = json.load(open(replay))
        want = rp["case"].get("tokens")
        cases = [c for c in cases if c["tokens"] == want] or cases[:0]
        if not cases and want:
            cases = [{"args": [], "tokens": want, "doc": rp["case"].get("doc", []), "impl": rp["case"].get("doc", []),
                      "known": False, "kds": []}]
    chk.cov["exhaustive"] = not replay
    # ---------------- (a) direct: parsing::Expr vs syn::Expr vs ground truth
    reqs = []
    for i, c in enumerate(cases):
        c["_text"] = render(c["tokens"])
        reqs.append({"key": str(i), "tokens": c["_text"]})
    obs = vlib.run_inproc("split-args", reqs)
    nontrivial = 0
    for i, c in enumerate(cases):
        truth = norm_ranges(c["doc"])
        # alias arguments: the bare Expr parser sees `b = expr` as one non-identifier expression
        for j, a in enumerate(c["args"]):
            if a["alias"]:
                truth[j] = (truth[j][0], truth[j][1], False)
        model = norm_ranges(c["impl"])
        if any(a["alias"] for a in c["args"]):
            # same scan, but the bare Expr parser never reports an aliased argument as an identifier
            starts = {truth[j][0] for j, a in enumerate(c["args"]) if a["alias"]}
            model = [(f, t, i and f not in starts) for f, t, i in model]
        if len(truth) > 1 or any("," in GROUP_TEXT.get(t, t) or t == "," for t in c["tokens"]):
            nontrivial += 1
        check_split(chk, "split:" + c["_text"], {"tokens": c["tokens"], "text": c["_text"], "doc": c["doc"]},
                    c["tokens"], truth, model, obs[str(i)], c.get("kds", []), c["_text"])
        if i % 9973 == 0:
            chk.sample({"text": c["_text"], "truth": truth, "real": obs[str(i)]["dm"]})
    chk.cov["distinct_nontrivial"] += nontrivial
    chk.cov["traces_validated_against_impl"] += len(cases)

    # ---------------- (a') the whole attribute through FmtAttribute::parse (cfg(derive_more_verif) hook): which arguments
    # carry an alias (`name = expr`, whatever follows the `=` and however it is spaced) and which are plain identifiers
    reqs = [{"key": str(i), "tokens": '"", ' + c["_text"]} for i, c in enumerate(cases)]
    obs = vlib.run_inproc("parse-attr", reqs)
    for i, c in enumerate(cases):
        o = obs[str(i)]
        if c.get("kds") or c.get("known"):
            continue          # lists the recorded finding (KD2: binary `|`) splits differently: judged in (a)
        chk.cov["evaluations"] += 1
        key = "attr:" + c["_text"]
        if o["outcome"] == "panic":
            chk.deviation(key, f"FmtAttribute::parse panicked: {o.get('msg')}", case={"tokens": c["tokens"], "text": c["_text"]},
                          expected="parsed", observed=o, tags={"kind": "panic"})
            continue
        if o["outcome"] != "ok":
            if not c.get("kds"):
                chk.deviation(key, f"a well-formed argument list is rejected: {o.get('msg')}", case={"tokens": c["tokens"], "text": c["_text"]},
                              expected="parsed", observed=o, tags={"kind": "attr_rejected", "kd": list(c.get("kds", []))})
            continue
        want = [(bool(a["alias"]), a["form"] in ("ident", "rawident")) for a in c["args"]]
        got = [(x["alias"] is not None, bool(x["ident"])) for x in o["args"]]
        if len(got) != len(want):
            continue          # a different split: the subject of (a) above (and of the recorded finding KD2)
        if got != want:
            chk.deviation(key, "FmtAttribute::parse disagrees with format_args! on which arguments are named (`name = ..`) / are plain "
                          f"identifiers: got {got}, the grammar says {want} (alias, identifier) per argument",
                          case={"tokens": c["tokens"], "text": c["_text"]}, expected=want, observed=got, tags={"kind": "alias"})
    chk.cov["traces_validated_against_impl"] += len(cases)

    # ---------------- (b) end to end through the attribute path
    reqs = []
    meta = {}
    for i, c in enumerate(cases):
        n = len(c["args"])
        lit = "{%d}" % n
        exp_u = set()
        for j, a in enumerate(c["args"]):
            if a["form"] == "ident" and not a["alias"]:
                lit += "{%d:?}" % j
                exp_u.add("Debug")
            elif "x" in GROUP_TEXT.get(a["form"], "") or "x" in [t for t in c["tokens"]]:
                lit += "{%d:x}" % j
                if a["form"] == "ident" and a["alias"]:
                    exp_u.add("LowerHex")   # `{j}` referring to `b = x`: the argument is the bare identifier x
        item = (f"#[display({vlib.rust_str(lit)}, {c['_text']}, sentinel)] "
                "struct S<T, U> { sentinel: T, x: U }")
        reqs.append({"key": str(i), "derive": "Display", "item": item, "tokens": False})
        meta[str(i)] = (c, exp_u, item)
    obs = vlib.run_inproc("expand", reqs)
    for k, (c, exp_u, item) in meta.items():
        o = obs[k]
        chk.cov["evaluations"] += 1
        key = "e2e:" + c["_text"]
        tags = {"kd": list(c.get("kds", [])), "kind": "e2e"}
        if o["outcome"] not in ("ok", "err"):
            chk.deviation(key, f"expansion {o['outcome']}: {o.get('msg')} at {o.get('loc')}", case={"item": item},
                          expected="Ok", observed=o, tags={"kind": "e2e_" + o["outcome"]})
            continue
        got_t, got_u = set(), set()
        body = ""
        if o["outcome"] == "ok":
            for im in o["impls"]:
                body += " ".join(f["body"] for f in im["fns"])
                for w in im["where"]:
                    p = w.split(":", 1)
                    if p[0].strip() == "T":
                        got_t.add(p[1].strip().split("::")[-1].strip())
                    if p[0].strip() == "U":
                        got_u.add(p[1].strip().split("::")[-1].strip())
        want_t = {"Display"}
        if o["outcome"] == "err" or got_t != want_t or got_u != exp_u:
            chk.deviation(key, "positional indices denote other arguments than for format_args! "
                          "(bounds inferred for the sentinel / identifier arguments differ)",
                          case={"item": item, "tokens": c["tokens"], "doc": c["doc"]},
                          expected={"T": sorted(want_t), "U": sorted(exp_u)},
                          observed={"outcome": o["outcome"], "T": sorted(got_t), "U": sorted(got_u), "msg": o.get("msg")},
                          tags=tags)
            continue
        # verbatim hand-over: the argument tokens appear unchanged, in order, in the write! call
        # (token for token, not space for space: a re-emitted `=` loses its Joint spacing in the printed form)
        norm = obs_norm(c["_text"] + ", sentinel")
        if norm not in body and "".join(norm.split()) not in "".join(body.split()):
            chk.deviation(key, "arguments are not handed to format_args! token for token",
                          case={"item": item}, expected=norm, observed=body[:500], tags={"kind": "verbatim"})
    chk.cov["traces_validated_against_impl"] += len(meta)

    # ---------------- T: random deeper lists, validated by TLC
    if not replay:
        trace_validate(chk, tier, seed)
    chk.cov["rule"] = ("every list of <= MaxArgs of the 40 expression forms (each optionally aliased where listed), "
                       "non-trivial = more than one argument or a comma inside an argument")


_norm_cache = {}


def obs_norm(text):
    if text not in _norm_cache:
        o = vlib.run_inproc("split-args", [{"key": "n", "tokens": text}])
        _norm_cache[text] = o["n"]["norm"]
    return _norm_cache[text]


# forms as in ExprSplit.tla (token sequences), used by the random generator; operands are replaced
FORMS = None


def load_forms():
    global FORMS
    if FORMS is None:
        src = open(os.path.join(vlib.SPEC, "ExprSplit.tla")).read()
        body = src[src.index("Forms == ["):src.index("FormNames ==")]
        FORMS = {}
        for m in re.finditer(r"(\w+)\s*\|->\s*<<([^>]*(?:>(?!>)[^>]*)*)>>", body):
            toks = re.findall(r'"([^"]*)"', m.group(2))
            FORMS[m.group(1)] = toks
    return FORMS


BINOPS = [["+"], ["<"], [">"], ["<", "<"], [">", ">"], ["=", "="], ["&", "&"], ["*"], ["-"]]
KD_FORMS = {"castgeneric2": "KD1", "binor": "KD2", "binor2": "KD2", "turbofnptr2": "KD3"}
BAR_FORMS = {"binor", "binor2", "oror", "closure0", "closure1", "closure2", "moveclosure", "asyncclosure", "asyncmove", "closureret"}
# forms that may not be followed by a binary operator without changing their meaning
TAIL_ONLY = {"closure0", "closure1", "closure2", "moveclosure", "asyncclosure", "asyncmove", "closureret", "castfnret", "castbinding", "cast", "castgeneric1", "castgeneric2", "castglobal", "castptr", "castref", "castarith", "castfnnest", "range",
             "less", "greater", "lesseq", "eq", "ifelse", "block"}


def gen_expr(rnd, forms, depth):
    """returns (tokens, set of form names)"""
    name = rnd.choice(sorted(forms))
    toks = list(forms[name])
    used = {name}
    if depth > 0 and name not in TAIL_ONLY and rnd.random() < 0.5:
        op = rnd.choice(BINOPS)
        rhs, u2 = gen_expr(rnd, {k: v for k, v in forms.items() if k not in ("range", "less", "greater", "lesseq", "eq",
                                                                                "shl", "shr", "ifelse", "block")}, depth - 1)
        # comparison operators do not chain; keep it simple: wrap nothing, syn decides validity
        toks = toks + op + rhs
        used |= u2
    return toks, used


def trace_validate(chk, tier, seed):
    forms = load_forms()
    rnd = random.Random(seed)
    n = 3000 if tier == "quick" else 40000
    lists = []
    for _ in range(n):
        k = rnd.randrange(1, 5)
        args = [gen_expr(rnd, forms, 2) for _ in range(k)]
        toks = []
        truth = []
        pos = 1
        used = set()
        for j, (t, u) in enumerate(args):
            if j:
                toks.append(",")
            toks += t
            truth.append({"from": pos, "to": pos + len(t) - 1, "ident": t in (["x"], ["r#type"])})
            pos += len(t) + 1
            used |= u
        if rnd.random() < 0.2:
            toks.append(",")
        lists.append((toks, truth, used))
    reqs = [{"key": str(i), "tokens": render(t)} for i, (t, _, _) in enumerate(lists)]
    obs = vlib.run_inproc("split-args", reqs)
    os.makedirs(os.path.join(vlib.WORK, "c16"), exist_ok=True)
    tpath = os.path.join(vlib.WORK, "c16", "trace.ndjson")
    kept = []
    invalid = 0
    with open(tpath, "w") as f:
        for i, (toks, truth, used) in enumerate(lists):
            o = obs[str(i)]
            if o["outcome"] != "done" or not o["syn"]["ok"] or \
                    norm_ranges(ranges_from_texts(o["syn"]["args"])) != norm_ranges(truth):
                invalid += 1   # not a well-formed Rust expression list (e.g. chained comparisons): not in the space
                continue
            dm = o["dm"]
            if dm.get("outcome") == "panic":
                chk.deviation("split:" + render(toks), f"argument scanner panicked: {dm.get('msg')}", case={"tokens": toks},
                              expected=truth, observed=dm, tags={"kind": "panic"})
                continue
            real = ranges_from_texts(dm["args"]) if dm.get("ok") else [{"from": 0, "to": 0, "ident": False}]
            f.write(json.dumps({"id": len(kept), "tokens": toks, "truth": truth, "real": real}) + "\n")
            kept.append((toks, truth, used, real))
    r = vlib.run_tlc("Trace_ExprSplit", "Trace_ExprSplit", workers=1, timeout=1800, dfs=True, env={"TRACE": tpath}, xmx="4g")
    chk.add_tlc(r, "trace validation of random expression lists")
    done = r.tagged.get("DONE", [])
    if not done or done[0]["consumed"] != len(kept):
        raise vlib.ToolError(f"trace not consumed: {r.raw_tail[-1500:]}")
    chk.cov["traces_validated_against_impl"] += len(kept)
    chk.cov["evaluations"] += len(kept)
    chk.notes["trace_events"] = len(kept)
    chk.notes["trace_generated_not_wellformed"] = invalid
    for b in r.tagged.get("BAD", []):
        toks, truth, used, real = kept[b["id"]]
        key = "split:" + render(toks)
        if b["why"] == "drift":
            chk.model_drift(key, "real scanner correct where the transcription is not")
            continue
        kds = sorted({KD_FORMS[u] for u in used if u in KD_FORMS})
        if "KD2" in kds and not (len([u for u in used if u in BAR_FORMS]) >= 1):
            kds.remove("KD2")
        chk.deviation(key, "arguments split differently from Rust's expression grammar"
                      + ("" if b["why"] == "known_mechanism" else " (not explained by the transcription)"),
                      case={"tokens": toks, "text": render(toks), "doc": truth}, expected=norm_ranges(truth),
                      observed=norm_ranges(real), tags={"kd": kds if b["why"] == "known_mechanism" else [], "kind": "split"})
