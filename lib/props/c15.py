"""C15 - expansions depend on no name from the caller's scope.

M : the references each real expansion makes without going through `derive_more::` / `::` / its own bindings /
    the user's tokens are EXTRACTED from the working tree (in-process, syn visitor over the generated code, macro
    bodies included) and handed to TLC as a generated constants module; Hygiene.tla decides for every such
    reference and every scope (normal, no prelude, each prelude name / macro / extern crate shadowed) whether it
    still resolves to the intended item.
R : every code path is compiled twice with the real derive: in an ordinary module and in a hostile one
    (`#![no_implicit_prelude]`, importing only `::derive_more`, with local items and macro_rules shadowing every
    prelude name, every prelude macro and the crate names core/std/alloc); the hostile twin must compile and every
    observation (one call per generated method) must equal the ordinary twin's.
"""
import json
import os
import re
import shutil

import vlib
from vlib import log
from props.c15_cases import CASES

SHADOW_TYPES = ["Result", "Ok", "Err", "Option", "Some", "None", "String", "Vec", "Box"]
SHADOW_TRAITS = ["Debug", "Display", "From", "Into", "Error", "Iterator", "IntoIterator", "AsRef", "AsMut", "Clone", "Copy",
                 "Default", "PartialEq", "Eq", "TryFrom", "TryInto", "ToString", "ToOwned", "Sized", "Send", "Sync", "Drop", "Fn",
                 "FnMut", "FnOnce", "Add", "Mul", "Not", "Neg", "Deref", "DerefMut", "Index", "IndexMut", "FromStr", "Sum", "Product",
                 "Extend", "Ord", "PartialOrd", "Binary", "Octal", "LowerHex", "UpperHex", "LowerExp", "UpperExp", "Pointer", "Write"]
SHADOW_MACROS = ["write", "writeln", "format_args", "format", "matches", "panic", "unreachable", "unimplemented", "todo", "assert",
                 "assert_eq", "debug_assert", "vec", "concat", "stringify", "println", "compile_error_"]
HOSTILE = ("#![no_implicit_prelude]\n#![allow(dead_code, non_camel_case_types, unused_macros, non_snake_case)]\nuse ::derive_more;\n"
           + "".join(f"pub struct {n};\n" for n in SHADOW_TYPES)
           + "".join(f"pub trait {n} {{}}\n" for n in SHADOW_TRAITS)
           + "pub fn drop() {}\npub mod core {}\npub mod std {}\npub mod alloc {}\n"
           + "".join(f"macro_rules! {n} {{ ($($t:tt)*) => {{ {{ struct CallerS; CallerS }} }} }}\n" for n in SHADOW_MACROS))
NORMAL = "#![allow(dead_code, non_camel_case_types)]\nuse ::derive_more;\n"
PRELUDE = 'pub static K: i32 = 5;\npub fn report(k: &str, same: bool, h: &str, n: &str) { println!("OBS {{\\"k\\": {:?}, \\"same\\": {}, \\"h\\": {:?}, \\"n\\": {:?}}}", k, same, h, n); }\n'

IGNORE_FIRST = {"derive_more", "Self", "self", "crate", "super"}


def user_idents(decl):
    return set(re.findall(r"[A-Za-z_][A-Za-z0-9_]*", decl))


def run(chk, tier, seed, replay):
    chk.assumptions += ["code paths: the table lib/props/c15_cases.py (each derive's struct / enum / attribute modes); one call per "
                        "generated method as the behavioural observation",
                        "hostile scope: no prelude + local items and macro_rules named like every prelude type, variant, trait and "
                        "macro + local modules core/std/alloc (one combined scope; single shadows are decided by TLC on the "
                        "extracted references)"]
    cases = CASES
    if replay:
        want = json.load(open(replay))["key"]
        cases = [c for c in CASES if c[0] == want or want.startswith("ref:" + c[0] + ":")]
    # ------------------------------------------------------------------ M: extraction + TLC
    reqs = []
    for key, decl, obs in cases:
        # every derive_more derive of the declaration is expanded on its item
        for m in re.finditer(r"((?:#\[[^\]]*\]\s*)+)pub (struct|enum) (\w+)", decl):
            pass
        items = split_items(decl)
        for j, (derives, item) in enumerate(items):
            for d in derives:
                reqs.append({"key": f"{key}#{j}:{d}", "derive": d, "item": item, "tokens": False})
    obs = vlib.run_inproc("expand", reqs)
    bare = set()
    for rq in reqs:
        o = obs[rq["key"]]
        chk.cov["evaluations"] += 1
        if o["outcome"] != "ok":
            continue
        users = user_idents(rq["item"])
        bound = set(o["bound"])
        for kind, first, full in o["refs"]:
            if kind == "abs":
                # `::core::..` resolves in every crate; `::derive_more::..` is the facade itself; anything else is recorded
                if first not in ("core", "derive_more") and first not in users:
                    bare.add((rq["key"].split("#")[0], kind, first))
                continue
            if first in IGNORE_FIRST or first in users or first.startswith("__"):
                continue
            if first in bound:
                continue   # a binding or a generic parameter the expansion introduces itself
            if kind == "expr" and first[0].islower() and first not in ("drop",):
                continue   # local variables / parameters of the generated fn (value/src/rhs/iter ...)
            bare.add((rq["key"].split("#")[0], kind, first))
    wd = os.path.join(vlib.WORK, "c15", "spec")
    os.makedirs(wd, exist_ok=True)
    for f in ("Hygiene.tla", "MC_Hygiene.tla", "MC_Hygiene.cfg"):
        shutil.copy(os.path.join(vlib.SPEC, f), wd)
    with open(os.path.join(wd, "HygieneData.tla"), "w") as f:
        elems = ",\n  ".join(f'<<"{p}", "{k}", "{n}">>' for p, k, n in sorted(bare))
        f.write("--------------------------- MODULE HygieneData ---------------------------\n"
                "\\* generated from the working tree by lib/props/c15.py: references of real expansions that do not go\n"
                "\\* through derive_more:: / :: / Self / own bindings / the user's tokens\n"
                f"Bare == {{\n  {elems}\n}}\n=============================================================================\n")
    r = vlib.run_tlc("MC_Hygiene", "MC_Hygiene", workers=2, timeout=900, cwd=wd, extra=["-continue"])
    chk.add_tlc(r, "extracted references x scopes")
    chk.notes["bare_references_extracted"] = len(bare)
    chk.cov["exhaustive"] = not replay
    for c in r.cases:
        path, kind, name = c["ref"]
        chk.cov["evaluations"] += 1
        if not c["hygienic"]:
            chk.deviation(f"ref:{path}:{kind}:{name}",
                          f"the expansion of `{path}` reaches `{name}` ({kind}) through the caller's scope; it does not resolve to "
                          f"the intended item in: {sorted(c['breaks'])[:8]}", case={"path": path, "reference": [kind, name]},
                          expected="reached through derive_more:: or ::", observed=c["breaks"], tags={"kind": "bare_ref", "name": name})
    # ------------------------------------------------------------------ R: hostile twins
    mods = []
    for key, decl, obss in cases:
        rows = []
        for j, ob in enumerate(obss):
            rows.append(f'{{ let a: ::std::string::String = {ob.replace("M::", "h::")}; let b: ::std::string::String = {ob.replace("M::", "n::")}; '
                        f'report({json.dumps(key + "@" + str(j))}, a == b, &a, &b); }}')
        mod = (f"use super::*;\npub mod h {{\n{HOSTILE}{decl}\n}}\npub mod n {{\n{NORMAL}{decl}\n}}\n"
               f"pub fn run() {{\n    " + "\n    ".join(rows) + "\n}")
        mods.append((key, mod))
    log(f"[C15] {len(bare)} bare references extracted from {len(reqs)} expansions; {len(mods)} hostile twins")
    nsh = 4
    shards = [mods[i::nsh] for i in range(nsh)]
    import concurrent.futures as cf

    def buildc(i):
        if not shards[i]:
            return {}, {}, None
        return vlib.run_case_crate(f"c15_{i}", shards[i], prelude=PRELUDE, target_dir=os.path.join(vlib.BUILD, f"target-c15-{i}"),
                                   features=("full",), max_rounds=12)
    with cf.ThreadPoolExecutor(max_workers=nsh) as ex:
        results = list(ex.map(buildc, range(nsh)))
    by_key = {k: (d, o) for k, d, o in cases}
    for i, (obs2, failed, br) in enumerate(results):
        for k, mod in shards[i]:
            decl, obss = by_key[k]
            chk.cov["evaluations"] += len(obss)
            chk.cov["distinct_nontrivial"] += 1
            if k in failed:
                chk.deviation(k, "the derive does not compile in a module without prelude / with shadowed prelude names: "
                              + failed[k][0]["message"][:220], case={"decl": decl}, expected="compiles like in an ordinary module",
                              observed=failed[k][:4], tags={"kind": "hostile_compile"})
                continue
            for j in range(len(obss)):
                o = obs2.get(f"{k}@{j}")
                if o is None:
                    chk.deviation(f"{k}@{j}", "no observation", case={"decl": decl}, expected="runs", observed=None, tags={"kind": "crash"})
                elif not o["same"]:
                    chk.deviation(f"{k}@{j}", f"behaviour differs in the hostile scope: {o['h']!r} vs {o['n']!r}", case={"decl": decl, "obs": obss[j]},
                                  expected=o["n"], observed=o["h"], tags={"kind": "hostile_behaviour"})
            if len(chk.cov["samples"]) < 3:
                chk.sample({"path": k, "decl": decl, "observations": obss})
        chk.cov["traces_validated_against_impl"] += len(shards[i])
    chk.cov["rule"] = f"{len(CASES)} code paths of the 50 derives; references extracted per path x scopes (TLC); hostile twin per path (rustc)"


def split_items(decl):
    """[(derive_more derives, item text without `pub`)] for every struct/enum of a declaration"""
    out = []
    # split at 'pub struct' / 'pub enum', keeping the attributes in front
    parts = re.split(r"(?=(?:#\[[^\n]*?\]\s*)*pub (?:struct|enum) )", decl)
    text = decl
    items = []
    idx = [m.start() for m in re.finditer(r"pub (?:struct|enum) ", decl)]
    # walk back over attributes
    starts = []
    for i in idx:
        s = i
        while True:
            m = re.search(r"#\[(?:[^\[\]]|\[[^\]]*\])*\]\s*$", decl[:s])
            if not m:
                break
            s = m.start()
        starts.append(s)
    for n, s in enumerate(starts):
        e = starts[n + 1] if n + 1 < len(starts) else len(decl)
        chunk = decl[s:e]
        # cut trailing impl blocks
        cut = chunk.find(" impl ")
        if cut > 0 and chunk.find("pub ") < cut:
            # keep up to the end of the item: first ';' or matching '}' after the item header
            pass
        item = item_only(chunk)
        derives = re.findall(r"derive_more::(\w+)", " ".join(re.findall(r"#\[derive\(([^\]]*)\)\]", item)))
        item = re.sub(r"#\[derive\([^\]]*\)\]\s*", "", item).replace("pub ", "")
        if derives:
            out.append((derives, item))
    return out


def item_only(chunk):
    """the attributes + struct/enum item at the start of chunk (drops what follows, e.g. `impl Error for ..`)"""
    i = chunk.index("pub ")
    depth = 0
    j = i
    while j < len(chunk):
        ch = chunk[j]
        if ch in "{(":
            depth += 1
        elif ch in "})":
            depth -= 1
            if depth == 0 and ch == "}":
                return chunk[:j + 1]
        elif ch == ";" and depth == 0:
            return chunk[:j + 1]
        j += 1
    return chunk
