"""C17 - synonymous attribute spellings are equivalent; contradictory ones rejected.

M : TLC checks Attrs.tla: attribute processing as a fold (merge) per documented grammar family; Result(list) is
    REJECT or the set of canonical contributions; laws: order-freeness, corruption => REJECT.
R : TLC's states are attribute lists (<= MaxAttrs per position) of 12 families; each is rendered onto a real item
    and expanded in-process on the working-tree sources. Lists with the same non-REJECT Result (= synonymous
    spellings: skip/ignore, bound/bounds/where, joined vs split type lists and reference kinds, trailing commas,
    any order) must expand to the same multiset of impls; REJECT lists must yield a diagnostic - never an
    expansion; a seeded sample of REJECT lists also goes through the real derive + rustc.
"""
import json
import os

import vlib
from vlib import log

FAM = {
    "fmt_container": dict(derives=["Display", "Debug"], item="{A} struct S<T, U>(core::marker::PhantomData<(T, U)>);", name="{n}", atoms={
        "lit": '("x")', "lit_comma": '("x",)', "lit_b": '("y")', "bound_T": "(bound(T: Clone))", "bounds_T": "(bounds(T: Clone))",
        "bound_U": "(bound(U: Copy))", "bound_TU": "(bound(T: Clone, U: Copy))", "legacy_fmt": '(fmt = "x")', "legacy_bound": '(bound = "T: Clone")',
        "unknown": "(frobnicate)"}),
    "fmt_enum": dict(derives=["Display"], item="{A} enum S {{ FooBar, Baz }}", name="display", atoms={
        "lit": '("x")', "lit_wrap": '("<{_variant}>")', "rename_snake": '(rename_all = "snake_case")', "rename_snake2": '(rename_all = "snake_case")',
        "rename_kebab": '(rename_all = "kebab-case")', "bound_u8": "(bound(u8: Copy))", "rename_bad": '(rename_all = "bogus_case")', "unknown": "(frobnicate)"}),
    "debug_field": dict(derives=["Debug"], item="struct S {{ {A} a: i32, b: u8 }}", name="debug", atoms={
        "skip": "(skip)", "ignore": "(ignore)", "lit": '("{a}")', "lit_comma": '("{a}",)', "unknown": "(frobnicate)"}),
    "debug_field_cfmt": dict(derives=["Debug"], item='#[debug("x")] struct S {{ {A} a: i32, b: u8 }}', name="debug", atoms={
        "skip": "(skip)", "ignore": "(ignore)", "lit": '("{a}")', "unknown": "(frobnicate)", "legacy_fmt": '(fmt = "x")'}),
    "debug_field_vfmt": dict(derives=["Debug"], item='enum S {{ #[debug("x")] V {{ {A} a: i32, b: u8 }}, W }}', name="debug", atoms={
        "skip": "(skip)", "ignore": "(ignore)", "lit": '("{a}")', "unknown": "(frobnicate)", "legacy_fmt": '(fmt = "x")'}),
    "debug_enum0": dict(derives=["Debug"], item="{A} enum S {{}}", name="debug", atoms={
        "lit": '("x")', "lit_b": '("{}", 1)', "bound_u8": "(bound(u8: Copy))", "unknown": "(frobnicate)"}),
    "debug_enum1": dict(derives=["Debug"], item="{A} enum S {{ A, B(i32) }}", name="debug", atoms={
        "lit": '("x")', "lit_b": '("{}", 1)', "bound_u8": "(bound(u8: Copy))", "unknown": "(frobnicate)"}),
    "from_variant": dict(derives=["From"], item="enum S {{ {A} A(i64), B(u8) }}", name="from", atoms={
        "from": "", "skip": "(skip)", "ignore": "(ignore)", "forward": "(forward)", "ty_a": "(i8)", "ty_b": "(i16)", "ty_ab": "(i8, i16)",
        "ty_ab_comma": "(i8, i16,)", "legacy_types": "(types(i8))"}),
    "from_struct": dict(derives=["From"], item="{A} struct S(i64);", name="from", atoms={
        "variant_only_from": "", "forward": "(forward)", "ty_a": "(i8)", "ty_b": "(i16)", "ty_ab": "(i8, i16)", "ty_ab_comma": "(i8, i16,)", "legacy_types": "(types(i8))"}),
    "asref_struct": dict(derives=["AsRef", "AsMut"], item="{A} struct S(Vec<u8>);", name="{n}", atoms={
        "forward": "(forward)", "ty_a": "([u8])", "ty_b": "(Vec<u8>)", "ty_ab": "([u8], Vec<u8>)", "ty_ab_comma": "([u8], Vec<u8>,)"}),
    "asref_field": dict(derives=["AsRef", "AsMut"], item="struct S {{ {A} a: Vec<u8>, b: u8 }}", name="{n}", atoms={
        "bare": "", "skip": "(skip)", "ignore": "(ignore)", "forward": "(forward)", "ty_a": "([u8])", "ty_b": "(Vec<u8>)", "ty_ab": "([u8], Vec<u8>)"}),
    "into_struct": dict(derives=["Into"], item="{A} struct S(i32);", name="into", atoms={
        "bare": "", "owned": "(owned)", "ref": "(ref)", "ref_mut": "(ref_mut)", "owned_ref": "(owned, ref)", "ref_refmut": "(ref, ref_mut)",
        "all3": "(owned, ref, ref_mut)", "all3_comma": "(owned, ref, ref_mut,)", "ty_a": "(i64)", "ty_b": "(i128)", "ty_ab": "(i64, i128)",
        "unknown_form": "(frob(i32))", "legacy_types": "(types(i64))", "mixed_forms": "(i64, ref(i32))",
        "forms_nocomma": "(ref(i32) ref_mut)", "groups_trailing": "(owned(i64,), ref(i32,))", "group_trailing_outer": "(ref(i32,),)",
        "group_then_bare": "(owned(i64), owned, ref(i32))"}),
    "into_field": dict(derives=["Into"], item="struct S {{ a: i32, {A} b: u8 }}", name="into", atoms={"skip": "(skip)", "ignore": "(ignore)"}),
    "legacy_field": dict(derives=["Deref", "DerefMut"], item="struct S {{ {A} a: Vec<u8>, b: u8 }}", name="{n}", atoms={
        "sel": "", "ignore": "(ignore)", "forward": "(forward)", "unknown": "(frobnicate)", "eq_value": ' = "x"',
        "name_value": "(forward = true)", "lit_param": '("forward")', "not_foreign": "(not(source))", "not_unneg": "(not(ignore))",
        "dup_flag": "(forward, forward)", "contra_flag": "(forward, not(forward))", "contra_flag_rev": "(not(forward), forward)",
        "dup_not": "(not(forward), not(forward))"}),
    "legacy_forms": dict(derives=["IntoIterator", "TryInto", "Unwrap", "TryUnwrap"], item=None, name="{n}", atoms={
        "owned": "(owned)", "ref": "(ref)", "ref_mut": "(ref_mut)", "owned_ref": "(owned, ref)", "all3": "(owned, ref, ref_mut)", "unknown": "(frobnicate)",
        "list_param": "(owned(i32))", "name_value": "(owned = true)", "not_foreign": "(not(forward))", "not_unneg": "(not(owned))", "dup_flag": "(owned, ref, owned)"}),
    "ignored_variant_field": dict(derives=["Unwrap", "TryUnwrap", "IsVariant", "TryInto"], item="enum S {{ #[{n}(ignore)] A({A} i32), B(u8) }}", name="{n}", atoms={
        "unknown": "(frobnicate)", "form_on_field": "(owned)", "list_param": "(ignore(x))"}),
    "error_field": dict(derives=["Error"], item="struct S {{ {A} a: Inner, b: u8 }}", name="error", atoms={
        "source": "(source)", "not_source": "(not(source))", "backtrace": "(backtrace)", "ignore": "(ignore)", "source_backtrace": "(backtrace, source)",
        "unknown": "(frobnicate)", "nested_not": "(not(not(source)))", "not_unknown": "(not(frobnicate))", "list_param": "(source(x))",
        "not_foreign": "(not(forward))", "not_unneg": "(not(ignore))", "dup_flag": "(source, source)", "contra_flag": "(source, not(source))", "contra_flag_rev": "(not(source), source)",
        "dup_not": "(not(source), not(source))"}),
}
ATTRNAME = {"IsVariant": "is_variant", "Display": "display", "Debug": "debug", "AsRef": "as_ref", "AsMut": "as_mut", "Deref": "deref", "DerefMut": "deref_mut",
            "IntoIterator": "into_iterator", "TryInto": "try_into", "Unwrap": "unwrap", "TryUnwrap": "try_unwrap"}
LEGACY_ITEMS = {"IntoIterator": "{A} struct S(Vec<u8>);", "TryInto": "{A} enum S {{ A(i32), B(u8) }}", "Unwrap": "{A} enum S {{ A(i32), B(u8) }}",
                "TryUnwrap": "{A} enum S {{ A(i32), B(u8) }}"}


SEP = {"adjacent": None, "doc": "/// a doc comment\n", "allow": "#[allow(dead_code)]"}


for _f in FAM.values():
    _f["atoms"].setdefault("eq_value", ' = "x"')


def render(fam, atoms, derive, sep="adjacent"):
    F = FAM[fam]
    name = F["name"].format(n=ATTRNAME.get(derive, derive.lower()))
    own = [f"#[{name}{F['atoms'][a]}]" for a in atoms]
    if SEP[sep] is None:
        attrs = " ".join(own)
    else:
        # Interleave of Attrs.tla: a foreign attribute before, between and after the derive's own
        attrs = " ".join([SEP[sep]] + [x for o in own for x in (o, SEP[sep])])
    item = F["item"] or LEGACY_ITEMS[derive]
    return item.format(A=attrs, n=name)


def norm_impls(o):
    out = []
    for im in o["impls"]:
        out.append(json.dumps([im["trait"], im["trait_args"], im["self_ty"], sorted(im["where"]), sorted(im["params"]),
                               [[f["name"], f["sig"], f["body"]] for f in im["fns"]]], sort_keys=True))
    return sorted(out)


def run(chk, tier, seed, replay):
    chk.assumptions += ["families and spellings are the table FAM (one representative item per family); `unknown` arguments are only "
                        "generated where arguments are not types (an unknown type name reaches rustc as an unresolved path instead)",
                        "two expansions are `the same implementation` when their impls are equal as a multiset after sorting "
                        "where-predicates and generic parameters"]
    r = vlib.run_tlc("MC_Attrs", f"MC_Attrs_{tier}", workers=4, timeout=1800, xmx="4g")
    chk.add_tlc(r, "attribute lists")
    if not r.ok:
        raise vlib.ToolError(f"TLC: {r.violation}\n{r.raw_tail[-1500:]}")
    reqs, meta = [], {}
    for c in r.cases:
        fam = c["f"]
        for d in FAM[fam]["derives"]:
            item = render(fam, c["as"], d, c["sep"])
            key = f"{fam}|{d}|{','.join(c['as'])}" + ("" if c["sep"] == "adjacent" else "|" + c["sep"])
            reqs.append({"key": key, "derive": d, "item": item, "tokens": False})
            meta[key] = (fam, d, c["as"], tuple(sorted((x[0], x[1]) for x in c["res"])), item)
    if replay:
        want = json.load(open(replay))["key"]
        fam_d = "|".join(want.split("|")[:2])
        reqs = [x for x in reqs if x["key"].startswith(fam_d)]
    chk.cov["exhaustive"] = not replay
    obs = vlib.run_inproc("expand", reqs)
    classes = {}
    for rq in reqs:
        k = rq["key"]
        fam, d, atoms, res, item = meta[k]
        o = obs[k]
        chk.cov["evaluations"] += 1
        if res == (("REJECT", 0),):
            if o["outcome"] == "ok":
                chk.deviation(k, "an attribute list the documented grammar does not allow is accepted (silently merged or ignored)",
                              case={"item": item, "derive": d}, expected="diagnostic", observed="expansion",
                              tags={"kind": "accepted", "family": fam, "atoms": list(atoms)})
            elif o["outcome"] in ("crash", "timeout"):
                chk.deviation(k, f"{o['outcome']} instead of a diagnostic", case={"item": item}, expected="diagnostic", observed=o,
                              tags={"kind": o["outcome"]})
            continue
        if o["outcome"] != "ok":
            chk.deviation(k, f"a documented attribute spelling is rejected: {o.get('msg', '')[:200]}", case={"item": item, "derive": d},
                          expected="expansion", observed=o, tags={"kind": "rejected", "family": fam, "atoms": list(atoms)})
            continue
        classes.setdefault((fam, d, res), []).append((k, norm_impls(o), item))
    nontriv = 0
    for (fam, d, res), members in classes.items():
        if len(members) > 1:
            nontriv += len(members)
        ref_k, ref_norm, ref_item = members[0]
        for k, nm, item in members[1:]:
            if nm != ref_norm:
                chk.deviation(k, f"synonymous spellings expand differently: `{item}` vs `{ref_item}`",
                              case={"item": item, "same_as": ref_item, "derive": d}, expected=ref_norm, observed=nm,
                              tags={"kind": "synonym", "family": fam})
        if len(chk.cov["samples"]) < 4 and len(members) >= 3:
            chk.sample({"family": fam, "derive": d, "canonical_result": list(res), "synonymous_items": [m[2] for m in members[:4]]})
    chk.cov["distinct_nontrivial"] += nontriv
    chk.cov["traces_validated_against_impl"] += len(reqs)
    chk.notes["equivalence_classes"] = len(classes)
    # a seeded sample of REJECT lists through the real derive + rustc
    rej = [k for k in meta if meta[k][3] == (("REJECT", 0),) and (not replay or k == want)]
    rej = sorted(rej, key=lambda k: vlib.seeded_pick(k, seed, 1 << 30))[:(80 if tier == "quick" else 400)]
    if rej:
        prelude = ("#[derive(Debug)] pub struct Inner; impl core::fmt::Display for Inner { fn fmt(&self, f: &mut core::fmt::Formatter<'_>) -> core::fmt::Result { Ok(()) } }\n"
                   "impl std::error::Error for Inner {}\n")
        snips = []
        for k in rej:
            fam, d, atoms, res, item = meta[k]
            extra = "#[derive(Debug)] " if d == "Error" else ""
            disp = "\nimpl core::fmt::Display for S { fn fmt(&self, f: &mut core::fmt::Formatter<'_>) -> core::fmt::Result { Ok(()) } }" if d == "Error" else ""
            snips.append((k, f"use super::*;\n{extra}#[derive(derive_more::{d})]\n{item}{disp}"))
        per, br = vlib.verdict_crate("c17_reject", snips, prelude=prelude)
        for k in rej:
            chk.cov["evaluations"] += 1
            if not [x for x in per[k] if x["level"] == "error"]:
                chk.deviation(k + "|rustc", "a contradictory / unknown / legacy attribute compiles with the real derive",
                              case={"item": meta[k][4], "derive": meta[k][1]}, expected="compile error", observed="compiled",
                              tags={"kind": "accepted_rustc", "family": meta[k][0], "atoms": list(meta[k][2])})
    chk.cov["rule"] = ("attribute lists of <= MaxAttrs spellings per position for 12 grammar families x their derives; non-trivial = members "
                       "of an equivalence class with several spellings")
