"""C14 - delegating derives expose the selected field itself.

M : TLC checks Delegate.tla (the documented selection rule vs State::new_impl's `default_enabled` taken from the
    first attributed field + assert_single_enabled_field; AsRef's struct/field attribute rule) on every
    assignment of attribute marks to <= MaxFields fields x struct-level attribute.
R : every documented case becomes real structs for Deref(+DerefMut), Index(+IndexMut), IntoIterator and
    AsRef(+AsMut); all fields of the legacy derives have the SAME type so that selecting a neighbour still
    compiles; returned references are compared by address with the selected field (or with what the field's
    own impl returns for forward/index/iteration), writes through the mutable forms are read back from the
    field; AsRef uses instrumented field types whose own `AsRef<Self>` returns a different object, so a
    forwarded call where the field itself is promised is visible. Error cases must fail to compile.
"""
import json
import os

import vlib
from vlib import log

PRELUDE = r'''
use core::ops::{Deref, DerefMut};
pub fn ad<T: ?Sized>(t: &T) -> usize { t as *const T as *const u8 as usize }
pub fn is_u8_slice<T: ?Sized + 'static>(_: &T) -> bool { core::any::TypeId::of::<T>() == core::any::TypeId::of::<[u8]>() }
pub fn report(k: &str, rows: &[String]) { println!("OBS {{\"k\": {:?}, \"rows\": [{}]}}", k, rows.iter().map(|r| format!("{:?}", r)).collect::<Vec<_>>().join(", ")); }
// instrumented field types for AsRef/AsMut: Fi holds a Gi; Fi's own AsRef<Fi> returns ANOTHER object
macro_rules! fty { ($f:ident, $g:ident, $alias:ident, $other:ident) => {
    #[derive(Debug, PartialEq)] pub struct $g(pub u8);
    #[derive(Debug, PartialEq)] pub struct $f { pub g: $g, pub spare: Box<$f2<$g>> }
    pub type $alias = $f;
} }
pub struct Spare<F>(pub Option<F>);
'''

# simpler, explicit instrumented types (three of them)
def asref_types():
    out = []
    for i in (1, 2, 3):
        out.append(f"""
#[derive(Debug, PartialEq)] pub struct G{i}(pub u8);
#[derive(Debug)] pub struct F{i} {{ pub g: G{i}, pub other: Option<Box<F{i}>> }}
pub type A{i} = F{i};
impl F{i} {{ pub fn new(v: u8) -> F{i} {{ F{i} {{ g: G{i}(v), other: Some(Box::new(F{i} {{ g: G{i}(v + 100), other: None }})) }} }}
    // inherent methods named like the trait methods: method-call syntax in an expansion would reach these (a third object)
    pub fn as_ref(&self) -> &G{i} {{ &self.other.as_deref().unwrap().g }}
    pub fn as_mut(&mut self) -> &mut G{i} {{ &mut self.other.as_deref_mut().unwrap().g }} }}
impl AsRef<F{i}> for F{i} {{ fn as_ref(&self) -> &F{i} {{ self.other.as_deref().unwrap() }} }}
impl AsMut<F{i}> for F{i} {{ fn as_mut(&mut self) -> &mut F{i} {{ self.other.as_deref_mut().unwrap() }} }}
impl AsRef<G{i}> for F{i} {{ fn as_ref(&self) -> &G{i} {{ &self.g }} }}
impl AsMut<G{i}> for F{i} {{ fn as_mut(&mut self) -> &mut G{i} {{ &mut self.g }} }}
""")
    return "".join(out)


DST_TYPES = r'''
// a collection whose inherent `into_iter` / `iter` visit the elements in REVERSE, unlike its IntoIterator impls
pub struct Col(pub Vec<u8>);
impl Col { pub fn into_iter(self) -> std::iter::Rev<std::vec::IntoIter<u8>> { self.0.into_iter().rev() }
           pub fn iter(&self) -> std::iter::Rev<std::slice::Iter<'_, u8>> { self.0.iter().rev() } }
impl IntoIterator for Col { type Item = u8; type IntoIter = std::vec::IntoIter<u8>; fn into_iter(self) -> Self::IntoIter { self.0.into_iter() } }
impl<'a> IntoIterator for &'a Col { type Item = &'a u8; type IntoIter = std::slice::Iter<'a, u8>; fn into_iter(self) -> Self::IntoIter { self.0.iter() } }
impl<'a> IntoIterator for &'a mut Col { type Item = &'a mut u8; type IntoIter = std::slice::IterMut<'a, u8>; fn into_iter(self) -> Self::IntoIter { self.0.iter_mut() } }
pub struct Absent;
macro_rules! impls { ($t:ty : $($tr:tt)+) => {{
    trait Fb { const V: bool = false; } impl<T: ?Sized> Fb for T {}
    struct W<T: ?Sized>(core::marker::PhantomData<T>);
    #[allow(dead_code)] impl<T: ?Sized + $($tr)+> W<T> { const V: bool = true; }
    <W<$t>>::V }} }
// an UNSIZED field type (a transparent wrapper of [u8]) whose own AsRef<Self>/AsMut<Self> drop the first byte, and whose
// AsRef<[u8]> is the whole slice: the field itself and a forwarded call are told apart by address and length
#[repr(transparent)] pub struct Dst(pub [u8]);
pub type DstAlias = Dst;
impl Dst { pub fn new(b: &[u8]) -> &Dst { unsafe { &*(b as *const [u8] as *const Dst) } }
           pub fn new_mut(b: &mut [u8]) -> &mut Dst { unsafe { &mut *(b as *mut [u8] as *mut Dst) } } }
impl AsRef<Dst> for Dst { fn as_ref(&self) -> &Dst { Dst::new(&self.0[1..]) } }
impl AsMut<Dst> for Dst { fn as_mut(&mut self) -> &mut Dst { Dst::new_mut(&mut self.0[1..]) } }
impl AsRef<[u8]> for Dst { fn as_ref(&self) -> &[u8] { &self.0 } }
impl AsMut<[u8]> for Dst { fn as_mut(&mut self) -> &mut [u8] { &mut self.0 } }
'''

PRELUDE = r'''
use core::ops::{Deref, DerefMut};
pub fn ad<T: ?Sized>(t: &T) -> usize { t as *const T as *const u8 as usize }
pub fn is_u8_slice<T: ?Sized + 'static>(_: &T) -> bool { core::any::TypeId::of::<T>() == core::any::TypeId::of::<[u8]>() }
pub fn report(k: &str, rows: &[String]) { println!("OBS {{\"k\": {:?}, \"rows\": [{}]}}", k, rows.iter().map(|r| format!("{:?}", r)).collect::<Vec<_>>().join(", ")); }
''' + DST_TYPES + asref_types() + "\npub mod tm { pub use super::{F1, F2, F3}; }\n"

NAMES = ["a", "b", "c"]


def key_of(c, fam, named):
    return f"{fam}|{'n' if named else 't'}|{','.join(c['fs'])}|{c['sattr']}"


def legacy_struct(c, attr, named, marks_map, sattr_text, fty="Vec<u8>", derives=""):
    fs = c["fs"]
    fields = []
    for i, m in enumerate(fs):
        a = marks_map.get(m, "")
        a = (a + " ") if a else ""
        fields.append(f"{a}pub {NAMES[i]}: {fty}" if named else f"{a}pub {fty}")
    body = ("{ " + ", ".join(fields) + " }") if named else ("(" + ", ".join(fields) + ");")
    init_vals = [f"vec![{10 * (i + 1)}, {10 * (i + 1) + 1}, {10 * (i + 1) + 2}]" for i in range(len(fs))]
    init = ("S { " + ", ".join(f"{NAMES[i]}: {v}" for i, v in enumerate(init_vals)) + " }") if named else ("S(" + ", ".join(init_vals) + ")")
    return f"#[derive({derives}, Clone)]\n{sattr_text}pub struct S{body}", init


def member(i, named):
    return NAMES[i] if named else str(i)


def legacy_modules(c, named):
    """(key, module text, expected rows) per legacy derive, or reject entries"""
    out, rej = [], []
    fs, sattr = c["fs"], c["sattr"]
    doc = c["legacy"]
    if doc[0] == "na" or not c["documented"]:
        return out, rej
    # ---------- Deref / DerefMut
    marks = {"sel": "#[deref] #[deref_mut]", "ign": "#[deref(ignore)] #[deref_mut(ignore)]", "fwd": "#[deref(forward)] #[deref_mut(forward)]"}
    st = "#[deref(forward)]\n#[deref_mut(forward)]\n" if sattr == "fwd" else ""
    decl, init = legacy_struct(c, "deref", named, marks, st, derives="derive_more::Deref, derive_more::DerefMut")
    k = key_of(c, "deref", named)
    if doc[0] == "error":
        rej.append((k, "use super::*;\n" + decl))
    else:
        i = doc[1][0] - 1
        mode = doc[2]
        f = member(i, named)
        others = [member(j, named) for j in range(len(fs)) if j != i]
        # (what `*s` IS, not what it coerces to: the field itself is a Vec<u8>, the forwarded target a [u8])
        tgt = 'rows.push(format!("target_is_slice {}", is_u8_slice(&*s)));'
        if mode == "fwd":
            rows = [tgt, f'rows.push(format!("deref {{}}", (&*s).as_ptr() as usize == s.{f}.as_ptr() as usize));',
                    f'{{ let mut m = s.clone(); (*m)[0] = 99; rows.push(format!("deref_mut {{}} {{}}", m.{f}[0] == 99, ' +
                    (" && ".join(f"m.{o} == s.{o}" for o in others) or "true") + ')); }']
        else:
            rows = [tgt, f'rows.push(format!("deref {{}}", ad(&*s) == ad(&s.{f})));',
                    f'{{ let mut m = s.clone(); (*m).push(99); rows.push(format!("deref_mut {{}} {{}}", m.{f}.last() == Some(&99), ' +
                    (" && ".join(f"m.{o} == s.{o}" for o in others) or "true") + ')); }']
        out.append((k, f"use super::*;\n{decl}\npub fn run() {{ let s = {init}; let mut rows: Vec<String> = vec![];\n    " + "\n    ".join(rows) +
                    f"\n    report({json.dumps(k)}, &rows); }}", [f"target_is_slice {'true' if mode == 'fwd' else 'false'}", "deref true", "deref_mut true true"]))
    # ---------- Index / IndexMut (no forward mark)
    if "fwd" not in fs and sattr == "none":
        marks = {"sel": "#[index] #[index_mut]", "ign": "#[index(ignore)] #[index_mut(ignore)]"}
        decl, init = legacy_struct(c, "index", named, marks, "", derives="derive_more::Index, derive_more::IndexMut")
        k = key_of(c, "index", named)
        if doc[0] == "error":
            rej.append((k, "use super::*;\n" + decl))
        else:
            i = doc[1][0] - 1
            f = member(i, named)
            others = [member(j, named) for j in range(len(fs)) if j != i]
            rows = [f'rows.push(format!("index {{}} {{}}", ad(&s[1]) == ad(&s.{f}[1]), ad(&s[0..2]) == ad(&s.{f}[0..2])));',
                    f'{{ let mut m = s.clone(); m[2] = 77; rows.push(format!("index_mut {{}} {{}}", m.{f}[2] == 77, ' +
                    (" && ".join(f"m.{o} == s.{o}" for o in others) or "true") + ')); }']
            out.append((k, f"use super::*;\n{decl}\npub fn run() {{ let s = {init}; let mut rows: Vec<String> = vec![];\n    " + "\n    ".join(rows) +
                        f"\n    report({json.dumps(k)}, &rows); }}", ["index true true", "index_mut true true"]))
    # ---------- IntoIterator (owned, ref, ref_mut forms; no forward mark)
    if "fwd" not in fs and sattr == "none":
        # every non-empty set of listed reference forms (struct-level when no field is marked, else on the marked field)
        FORMSETS = [["owned", "ref", "ref_mut"], ["owned"], ["ref"], ["ref_mut"], ["owned", "ref"], ["owned", "ref_mut"], ["ref", "ref_mut"]]
        k0 = key_of(c, "into_iterator", named)
        for forms in FORMSETS:
            ftxt = ", ".join(forms)
            marks = {"sel": f"#[into_iterator({ftxt})]", "ign": "#[into_iterator(ignore)]"}
            st = f"#[into_iterator({ftxt})]\n" if "sel" not in fs else ""
            decl, init = legacy_struct(c, "into_iterator", named, marks, st, derives="derive_more::IntoIterator")
            k = k0 + "|forms:" + "+".join(forms)
            if doc[0] == "error":
                rej.append((k, "use super::*;\n" + decl))
            else:
                i = doc[1][0] - 1
                f = member(i, named)
                rows = [f'rows.push(format!("iter_owned {{}}", s.clone().into_iter().collect::<Vec<u8>>() == s.{f}.clone().into_iter().collect::<Vec<u8>>()));',
                        f'rows.push(format!("iter_ref {{}}", (&s).into_iter().map(|x| ad(x)).collect::<Vec<_>>() == (&s.{f}).into_iter().map(|x| ad(x)).collect::<Vec<_>>()));',
                        f'{{ let mut m = s.clone(); for x in &mut m {{ *x += 1; }} rows.push(format!("iter_mut {{}}", m.{f} == s.{f}.iter().map(|x| x + 1).collect::<Vec<u8>>())); }}']
                want = {"owned": "iter_owned true", "ref": "iter_ref true", "ref_mut": "iter_mut true"}
                rows = [r for r, f_ in zip(rows, ("owned", "ref", "ref_mut")) if f_ in forms]
                out.append((k, f"use super::*;\n{decl}\npub fn run() {{ let s = {init}; let mut rows: Vec<String> = vec![];\n    " + "\n    ".join(rows) +
                            f"\n    report({json.dumps(k)}, &rows); }}", [want[f_] for f_ in ("owned", "ref", "ref_mut") if f_ in forms]))
    return out, rej


def asref_modules(c, named, variant):
    """variant: 'plain' | 'alias' (the listed type is a type alias of the field type -> specialised path)
       | 'generic' (the first field's type is a type parameter)"""
    out, rej = [], []
    fs, sattr = c["fs"], c["sattr"]
    doc = c["asref"]
    k = key_of(c, "as_ref:" + variant, named)
    n = len(fs)
    if sum(1 for m in fs if m == "fwd") > 1:
        return out, rej      # two blanket impls overlap: not a documented use
    if ("fwd" in fs or sattr == "fwd") and n > 1 and any(m in ("sel", "tys") for m in fs):
        return out, rej      # a blanket impl next to concrete ones overlaps
    generic = variant in ("generic", "generic_partial")
    # 'shadowseg': the struct has a type parameter NAMED like the last segment of the (concrete) field type's path,
    # `struct S<F1>(tm::F1, PhantomData<F1>)`, and lists the field type through its alias: the field is not generic
    shadowseg = variant == "shadowseg"

    def fty(i):
        if shadowseg:
            return f"tm::F{i + 1}"
        return "T" if (generic and i == 0) else f"F{i + 1}"

    def tys_list(i):
        me = f"A{i + 1}" if variant in ("alias", "shadowseg") else fty(i)
        if variant == "generic_partial":
            # a listed type the instantiation does NOT convert to comes first: each listed type gets an impl of its own,
            # demanding that conversion only
            return f"Absent, G{i + 1}"
        return f"G{i + 1}, {me}"
    marks = {}
    fields = []
    for i, m in enumerate(fs):
        a = {"none": "", "sel": "#[as_ref] #[as_mut] ", "ign": "#[as_ref(skip)] #[as_mut(skip)] ", "fwd": "#[as_ref(forward)] #[as_mut(forward)] ",
             "tys": f"#[as_ref({tys_list(i)})] #[as_mut({tys_list(i)})] "}[m]
        fields.append(f"{a}pub {NAMES[i]}: {fty(i)}" if named else f"{a}pub {fty(i)}")
    st = {"none": "", "fwd": "#[as_ref(forward)]\n#[as_mut(forward)]\n", "tys": f"#[as_ref({tys_list(0)})]\n#[as_mut({tys_list(0)})]\n"}[sattr]
    g = "<T>" if generic else ("<F1>" if shadowseg else "")
    if shadowseg:
        fields.append("pub ph: core::marker::PhantomData<F1>" if named else "pub core::marker::PhantomData<F1>")
    body = ("{ " + ", ".join(fields) + " }") if named else ("(" + ", ".join(fields) + ");")
    decl = f"#[derive(derive_more::AsRef, derive_more::AsMut)]\n{st}pub struct S{g}{body}"
    vals = [f"F{i + 1}::new({i + 1})" for i in range(n)]
    if shadowseg:
        init = ("S::<u8> { " + ", ".join(f"{NAMES[i]}: {v}" for i, v in enumerate(vals)) + ", ph: core::marker::PhantomData }") if named \
            else ("S::<u8>(" + ", ".join(vals) + ", core::marker::PhantomData)")
    else:
        init = ("S { " + ", ".join(f"{NAMES[i]}: {v}" for i, v in enumerate(vals)) + " }") if named else ("S(" + ", ".join(vals) + ")")
    if doc[0] == "error":
        if variant == "plain":
            rej.append((k, "use super::*;\n" + decl))
        return out, rej
    sel = [i - 1 for i in doc[1]]
    rows, exp = [], []
    for i in sel:
        f = member(i, named)
        mode = doc[2] if doc[2] != "per-field" else fs[i]
        F, G = f"F{i + 1}", f"G{i + 1}"
        if mode in ("sel", "none"):
            rows.append(f'rows.push(format!("as_ref {i} {{}}", ad(AsRef::<{F}>::as_ref(&s)) == ad(&s.{f})));')
            exp.append(f"as_ref {i} true")
            rows.append(f'{{ let mut m = {init}; AsMut::<{F}>::as_mut(&mut m).g = {G}(250); rows.push(format!("as_mut {i} {{}}", m.{f}.g == {G}(250))); }}')
            exp.append(f"as_mut {i} true")
        elif mode == "fwd":
            rows.append(f'rows.push(format!("as_ref_fwd {i} {{}} {{}}", ad(AsRef::<{G}>::as_ref(&s)) == ad(AsRef::<{G}>::as_ref(&s.{f})), ad(AsRef::<{F}>::as_ref(&s)) == ad(AsRef::<{F}>::as_ref(&s.{f}))));')
            exp.append(f"as_ref_fwd {i} true true")
            rows.append(f'{{ let mut m = {init}; *AsMut::<{G}>::as_mut(&mut m) = {G}(251); rows.push(format!("as_mut_fwd {i} {{}}", m.{f}.g == {G}(251))); }}')
            exp.append(f"as_mut_fwd {i} true")
        elif mode == "tys" and variant == "generic_partial":
            rows.append(f'rows.push(format!("as_ref_partial {i} {{}} {{}}", ad(AsRef::<{G}>::as_ref(&s)) == ad(&s.{f}.g), impls!(S<F1>: AsRef<Absent>)));')
            exp.append(f"as_ref_partial {i} true false")
            rows.append(f'{{ let mut m = {init}; *AsMut::<{G}>::as_mut(&mut m) = {G}(253); rows.push(format!("as_mut_partial {i} {{}}", m.{f}.g == {G}(253))); }}')
            exp.append(f"as_mut_partial {i} true")
        elif mode == "tys":
            # listed G: what the field's own impl returns; listed field type (or its alias): the field ITSELF
            rows.append(f'rows.push(format!("as_ref_tys {i} {{}} {{}}", ad(AsRef::<{G}>::as_ref(&s)) == ad(&s.{f}.g), ad(AsRef::<{F}>::as_ref(&s)) == ad(&s.{f})));')
            exp.append(f"as_ref_tys {i} true true")
            rows.append(f'{{ let mut m = {init}; AsMut::<{F}>::as_mut(&mut m).g = {G}(252); rows.push(format!("as_mut_tys {i} {{}}", m.{f}.g == {G}(252))); }}')
            exp.append(f"as_mut_tys {i} true")
    if not rows:
        return out, rej
    ann = "<F1>" if generic else ("<u8>" if shadowseg else "")
    mod = (f"use super::*;\n{decl}\npub fn run() {{ let s: S{ann} = {init}; let mut rows: Vec<String> = vec![];\n    " + "\n    ".join(rows) +
           f"\n    report({json.dumps(k)}, &rows); }}")
    out.append((k, mod, exp))
    return out, rej


def pointer_field_modules():
    """Fields that are POINTERS to the listed type (`&'a F1`, `&'a mut F1`, `Box<F1>`, `Rc<F1>`) with `#[as_ref(F1)]` / `#[as_mut(F1)]`:
    the listed type is NOT the field's type, so the derive forwards to the field's own impl - std's blanket impls for references
    reach F1's own (instrumented, non-identity) `AsRef<F1>`, Box / Rc return the pointee. Whatever the field's impl returns is
    the oracle, computed by calling it directly."""
    out = []
    forms = [("shared", "&'a F1", "<'a>", False), ("unique", "&'a mut F1", "<'a>", True), ("boxed", "Box<F1>", "", True),
             ("rc", "std::rc::Rc<F1>", "", False)]
    for named in (False, True):
        for name, fty, g, has_mut in forms:
            k = f"as_ref:pointer_field:{name}:{'named' if named else 'tuple'}"
            attrs = "#[as_ref(F1)] " + ("#[as_mut(F1)] " if has_mut else "")
            der = "derive_more::AsRef" + (", derive_more::AsMut" if has_mut else "")
            body = f"{{ {attrs}pub a: {fty}, pub pad: u8 }}" if named else f"({attrs}pub {fty}, pub u8);"
            f = "a" if named else "0"
            mk = {"shared": "&f1", "unique": "&mut f1", "boxed": "Box::new(f1)", "rc": "std::rc::Rc::new(f1)"}[name]
            init = f"S {{ a: {mk}, pad: 0 }}" if named else f"S({mk}, 0)"
            rows = [f'rows.push(format!("as_ref {{}}", ad(AsRef::<F1>::as_ref(&s)) == ad(AsRef::<F1>::as_ref(&s.{f}))));']
            exp = ["as_ref true"]
            if has_mut:
                rows.append(f'{{ let want = ad(AsRef::<F1>::as_ref(&s.{f})); AsMut::<F1>::as_mut(&mut s).g.0 = 77; '
                            f'rows.push(format!("as_mut {{}} {{}}", AsRef::<F1>::as_ref(&s.{f}).g.0, ad(AsRef::<F1>::as_ref(&s.{f})) == want)); }}')
                exp.append("as_mut 77 true")
            mod = (f"use super::*;\n#[derive({der})]\npub struct S{g}{body}\npub fn run() {{ let mut rows: Vec<String> = vec![];\n"
                   f"    #[allow(unused_mut)] let mut f1 = F1::new(1);\n    #[allow(unused_mut)] let mut s = {init};\n    " + "\n    ".join(rows) +
                   f"\n    report({json.dumps(k)}, &rows); }}")
            out.append((k, mod, exp))
    return out


def dst_modules(c, named, alias):
    """one-field structs whose field is the unsized `Dst`: the struct is unsized too, `&S` is made from a slice"""
    fs, sattr, doc = c["fs"], c["sattr"], c["asref"]
    if len(fs) != 1 or doc[0] == "error" or fs[0] == "ign":
        return []
    k = key_of(c, "as_ref:dst" + ("_alias" if alias else ""), named)
    me = "DstAlias" if alias else "Dst"
    tl = f"[u8], {me}"
    a = {"none": "", "sel": "#[as_ref] #[as_mut] ", "fwd": "#[as_ref(forward)] #[as_mut(forward)] ",
         "tys": f"#[as_ref({tl})] #[as_mut({tl})] "}[fs[0]]
    st = {"none": "", "fwd": "#[as_ref(forward)]\n#[as_mut(forward)]\n", "tys": f"#[as_ref({tl})]\n#[as_mut({tl})]\n"}[sattr]
    if alias and fs[0] != "tys" and sattr != "tys":
        return []
    body = f"{{ {a}pub a: Dst }}" if named else f"({a}pub Dst);"
    f = "a" if named else "0"
    decl = (f"#[derive(derive_more::AsRef, derive_more::AsMut)]\n{st}#[repr(transparent)]\npub struct S{body}\n"
            "fn mk(b: &mut [u8]) -> &mut S { unsafe { &mut *(b as *mut [u8] as *mut S) } }")
    mode = doc[2] if doc[2] != "per-field" else fs[0]
    rows, exp = [], []
    if mode in ("sel", "none", "tys"):
        rows.append(f'{{ let r: &Dst = AsRef::<Dst>::as_ref(&*s); rows.push(format!("as_ref {{}} {{}}", ad(r) == ad(&s.{f}), r.0.len())); }}')
        exp.append("as_ref true 4")
        rows.append(f'{{ let mut b2 = [1u8, 2, 3, 4]; {{ let m = mk(&mut b2); let r: &mut Dst = AsMut::<Dst>::as_mut(m); r.0[0] = 99; }} rows.push(format!("as_mut {{:?}}", b2)); }}')
        exp.append("as_mut [99, 2, 3, 4]")
    if mode == "tys":
        rows.append(f'{{ let r: &[u8] = AsRef::<[u8]>::as_ref(&*s); rows.push(format!("as_ref_slice {{}} {{}}", ad(r) == ad(&s.{f}), r.len())); }}')
        exp.append("as_ref_slice true 4")
    if mode == "fwd":
        rows.append(f'{{ let r: &Dst = AsRef::<Dst>::as_ref(&*s); let w: &[u8] = AsRef::<[u8]>::as_ref(&*s); rows.push(format!("as_ref_fwd {{}} {{}}", r.0.len(), w.len())); }}')
        exp.append("as_ref_fwd 3 4")
        rows.append(f'{{ let mut b2 = [1u8, 2, 3, 4]; {{ let m = mk(&mut b2); let r: &mut Dst = AsMut::<Dst>::as_mut(m); r.0[0] = 99; }} rows.push(format!("as_mut_fwd {{:?}}", b2)); }}')
        exp.append("as_mut_fwd [1, 99, 3, 4]")
    if not rows:
        return []
    mod = (f"use super::*;\n{decl}\npub fn run() {{ let mut b = [1u8, 2, 3, 4]; let s: &S = mk(&mut b); let mut rows: Vec<String> = vec![];\n    "
           + "\n    ".join(rows) + f"\n    report({json.dumps(k)}, &rows); }}")
    return [(k, mod, exp)]


def not_forward_modules():
    """`not(forward)` (accepted by the attribute parser of Deref / DerefMut) is the un-forwarded derive: alone, and on the
    field under an item-level `forward` it takes back"""
    out = []
    for named in (False, True):
        for outer in (False, True):
            k = f"not_forward|{'n' if named else 't'}|{'under_forward' if outer else 'alone'}"
            top = "#[deref(forward)]\n#[deref_mut(forward)]\n" if outer else ""
            fa = "#[deref(not(forward))] #[deref_mut(not(forward))] "
            body = f"{{ {fa}pub a: Vec<u8> }}" if named else f"({fa}pub Vec<u8>);"
            f = "a" if named else "0"
            init = "S { a: vec![1, 2] }" if named else "S(vec![1, 2])"
            mod = (f"use super::*;\n#[derive(derive_more::Deref, derive_more::DerefMut)]\n{top}pub struct S{' ' if named else ''}{body}\n"
                   f"pub fn run() {{ let mut s = {init}; let mut rows: Vec<String> = vec![];\n"
                   f"    {{ let r: &Vec<u8> = &*s; rows.push(format!(\"deref {{}}\", ad(r) == ad(&s.{f}))); }}\n"
                   f"    {{ let m: &mut Vec<u8> = &mut *s; m.push(3); }} rows.push(format!(\"deref_mut {{:?}}\", s.{f}));\n"
                   f"    report({json.dumps(k)}, &rows); }}")
            out.append((k, mod, ["deref true", "deref_mut [1, 2, 3]"]))
    return out


def into_iter_poison_modules():
    """IntoIterator on a field whose type ALSO has an inherent `into_iter` (visiting the elements in another order): the derive
    yields what the field's IntoIterator impl yields - an expansion that writes `self.0.into_iter()` reaches the inherent one"""
    out = []
    for named in (False, True):
        k = f"into_iterator_poison|{'n' if named else 't'}"
        body = "{ #[into_iterator(owned, ref, ref_mut)] pub a: Col, pub b: u8 }" if named else "(#[into_iterator(owned, ref, ref_mut)] pub Col, pub u8);"
        init = "S { a: Col(vec![1, 2, 3]), b: 0 }" if named else "S(Col(vec![1, 2, 3]), 0)"
        mod = (f"use super::*;\n#[derive(derive_more::IntoIterator)]\npub struct S{' ' if named else ''}{body}\n"
               f"pub fn run() {{ let mut rows: Vec<String> = vec![];\n"
               f"    rows.push(format!(\"owned {{:?}}\", IntoIterator::into_iter({init}).collect::<Vec<u8>>()));\n"
               f"    {{ let s = {init}; rows.push(format!(\"ref {{:?}}\", IntoIterator::into_iter(&s).copied().collect::<Vec<u8>>())); }}\n"
               f"    {{ let mut s = {init}; for x in IntoIterator::into_iter(&mut s) {{ *x += 10; }} rows.push(format!(\"mut {{:?}}\", IntoIterator::into_iter(s).collect::<Vec<u8>>())); }}\n"
               f"    report({json.dumps(k)}, &rows); }}")
        out.append((k, mod, ["owned [1, 2, 3]", "ref [1, 2, 3]", "mut [11, 12, 13]"]))
    return out


def run(chk, tier, seed, replay):
    chk.assumptions += ["legacy derives: all fields are Vec<u8> (a wrongly selected neighbour still compiles); AsRef/AsMut: instrumented "
                        "F1..F3 whose own AsRef<Self> returns another object, each with a target G_i",
                        "attribute styles outside the documented ones (positive marks mixed with ignores) are enumerated by TLC but "
                        "not asserted against rustc"]
    r = vlib.run_tlc("MC_Delegate", f"MC_Delegate_{tier}", workers=4, timeout=1800, xmx="4g")
    chk.add_tlc(r, "attribute marks")
    if not r.ok:
        raise vlib.ToolError(f"TLC: {r.violation}\n{r.raw_tail[-1500:]}")
    mods, rejs, exps = [], [], {}
    undocumented_dev = 0
    for c in r.cases:
        if c["legacy"][0] != "na" and not c["documented"] and c["legacy"] != c["legacyImpl"]:
            undocumented_dev += 1
        for named in (False, True):
            o, rj = legacy_modules(c, named)
            for k, m, e in o:
                mods.append((k, m))
                exps[k] = (e, m)
            rejs += rj
            for variant in ("plain", "alias", "generic", "shadowseg", "generic_partial"):
                if variant == "alias" and "tys" not in c["fs"] and c["sattr"] != "tys":
                    continue
                if variant == "shadowseg" and not (all(m in ("tys", "sel", "fwd") for m in c["fs"]) and "tys" in c["fs"] and c["sattr"] == "none"):
                    continue   # (the extra PhantomData field stays unmarked: only with positive marks on every other field)
                if variant == "generic_partial" and not (len(c["fs"]) == 1 and (c["fs"][0] == "tys" or c["sattr"] == "tys")):
                    continue
                if variant in ("generic", "generic_partial") and (len(c["fs"]) != 1 or c["fs"][0] == "ign"):
                    continue   # `impl<T> AsRef<T> for S<T>` next to another field's impl overlaps: one field only
                o, rj = asref_modules(c, named, variant)
                for k, m, e in o:
                    mods.append((k, m))
                    exps[k] = (e, m)
                rejs += rj
            for alias in (False, True):
                for k, m, e in dst_modules(c, named, alias):
                    mods.append((k, m))
                    exps[k] = (e, m)
    for k, m, e in not_forward_modules() + into_iter_poison_modules() + pointer_field_modules():
        mods.append((k, m))
        exps[k] = (e, m)
    chk.notes["undocumented_mixed_styles_where_impl_differs"] = undocumented_dev
    if replay:
        want = json.load(open(replay))["key"]
        mods = [x for x in mods if x[0] == want]
        rejs = [x for x in rejs if x[0] == want]
    chk.cov["exhaustive"] = not replay
    log(f"[C14] {len(mods)} delegating structs, {len(rejs)} rejected ones")
    nsh = 4
    shards = [mods[i::nsh] for i in range(nsh)]
    import concurrent.futures as cf

    def buildc(i):
        if not shards[i]:
            return {}, {}, None
        return vlib.run_case_crate(f"c14_{i}", shards[i], prelude=PRELUDE, target_dir=os.path.join(vlib.BUILD, f"target-c14-{i}"),
                                   features=("deref", "deref_mut", "index", "index_mut", "into_iterator", "as_ref"))
    with cf.ThreadPoolExecutor(max_workers=nsh) as ex:
        results = list(ex.map(buildc, range(nsh)))
    for i, (obs, failed, br) in enumerate(results):
        for k, mod in shards[i]:
            exp, _ = exps[k]
            chk.cov["evaluations"] += len(exp)
            chk.cov["distinct_nontrivial"] += 1
            if k in failed:
                chk.deviation(k, "a documented delegating derive does not compile: " + failed[k][0]["message"][:200],
                              case={"module": mod}, expected="compiles", observed=failed[k][:3], tags={"kind": "compile_error"})
                continue
            o = obs.get(k)
            if o is None or o.get("crashed"):
                chk.deviation(k, "no observation", case={"module": mod}, expected="runs", observed=o, tags={"kind": "crash"})
                continue
            if o["rows"] != exp:
                chk.deviation(k, f"the derive does not operate on the selected field itself: {o['rows']} (want {exp})",
                              case={"module": mod}, expected=exp, observed=o["rows"], tags={"kind": "wrong_field"})
            if len(chk.cov["samples"]) < 4 and ("tys" in k or "fwd" in k):
                chk.sample({"case": k, "rows": o["rows"]})
        chk.cov["traces_validated_against_impl"] += len(shards[i])
    if rejs:
        per, br = vlib.verdict_crate("c14_reject", rejs, prelude=PRELUDE,
                                     features=("deref", "deref_mut", "index", "index_mut", "into_iterator", "as_ref"))
        for k, snip in rejs:
            chk.cov["evaluations"] += 1
            if not [d for d in per[k] if d["level"] == "error"]:
                chk.deviation(k, "an ambiguous or empty field selection compiles", case={"decl": snip}, expected="compile error",
                              observed="compiled", tags={"kind": "ambiguous_accepted"})
        chk.cov["traces_validated_against_impl"] += len(rejs)
    chk.cov["rule"] = ("attribute marks (none / #[attr] / ignore / forward / type list) on <= MaxFields fields x struct-level attribute "
                       "x tuple/named x 7 derives (+ alias and generic variants for AsRef/AsMut)")
