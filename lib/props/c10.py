"""C10 - derived operators act field-wise with operand order preserved.

M : TLC enumerates Ops.tla's contract (24 derives x struct/enum shapes x forward) and checks its internal
    laws (assign = in-place form, folds start from the empty sum/product, mismatch iff different variants).
R : every case becomes a real type whose fields are instrumented operands: each core::ops call mixes
    (operator, lhs, rhs) non-commutatively into the result, so a swapped operand, a wrong field or a wrong
    operator changes the value; results of `a + b`, `a >>= b`, `!a`, `iter.sum()` ... on every variant pair
    are compared with the symbolic terms the specification prescribes, evaluated with the same mixing function.
"""
import json
import os

import vlib
from vlib import log

M64 = (1 << 64) - 1
OPCODE = {"Add": 1, "Sub": 2, "BitAnd": 3, "BitOr": 4, "BitXor": 5, "Mul": 6, "Div": 7, "Rem": 8, "Shr": 9, "Shl": 10,
          "Not": 20, "Neg": 21}
SYM = {"Add": "+", "Sub": "-", "BitAnd": "&", "BitOr": "|", "BitXor": "^", "Mul": "*", "Div": "/", "Rem": "%", "Shr": ">>",
       "Shl": "<<"}
METHOD = {"Add": "add", "Sub": "sub", "BitAnd": "bitand", "BitOr": "bitor", "BitXor": "bitxor", "Mul": "mul", "Div": "div",
          "Rem": "rem", "Shr": "shr", "Shl": "shl"}
ATTR = {"Mul": "mul", "Div": "div", "Rem": "rem", "Shr": "shr", "Shl": "shl", "MulAssign": "mul_assign", "DivAssign": "div_assign",
        "RemAssign": "rem_assign", "ShrAssign": "shr_assign", "ShlAssign": "shl_assign"}


def rotl(x, n):
    return ((x << n) | (x >> (64 - n))) & M64


def mix(o, l, r):
    return ((((rotl((l * 0x9E3779B97F4A7C15) & M64, 5)) ^ r) * 0x100000001B3) + o) & M64


def ev(t, scalar):
    """evaluate a symbolic term"""
    h = t[0]
    if h == "l":
        return 11 + t[1]
    if h == "r":
        return 21 + t[1]
    if h == "k":
        return 5
    if h == "e":
        return 1000 if t[1] == "sum" else 2000
    if h == "x":
        return 100 * t[1] + t[2]
    if h == "un":
        return mix(OPCODE[t[1]], ev(t[2], scalar), 0)
    if h == "op":
        rhs_scalar = t[3][0] == "k"
        return mix(OPCODE[t[1]] + (100 if rhs_scalar else 0), ev(t[2], scalar), ev(t[3], scalar))
    raise ValueError(t)


def prelude():
    bin_impls = ""
    for tr, code in OPCODE.items():
        if tr in ("Not", "Neg"):
            m = tr.lower()
            bin_impls += f"impl core::ops::{tr} for $t {{ type Output = $t; fn {m}(self) -> $t {{ $t(mix({code}, self.0, 0)) }} }}\n"
            continue
        m = METHOD[tr]
        bin_impls += (f"impl core::ops::{tr} for $t {{ type Output = $t; fn {m}(self, r: $t) -> $t {{ $t(mix({code}, self.0, r.0)) }} }}\n"
                      f"impl core::ops::{tr}<K> for $t {{ type Output = $t; fn {m}(self, r: K) -> $t {{ $t(mix({code + 100}, self.0, r.0)) }} }}\n"
                      f"impl core::ops::{tr}Assign for $t {{ fn {m}_assign(&mut self, r: $t) {{ self.0 = mix({code}, self.0, r.0); }} }}\n"
                      f"impl core::ops::{tr}Assign<K> for $t {{ fn {m}_assign(&mut self, r: K) {{ self.0 = mix({code + 100}, self.0, r.0); }} }}\n"
                      f"impl core::ops::{tr}<KN> for $t {{ type Output = $t; fn {m}(self, r: KN) -> $t {{ $t(mix({code + 100}, self.0, r.0)) }} }}\n"
                      f"impl core::ops::{tr}Assign<KN> for $t {{ fn {m}_assign(&mut self, r: KN) {{ self.0 = mix({code + 100}, self.0, r.0); }} }}\n")
    return ("""
pub fn mix(o: u64, l: u64, r: u64) -> u64 { ((l.wrapping_mul(0x9E3779B97F4A7C15)).rotate_left(5) ^ r).wrapping_mul(0x100000001B3).wrapping_add(o) }
#[derive(Clone, Copy)] pub struct K(pub u64);
// a scalar that is neither Copy nor Clone: a single-field struct can be multiplied by it (nothing has to be duplicated)
pub struct KN(pub u64);
macro_rules! tagty { ($t:ident) => {
#[derive(Clone, Copy, Debug, PartialEq)] pub struct $t(pub u64);
""" + bin_impls + """
// inherent methods named like the operator methods: they win over the trait's under method-call syntax, so an
// expansion that writes `field.mul(rhs)` instead of `<Ty as Mul<_>>::mul(field, rhs)` computes POISON
impl $t {
""" + "".join(f"    pub fn {m}<R>(self, _r: R) -> $t {{ $t(0xBAD) }}\n    pub fn {m}_assign<R>(&mut self, _r: R) {{ self.0 = 0xBAD; }}\n"
              for m in METHOD.values()) + """    pub fn not(self) -> $t { $t(0xBAD) }
    pub fn neg(self) -> $t { $t(0xBAD) }
    pub fn sum<I>(_i: I) -> $t { $t(0xBAD) }
    pub fn product<I>(_i: I) -> $t { $t(0xBAD) }
}
impl core::iter::Sum for $t { fn sum<I: Iterator<Item = $t>>(i: I) -> $t { i.fold($t(1000), |a, b| a + b) } }
impl core::iter::Product for $t { fn product<I: Iterator<Item = $t>>(i: I) -> $t { i.fold($t(2000), |a, b| a * b) } }
} }
tagty!(Tag); tagty!(Tag2);
// generic structs are instantiated with types that implement ONLY what the derive documents it needs: Gs the operators
// with a scalar right-hand side (no `Gs * Gs`), Ga the operators between two values of the type (no `Ga * K`)
#[derive(Clone, Copy, Debug, PartialEq)] pub struct Gs(pub u64);
#[derive(Clone, Copy, Debug, PartialEq)] pub struct Ga(pub u64);
""" + "".join(
        (f"impl core::ops::{tr}<K> for Gs {{ type Output = Gs; fn {m}(self, r: K) -> Gs {{ Gs(mix({OPCODE[tr] + 100}, self.0, r.0)) }} }}\n"
         f"impl core::ops::{tr}<KN> for Gs {{ type Output = Gs; fn {m}(self, r: KN) -> Gs {{ Gs(mix({OPCODE[tr] + 100}, self.0, r.0)) }} }}\n"
         f"impl core::ops::{tr}Assign<K> for Gs {{ fn {m}_assign(&mut self, r: K) {{ self.0 = mix({OPCODE[tr] + 100}, self.0, r.0); }} }}\n"
         f"impl core::ops::{tr}Assign<KN> for Gs {{ fn {m}_assign(&mut self, r: KN) {{ self.0 = mix({OPCODE[tr] + 100}, self.0, r.0); }} }}\n"
         f"impl core::ops::{tr} for Ga {{ type Output = Ga; fn {m}(self, r: Ga) -> Ga {{ Ga(mix({OPCODE[tr]}, self.0, r.0)) }} }}\n"
         f"impl core::ops::{tr}Assign for Ga {{ fn {m}_assign(&mut self, r: Ga) {{ self.0 = mix({OPCODE[tr]}, self.0, r.0); }} }}\n")
        for tr, m in METHOD.items()) + """impl core::ops::Not for Ga { type Output = Ga; fn not(self) -> Ga { Ga(mix(20, self.0, 0)) } }
impl core::ops::Neg for Ga { type Output = Ga; fn neg(self) -> Ga { Ga(mix(21, self.0, 0)) } }
pub fn report(k: &str, res: String) { println!("OBS {{\\"k\\": {:?}, \\"res\\": {}}}", k, res); }
""")


def key_of(c):
    sh = c["sh"]
    vs = ",".join(f"{v['k']}{v['n']}" for v in sh["vs"])
    return f"{c['d']}{'(forward)' if c['fwd'] else ''}|{'enum' if sh['enum'] else 'struct'}[{vs}]"


FN = ["a", "b", "c"] + list("defghijklm")    # named fields; a second pass names them like the identifiers the expansions use themselves
SAME_TYPES = False     # set per case: every field has the SAME type (a derive keyed by field type must still treat each field)
NOT_FORWARD = False    # set per case: the scalar derive is asked for explicitly, `#[mul(not(forward))]`
GENERIC = None         # set per case: the struct is `S<T>`, every field a `T`, instantiated with this type


def fty(i, decl=False):
    if GENERIC:
        return "T" if decl else GENERIC
    if SAME_TYPES:
        return "Tag"
    return "Tag" if i % 2 == 1 else "Tag2"


def variant_body(v, pub="pub "):
    n = v["n"]
    if v["k"] == "unit":
        return ""
    if v["k"] == "tuple":
        return "(" + ", ".join(f"{pub}{fty(i, True)}" for i in range(1, n + 1)) + ")"
    return "{ " + ", ".join(f"{pub}{FN[i - 1]}: {fty(i, True)}" for i in range(1, n + 1)) + " }"


def variant_val(v, base, path):
    n = v["n"]
    if v["k"] == "unit":
        return path
    vals = [f"{fty(i)}({base(i)})" for i in range(1, n + 1)]
    if v["k"] == "tuple":
        return f"{path}(" + ", ".join(vals) + ")"
    return f"{path} {{ " + ", ".join(f"{FN[i - 1]}: {vals[i - 1]}" for i in range(1, n + 1)) + " }"


def fields_expr(v, var):
    n = v["n"]
    if v["k"] == "tuple":
        return "vec![" + ", ".join(f"{var}.{i - 1}.0" for i in range(1, n + 1)) + "]"
    return "vec![" + ", ".join(f"{var}.{FN[i - 1]}.0" for i in range(1, n + 1)) + "]"


def module(c, key, max_items):
    d, fwd, sh = c["d"], c["fwd"], c["sh"]
    attr = f"#[{ATTR[d]}(forward)]\n" if fwd else (f"#[{ATTR[d]}(not(forward))]\n" if (NOT_FORWARD and d in ATTR) else "")
    base = d[:-6] if d.endswith("Assign") else d
    derives = f"#[derive(derive_more::{d}, Clone, Copy, Debug, PartialEq)]"
    if d == "Sum":       # the fold uses the type's own Add / Mul
        derives = "#[derive(derive_more::Sum, derive_more::Add, Clone, Copy, Debug, PartialEq)]"
    if d == "Product":
        derives = "#[derive(derive_more::Product, derive_more::Mul, Clone, Copy, Debug, PartialEq)]\n#[mul(forward)]"
    lines = ["use super::*;"]
    if not sh["enum"]:
        v = sh["vs"][0]
        lines.append(f"{derives}\n{attr}pub struct S{'<T>' if GENERIC else ''}{variant_body(v)}" + (";" if v["k"] == "tuple" else ""))
        lv = variant_val(v, lambda i: 11 + i, "S")
        rv = variant_val(v, lambda i: 21 + i, "S")
        scalar = "KN(5)" if v["n"] == 1 else "K(5)"
        body = [f"let l = {lv}; let r = {rv}; let k = {scalar}; let mut out: Vec<Vec<u64>> = vec![];"]
        if d in ("Sum", "Product"):
            m = "sum" if d == "Sum" else "product"
            for n_items in range(max_items + 1):
                items = ", ".join(variant_val(v, lambda i, j=j: 100 * j + i, "S") for j in range(1, n_items + 1))
                body.append(f"{{ let items: Vec<S> = vec![{items}]; let s: S = items.into_iter().{m}(); out.push({fields_expr(v, 's')}); }}")
        elif d in OPCODE and d not in ("Not", "Neg"):
            rhs = "r" if (d in ("Add", "Sub", "BitAnd", "BitOr", "BitXor") or fwd) else "k"
            body.append(f"{{ let s = l {SYM[d]} {rhs}; out.push({fields_expr(v, 's')}); }}")
        elif d in ("Not", "Neg"):
            body.append(f"{{ let s = {'!' if d == 'Not' else '-'}l; out.push({fields_expr(v, 's')}); }}")
        else:
            rhs = "r" if (base in ("Add", "Sub", "BitAnd", "BitOr", "BitXor") or fwd) else "k"
            body.append(f"{{ let mut s = l; s {SYM[base]}= {rhs}; out.push({fields_expr(v, 's')}); }}")
        body.append('let txt = format!("[{}]", out.iter().map(|f| format!("[{}]", f.iter().map(|x| x.to_string()).collect::<Vec<_>>().join(","))).collect::<Vec<_>>().join(","));')
        body.append(f"report({json.dumps(key)}, format!(\"{{{{\\\"struct\\\": {{}}}}}}\", txt));")
    else:
        vs = sh["vs"]
        decl = ", ".join(f"V{i}{variant_body(v, '')}" for i, v in enumerate(vs))
        lines.append(f"{derives}\n{attr}pub enum E {{ {decl} }}")
        pats = []
        for i, v in enumerate(vs):
            if v["k"] == "unit":
                pats.append(f"E::V{i} => format!(\"[\\\"ok\\\",{i + 1},[]]\"),")
            elif v["k"] == "tuple":
                b = ", ".join(f"f{j}" for j in range(v["n"]))
                pats.append(f"E::V{i}({b}) => format!(\"[\\\"ok\\\",{i + 1},[{{}}]]\", (vec![{', '.join(f'f{j}.0.to_string()' for j in range(v['n']))}] as Vec<String>).join(\",\")),")
            else:
                b = ", ".join(f"{FN[j]}: f{j}" for j in range(v["n"]))
                pats.append(f"E::V{i} {{ {b} }} => format!(\"[\\\"ok\\\",{i + 1},[{{}}]]\", (vec![{', '.join(f'f{j}.0.to_string()' for j in range(v['n']))}] as Vec<String>).join(\",\")),")
        lines.append("fn show(e: &E) -> String { match e { " + " ".join(pats) + " } }")
        ls = [variant_val(v, lambda i: 11 + i, f"E::V{i}") for i, v in enumerate(vs)]
        rs = [variant_val(v, lambda i: 21 + i, f"E::V{i}") for i, v in enumerate(vs)]
        body = ["let mut rows: Vec<String> = vec![];", "#[allow(unused_mut)] let mut texts: Vec<String> = vec![];"]
        has_unit = any(v["k"] == "unit" for v in vs)
        if d in ("Not", "Neg"):
            for i in range(len(vs)):
                op = "!" if d == "Not" else "-"
                if has_unit:
                    body.append(f"rows.push(match {op}({ls[i]}) {{ Ok(v) => show(&v), Err(_) => String::from(\"[\\\"unit\\\"]\") }});")
                    body.append(f"if let Err(e) = {op}({ls[i]}) {{ texts.push(format!(\"{{:?}}\", format!(\"unit:{{}}\", e))); }}")
                else:
                    body.append(f"rows.push(show(&({op}({ls[i]}))));")
            body.append(f"report({json.dumps(key)}, format!(\"{{{{\\\"enum1\\\": [{{}}], \\\"texts\\\": [{{}}]}}}}\", rows.join(\",\"), texts.join(\",\")));")
        else:
            for i in range(len(vs)):
                cells = []
                for j in range(len(vs)):
                    cells.append(f"match ({ls[i]}) {SYM[d]} ({rs[j]}) {{ Ok(v) => show(&v), "
                                 f"Err(derive_more::BinaryError::Mismatch(_)) => String::from(\"[\\\"mismatch\\\"]\"), "
                                 f"Err(derive_more::BinaryError::Unit(_)) => String::from(\"[\\\"unit\\\"]\") }}")
                body.append("rows.push(format!(\"[{}]\", vec![" + ", ".join(cells) + "].join(\",\")));")
                for j in range(len(vs)):
                    body.append(f"if let Err(e) = ({ls[i]}) {SYM[d]} ({rs[j]}) {{ texts.push(format!(\"{{:?}}\", format!(\"{{}}:{{}}\", "
                                f"match e {{ derive_more::BinaryError::Mismatch(_) => \"mismatch\", derive_more::BinaryError::Unit(_) => \"unit\" }}, e))); }}")
            body.append(f"report({json.dumps(key)}, format!(\"{{{{\\\"enum2\\\": [{{}}], \\\"texts\\\": [{{}}]}}}}\", rows.join(\",\"), texts.join(\",\")));")
    lines.append("pub fn run() {\n    " + "\n    ".join(body) + "\n}")
    return "\n".join(lines)


def norm_cell(cell):
    if cell[0] == "ok":
        return ["ok", cell[1], [ev(t, None) for t in cell[2]]]
    return [cell[0]]


def run(chk, tier, seed, replay):
    chk.assumptions += ["operands are two instrumented tag types mixing (operator, lhs, rhs) non-commutatively (64-bit); scalar "
                        "right-hand sides are a third type", "struct shapes: tuple/named with 1..MaxFields fields; enum shapes: 1-3 variants "
                        "over tuple/named/unit"]
    r = vlib.run_tlc("MC_Ops", f"MC_Ops_{tier}", workers=4, timeout=1800, xmx="4g")
    chk.add_tlc(r, "derive x shape")
    if not r.ok:
        raise vlib.ToolError(f"TLC: {r.violation}\n{r.raw_tail[-1500:]}")
    max_items = 2 if tier == "quick" else 3
    cases = {key_of(rec["c"]): rec for rec in r.cases}
    if replay:
        want = json.load(open(replay))["key"]
        cases = {k: v for k, v in cases.items() if k == want}
    chk.cov["exhaustive"] = not replay
    global SAME_TYPES
    mods = [(k, module(rec["c"], k, max_items)) for k, rec in cases.items()]
    # the same shapes with every field of ONE type (field types repeat): a derive that keys anything by field type must
    # still treat each field
    SAME_TYPES = True
    for k, rec in list(cases.items()):
        if any(v["n"] >= 2 for v in rec["c"]["sh"]["vs"]):
            k2 = k + "|same_types"
            cases[k2] = rec
            mods.append((k2, module(rec["c"], k2, max_items)))
    SAME_TYPES = False
    # named fields called like the expansions' own parameters / locals (`rhs`, `iter`, `lhs`): a generated `let` or
    # pattern binding of that name would capture the field instead
    global FN
    FN = ["rhs", "iter", "lhs"] + list("defghijklm")
    for k, rec in list(cases.items()):
        if "|" in k.split("]")[-1]:
            continue
        if any(v["k"] == "named" and v["n"] >= 1 for v in rec["c"]["sh"]["vs"]):
            k2 = k + "|internal_names"
            cases[k2] = rec
            mods.append((k2, module(rec["c"], k2, max_items)))
    FN = ["a", "b", "c"] + list("defghijklm")
    # generic structs `S<T>` instantiated with a type that has exactly the operators the derive documents it needs
    global GENERIC
    for k, rec in list(cases.items()):
        c = rec["c"]
        if "|" in k.split("]")[-1] or c["sh"]["enum"] or c["d"] in ("Sum", "Product"):
            continue
        base = c["d"][:-6] if c["d"].endswith("Assign") else c["d"]
        scalar = base in ("Mul", "Div", "Rem", "Shr", "Shl") and not c["fwd"]
        GENERIC = "Gs" if scalar else "Ga"
        k2 = k + "|generic"
        cases[k2] = rec
        mods.append((k2, module(c, k2, max_items)))
    GENERIC = None
    # the scalar form asked for explicitly: `#[mul(not(forward))]` is the un-attributed derive
    global NOT_FORWARD
    NOT_FORWARD = True
    for k, rec in list(cases.items()):
        c = rec["c"]
        if "|" in k.split("]")[-1] or c["fwd"] or c["d"] not in ATTR or c["sh"]["enum"]:
            continue
        k2 = k + "|not_forward"
        cases[k2] = rec
        mods.append((k2, module(c, k2, max_items)))
    NOT_FORWARD = False
    log(f"[C10] {len(mods)} operator derives")
    nsh = 4
    shards = [mods[i::nsh] for i in range(nsh)]
    import concurrent.futures as cf

    def buildc(i):
        if not shards[i]:
            return {}, {}, None
        return vlib.run_case_crate(f"c10_{i}", shards[i], prelude=prelude(), target_dir=os.path.join(vlib.BUILD, f"target-c10-{i}"),
                                   features=("add", "add_assign", "mul", "mul_assign", "not", "sum"))
    with cf.ThreadPoolExecutor(max_workers=nsh) as ex:
        results = list(ex.map(buildc, range(nsh)))
    for i, (obs, failed, br) in enumerate(results):
        for k, mod in shards[i]:
            rec = cases[k]
            chk.cov["evaluations"] += 1
            chk.cov["distinct_nontrivial"] += 1
            if k in failed:
                chk.deviation(k, "a supported operator derive does not compile: " + failed[k][0]["message"][:200],
                              case={"module": mod}, expected="compiles", observed=failed[k][:3], tags={"kind": "compile_error"})
                continue
            o = obs.get(k)
            if o is None or o.get("crashed"):
                chk.deviation(k, "no observation", case={"module": mod}, expected="runs", observed=o, tags={"kind": "crash"})
                continue
            kind, doc = rec["doc"]
            res = o["res"]
            if kind == "struct":
                if isinstance(doc, dict):     # a TLA+ function over 0..MaxItems is serialised as an object
                    doc = [doc[str(m)] for m in range(len(doc))]
                want = [[ev(t, None) for t in doc[m]] for m in range(len(doc))]
                if rec["c"]["d"] not in ("Sum", "Product"):
                    want = want[:1]
                else:
                    want = want[:max_items + 1]
                got = res["struct"]
            elif "enum1" in res:
                want = [norm_cell(c) for c in doc]
                got = res["enum1"]
            else:
                want = [[norm_cell(c) for c in row] for row in doc]
                got = res["enum2"]
            # extension (Ops.tla DocErrText): what the errors print
            ext = chk.notes.setdefault("extension_error_texts", {"checked": 0, "mismatches": []})
            for t in res.get("texts", []):
                kind_, _, txt = t.partition(":")
                ext["checked"] += 1
                if txt != rec["errText"][kind_]:
                    if len(ext["mismatches"]) < 20:
                        ext["mismatches"].append({"case": k, "expected": rec["errText"][kind_], "observed": txt})
                    log(f"EXTENSION-MISMATCH (not a C10 verdict) error text: {k}: expected {rec['errText'][kind_]!r}, observed {txt!r}")
            if got != want:
                chk.deviation(k, "operator result differs from the field-wise, order-preserving contract",
                              case={"module": mod, "doc_terms": doc}, expected=want, observed=got, tags={"kind": "result"})
            if len(chk.cov["samples"]) < 4 and kind == "enum":
                chk.sample({"case": k, "contract_terms": doc, "observed": got})
        chk.cov["traces_validated_against_impl"] += len(shards[i])
    # Sum / Product fold with THE TYPE'S OWN Add / Mul (C10: "equal folding the iterator with Add / Mul starting from the field-wise
    # empty sum / product"): types whose operator is hand-written and is NOT the field-wise one - a derive that sums the fields
    # with the field type's own Sum instead gives another value. The expectation is that very fold, done in the probe.
    own = []
    for nf, body_, ctor in ((1, "(pub Tag)", "N(Tag({a}))"), (1, "{ pub a: Tag }", "N {{ a: Tag({a}) }}"), (2, "(pub Tag, pub Tag2)", "N(Tag({a}), Tag2({b}))")):
        for d, tr, m, op in (("Sum", "Add", "sum", "add"), ("Product", "Mul", "product", "mul")):
            k = f"own_operator:{d}:{nf}:{'named' if '{' in body_ else 'tuple'}"
            fields = ["0"] if nf == 1 and "(" in body_ else (["a"] if nf == 1 else ["0", "1"])
            mixed = ", ".join(f"{('Tag', 'Tag2')[j]}(mix(77, self.{f}.0, r.{f}.0))" for j, f in enumerate(fields))
            newv = ("N(" + mixed + ")") if "(" in body_ else ("N { a: " + mixed + " }")
            empty = ", ".join(f"core::iter::empty::<{('Tag', 'Tag2')[j]}>().{m}()" for j in range(nf))
            emptyv = ("N(" + empty + ")") if "(" in body_ else ("N { a: " + empty + " }")
            rows = []
            for n_items in range(4):
                items = ", ".join(ctor.format(a=100 * j + 1, b=100 * j + 2) for j in range(1, n_items + 1))
                rows.append(f"{{ let items: Vec<N> = vec![{items}]; let got: N = items.iter().copied().{m}(); "
                            f"let want: N = items.iter().copied().fold({emptyv}, |x, y| core::ops::{tr}::{op}(x, y)); out.push(got == want); }}")
            own.append((k, f"use super::*;\n#[derive(derive_more::{d}, Clone, Copy, Debug, PartialEq)]\npub struct N{body_}{';' if '(' in body_ else ''}\n"
                           f"impl core::ops::{tr} for N {{ type Output = N; fn {op}(self, r: N) -> N {{ {newv} }} }}\n"
                           "pub fn run() { let mut out: Vec<bool> = vec![];\n    " + "\n    ".join(rows) +
                           f"\n    report({json.dumps(k)}, format!(\"{{:?}}\", out)); }}"))
    if not replay or json.load(open(replay))["key"].startswith("own_operator:"):
        if replay:
            own = [x for x in own if x[0] == json.load(open(replay))["key"]]
        obs_o, failed_o, _ = vlib.run_case_crate("c10_own", own, prelude=prelude(), target_dir=os.path.join(vlib.BUILD, "target-c10-0"),
                                                 features=("add", "add_assign", "mul", "mul_assign", "not", "sum"))
        for k, mod in own:
            chk.cov["evaluations"] += 1
            if k in failed_o:
                chk.deviation(k, "Sum / Product next to a hand-written operator does not compile: " + failed_o[k][0]["message"][:200],
                              case={"module": mod}, expected="compiles", observed=failed_o[k][:3], tags={"kind": "compile_error"})
            elif (obs_o.get(k) or {}).get("res") != [True, True, True, True]:
                chk.deviation(k, "Sum / Product is not the fold of the iterator with the type's own operator from the field-wise empty value",
                              case={"module": mod}, expected=[True] * 4, observed=obs_o.get(k), tags={"kind": "result"})
    chk.cov["rule"] = "24 operator derives x supported struct/enum shapes x forward; every variant pair / unary operand / 0..MaxItems-item fold"
