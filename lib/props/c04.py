"""C04 - inferred formatting bounds on generics are sufficient and not excessive.

M : TLC checks FmtBounds.tla (the property's rule vs the transcription of bounded_types/generate_bounds).
R : (a) in-process: the where-clause of each case's real expansion, as a set of `Type: Trait` obligations,
        against DocBounds (required <= actual <= required + trivially true ones);
    (b) real derive + rustc: the generic impl compiles with no user bounds (sufficiency) and
        `S<..NoFmt..>: Trait` holds when every unformatted parameter is instantiated with a type that
        implements no formatting trait (non-excess).
"""
import json
import os
import re

import vlib
from vlib import log

LET = {"Display": "", "Debug": "?", "LowerHex": "x", "Pointer": "p", "Octal": "o", "Binary": "b", "UpperHex": "X",
       "LowerExp": "e", "UpperExp": "E"}
ATTR = {"Display": "display", "Debug": "debug", "LowerHex": "lower_hex", "Pointer": "pointer"}
PRELUDE = "use core::fmt;\n#[derive(Clone)] pub struct NoFmt;\npub struct W<T>(pub T);\n" + "".join(
    f"impl<T: fmt::{t}> fmt::{t} for W<T> {{ fn fmt(&self, f: &mut fmt::Formatter<'_>) -> fmt::Result {{ fmt::{t}::fmt(&self.0, f) }} }}\n"
    for t in LET) + 'pub fn report(k: &str) { println!("OBS {{\\"k\\": {:?}, \\"ok\\": true}}", k); }\n'


def field_names(c):
    n = len(c["fields"])
    if c["level"] in ("variant", "shared_default", "shared_wrap"):
        return [f"_{i}" for i in range(n)], False
    return ["a", "b", "c"][:n], True


RAWKW = {"type": "r#type"}     # placeholder / alias spelling -> the spelling in declarations and expressions


def spelled(nm):
    return RAWKW.get(nm, nm)


def field_type(c, i, key):
    p = c["fields"][i]["p"]
    if p == "none":
        # (under derive(Pointer) a field may be delegated to - by itself or as `_variant` - and must then be a pointer)
        return "&'static i32" if c["D"] == "Pointer" else "i32"
    wrap = vlib.seeded_pick(key + str(i), 0, 3)
    return [p, f"&'static {p}", f"W<{p}>"][wrap]


def build(c, key):
    """returns (item text, type texts per field)"""
    D = c["D"]
    names, named = field_names(c)
    if named and vlib.seeded_pick(key, 43, 3) == 0:
        names = ["type"] + names[1:]          # a keyword field: `r#type` in the declaration and in arguments, `{type}` in literals
    tys = [field_type(c, i, key) for i in range(len(names))]
    params = sorted({f["p"] for f in c["fields"] if f["p"] != "none"})
    g = "<" + ", ".join(f"{p}: 'static" for p in params) + ">" if params else ""   # (`&'static T` fields)
    # container literal
    lit, pos_args, named_args = "", [], []
    uses = c["uses"]
    n_pos = sum(1 for u in uses if u["how"] in ("pos", "expr"))
    for k, u in enumerate(uses):
        nm = names[u["f"] - 1]
        t = LET[u["tr"]]
        spec = (":" + t) if t else ""
        if u["how"] == "name":
            lit += "{" + nm + spec + "}"
        elif u["how"] == "pos":
            lit += "{" + spec + "}"
            pos_args.append(spelled(nm))
        elif u["how"] == "expr":
            lit += "{}"
            pos_args.append(f"core::mem::size_of_val({spelled(nm)})")
        elif u["how"] == "alias":
            lit += "{v%d%s}" % (k, spec)
            named_args.append(f"v{k} = {spelled(nm)}")
        elif u["how"] == "shadow":
            lit += "{" + nm + "}"
            named_args.append(f"{nm} = core::mem::size_of_val({spelled(nm)})")
        elif u["how"] == "shadowto":
            other = names[(3 - u["f"]) - 1]
            lit += "{" + nm + spec + "}"
            named_args.append(f"{nm} = {spelled(other)}")
        elif u["how"] == "posalias":
            idx = n_pos + len(named_args)
            lit += "{%d%s}" % (idx, spec)
            named_args.append(f"v{k} = {spelled(nm)}")
        lit += " "
    if c.get("star"):
        # `{s:.*}`: explicit value, the precision is taken from the next positional argument (a constant)
        lit = "{s:.*} " + re.sub(r"\{(\d+)", lambda m: "{" + str(int(m.group(1)) + 1), lit)
        pos_args = ["2usize"] + pos_args
        named_args = named_args + ["s = 1.5f32"]
    args = "".join(", " + a for a in pos_args + named_args)
    a = ATTR[D]
    fattrs = []
    for i, f in enumerate(c["fields"]):
        if f["fa"] == "skip":
            fattrs.append("#[debug(skip)] ")
        elif f["fa"] == "fmt":
            fattrs.append('#[debug("{%s}")] ' % names[f["fref"] - 1])
        else:
            fattrs.append("")
    if named:
        body = "{ " + ", ".join(f"{fattrs[i]}pub {spelled(names[i])}: {tys[i]}" for i in range(len(names))) + " }"
    else:
        body = "(" + ", ".join(f"{fattrs[i]}{tys[i]}" for i in range(len(names))) + ")"
    lvl = c["level"]
    cattr = f"#[{a}({vlib.rust_lit(lit)}{args})]\n" if c["hasAttr"] else ""
    # a third of the generic cases carry a where-clause of the user's own (the inferred bounds must be ADDED to it)
    # (every other one of them ends in a comma, as rustfmt writes multi-line where-clauses)
    wh = (" where " + ", ".join(f"{p}: Clone" for p in params) + ("," if vlib.seeded_pick(key, 37, 2) == 0 else "")) \
        if (params and vlib.seeded_pick(key, 31, 3) == 0) else ""
    if lvl in ("struct", "debug_fields"):
        item = (f"{cattr}pub struct S{g}{wh} {body}" if named else f"{cattr}pub struct S{g} {body}{wh};")
        name = "S"
    elif lvl == "variant":
        item = f"pub enum S{g}{wh} {{ {cattr}V{body} }}"
        name = "S"
    elif lvl == "shared_default":
        item = f"{cattr}pub enum S{g}{wh} {{ V{body} }}"
        name = "S"
    else:  # shared_wrap
        wl = "{_variant} " + lit
        item = f"#[{a}({vlib.rust_lit(wl)}{args})]\npub enum S{g}{wh} {{ V{body} }}"
        name = "S"
    return item, tys, params


# ---------------------------------------------------------------------------------------------- type shapes
SHAPE_PRELUDE = (PRELUDE + "pub struct W2<A, B>(pub A, pub B);\n"
                 "impl<A, B: fmt::Debug> fmt::Debug for W2<A, B> { fn fmt(&self, f: &mut fmt::Formatter<'_>) -> fmt::Result { self.1.fmt(f) } }\n"
                 "pub trait TrQ { type Assoc; }\nimpl<X: ?Sized> TrQ for X { type Assoc = u8; }\n"
                 "pub trait TrQA<X: ?Sized> { type Assoc; }\nimpl<X: ?Sized, Y: ?Sized> TrQA<X> for Y { type Assoc = u8; }\n"
                 "pub trait TrG { type Of<X>; }\nimpl<Y: ?Sized> TrG for Y { type Of<X> = u8; }\n"
                 "pub trait TrA<X: ?Sized>: fmt::Debug {}\npub trait TrO: fmt::Debug { type Out: ?Sized; }\n")


def render_shape(t):
    x = "T" if t[0] == "param" else "i32"
    for w in t[1:]:
        x = {"wrap": f"W<{x}>", "second": f"W2<u8, {x}>", "array": f"[{x}; 2]", "paren": f"({x})", "ptr": f"*const {x}",
             "ref": f"&'static {x}", "slice": f"&'static [{x}]", "fn_in": f"fn({x}) -> u8", "fn_out": f"fn(u8) -> {x}",
             "tuple": f"(u8, {x})", "dyn_arg": f"Box<dyn TrA<{x}>>", "dyn_assoc": f"Box<dyn TrO<Out = {x}>>",
             "dyn_fn_in": f"Box<dyn Fn({x}) -> u8>", "dyn_fn_out": f"Box<dyn Fn(u8) -> {x}>",
             "qself": f"<{x} as TrQ>::Assoc", "proj": f"{x}::Assoc",
             "qtrait": f"<i32 as TrQA<{x}>>::Assoc", "qgat": f"<i32 as TrG>::Of<{x}>"}[w]
    return x


def shapes_check(chk, tier, seed, replay):
    """TypeShapes.tla: a field type is bounded iff the type parameter occurs in it, for every syntactic form
    `contains_generics` distinguishes (in-process where-clauses for Debug and Display; rustc for Debug)."""
    r = vlib.run_tlc("MC_TypeShapes", f"MC_TypeShapes_{tier}", workers=4, timeout=900, xmx="4g")
    chk.add_tlc(r, "type shapes")
    if not r.ok:
        raise vlib.ToolError(f"TLC: {r.violation}\n{r.raw_tail[-1500:]}")
    cases = {}
    for c in r.cases:
        ty = render_shape(c["t"])
        cases["shape|" + ty] = (ty, c["needsBound"], c["t"])
    if replay:
        want = json.load(open(replay))["key"]
        cases = {k: v for k, v in cases.items() if want.endswith(k)}
    reqs = []
    for k, (ty, need, t) in cases.items():
        item = f"struct S<T: TrQ + 'static>({ty}, #[debug(skip)] core::marker::PhantomData<T>);"
        reqs.append({"key": "Debug|" + k, "derive": "Debug", "item": item, "tokens": False})
        item = f"#[display(\"{{_0}}\")] struct S<T: TrQ + 'static>({ty}, core::marker::PhantomData<T>);"
        reqs.append({"key": "Display|" + k, "derive": "Display", "item": item, "tokens": False})
    obs = vlib.run_inproc("expand", reqs)
    for rq in reqs:
        D, k = rq["key"].split("|", 1)
        ty, need, t = cases[k]
        o = obs[rq["key"]]
        chk.cov["evaluations"] += 1
        if need:
            chk.cov["distinct_nontrivial"] += 1
        if o["outcome"] != "ok":
            chk.deviation(rq["key"], f"expansion with a field of type `{ty}`: {o['outcome']}: {o.get('msg')}", case={"item": rq["item"]},
                          expected="Ok", observed=o, tags={"kind": "expand_" + o["outcome"], "shape": t})
            continue
        actual = set()
        for im in o["impls"]:
            for w in im["where"]:
                p = re.split(r"(?<!:):(?!:)", w, maxsplit=1)
                if len(p) == 2 and "fmt ::" in p[1]:
                    actual.add((norm_ty(p[0]), p[1].strip().split("::")[-1].strip()))
        has = (norm_ty(ty), D) in actual
        if need and not has:
            chk.deviation(rq["key"], f"a formatted field of type `{ty}` mentions the type parameter but gets no `{D}` bound "
                          f"(where-clause: {sorted(actual)})", case={"item": rq["item"]}, expected=[ty, D], observed=sorted(actual),
                          tags={"kind": "insufficient", "shape": t})
        if not need and has and "T" in re.findall(r"[A-Za-z_]\w*", ty):
            chk.deviation(rq["key"], f"excessive bound on `{ty}`", case={"item": rq["item"]}, expected="no bound",
                          observed=sorted(actual), tags={"kind": "excessive", "shape": t})
    chk.cov["traces_validated_against_impl"] += len(reqs)
    # rustc: the Debug impl is usable with no user bound (T = i32) and stays available for T = NoFmt when T is not in the type
    mods = []
    for k, (ty, need, t) in cases.items():
        if any(w in ("dyn_fn_in", "dyn_fn_out") for w in t[1:]):
            continue   # `dyn Fn(..)` implements no formatting trait at all
        inst = "i32" if need else "NoFmt"
        mods.append((k, f"use super::*;\n#[derive(derive_more::Debug)]\npub struct S<T: TrQ + 'static>(pub {ty}, #[debug(skip)] pub core::marker::PhantomData<T>);\n"
                        f"pub fn run() {{ fn has<X: fmt::Debug>() {{}} has::<S<{inst}>>(); report({json.dumps(k)}); }}"))
    sel = vlib.cap_cases([k for k, _ in mods], seed, 600 if tier == "quick" else 6000)
    mods = [m for m in mods if m[0] in sel]
    obs2, failed, br = vlib.run_case_crate("c04_shapes", mods, prelude=SHAPE_PRELUDE, features=("display", "debug"),
                                           target_dir=os.path.join(vlib.BUILD, "target-c04-0"))
    for k, _ in mods:
        ty, need, t = cases[k]
        chk.cov["evaluations"] += 1
        if k in failed:
            chk.deviation("rustc|" + k, f"`derive(Debug)` on a generic struct with a field of type `{ty}` is not usable without user "
                          "bounds: " + failed[k][0]["message"][:220], case={"type": ty}, expected="compiles", observed=failed[k][:3],
                          tags={"kind": "rustc_insufficient" if need else "rustc_excessive", "shape": t})
    chk.cov["traces_validated_against_impl"] += len(mods)
    log(f"[C04] {len(cases)} type shapes: {len(reqs)} where-clauses, {len(mods)} compiled")


def key_of(c):
    fs = ",".join(f"{f['p']}:{f['fa']}:{f['fref']}" for f in c["fields"])
    us = ",".join(f"{u['f']}{u['how']}{u['tr']}" for u in c["uses"])
    return f"{c['D']}|{c['level']}|{fs}|{'attr' if c['hasAttr'] else 'noattr'}{'*' if c.get('star') else ''}|{us}"


def norm_ty(s):
    return s.replace(" ", "")


# ---------------------------------------------------------------------------------------------- explicit bound(...)
EB_LET = {"Display": "", "Debug": "?", "LowerHex": "x", "UpperHex": "X", "Octal": "o", "Binary": "b", "LowerExp": "e", "UpperExp": "E",
          "Pointer": "p"}
EB_PRELUDE = (PRELUDE + "pub trait Mk { const NAME: &'static str; }\npub struct Qm;\nimpl Mk for Qm { const NAME: &'static str = \"qm\"; }\n"
              "impl Mk for i32 { const NAME: &'static str = \"i32\"; }\nimpl Mk for &'static i32 { const NAME: &'static str = \"ri32\"; }\n")


def eb_build(c, key):
    """ExplicitBounds.tla case -> (item text, generic parameter list, instantiation)"""
    D = c["D"]
    a = re.sub(r"(?<!^)(?=[A-Z])", "_", D).lower()
    let = EB_LET[D]
    spec = (":" + let) if let else ""
    tuple_form = vlib.seeded_pick(key, 5, 2) == 0 and c["shape"] != "unit"
    fty = "T" if c["gf"] else ("&'static i32" if D == "Pointer" else "i32")
    fields = {"unit": [], "one": [("x", fty)], "two": [("x", fty), ("y", "u8")]}[c["shape"]]
    f0 = "_0" if tuple_form else "x"
    is_enum = c["kind"] == "enum"
    cont = c["bpos"] in ("container", "both")
    var = c["bpos"] in ("variant", "both")
    lit, args = "", []
    if c["uses"]:
        for flag, prm in ((cont, "Q"), (var, "R")):
            if flag:
                lit += "{} "
                args.append(f"<{prm} as Mk>::NAME")
    if c["gf"]:
        lit += "{" + f0 + spec + "}"
    if not lit:
        lit = "lit"
    litattr = f"#[{a}({vlib.rust_lit(lit)}{''.join(', ' + x for x in args)})]" if c["lit"] else ""

    def battr(prm):
        return f"#[{a}({c['spelling']}({prm}: Mk))]"
    qs = "T" if (not is_enum and not c["lit"]) else "Q"      # ExplicitBounds.tla QSubj
    params = (["T"] if c["gf"] else []) + (["U"] if c["other"] == "generic" else []) + (["Q"] if cont and qs == "Q" else []) + (["R"] if var else [])
    inst = {"T": "&'static i32" if D == "Pointer" else "i32", "U": "&'static i32" if D == "Pointer" else "i32", "Q": "Qm", "R": "Qm"}
    ph_ty = "core::marker::PhantomData<(" + ", ".join(p for p in params if p in ("Q", "R")) + ",)>"
    if not is_enum:
        fs = fields + ([("ph", ph_ty)] if qs == "Q" else [])
        body = ("(" + ", ".join(f"pub {t}" for _, t in fs) + ");") if tuple_form else ("{ " + ", ".join(f"pub {n}: {t}" for n, t in fs) + " }")
        attrs = [x for x in (litattr, battr(qs)) if x]
        if not c["split"]:
            attrs.reverse()
        item = " ".join(attrs) + f"\npub struct S<{', '.join(params)}>" + ((" " + body) if not tuple_form else body)
    else:
        vb = ""
        if fields:
            vb = ("(" + ", ".join(t for _, t in fields) + ")") if tuple_form else (" { " + ", ".join(f"{n}: {t}" for n, t in fields) + " }")
        vattrs = [x for x in [litattr] + ([battr("R")] if var else []) if x]
        if not c["split"]:
            vattrs.reverse()
        variants = [" ".join(vattrs) + " V" + vb]
        if c["other"] == "unit":
            variants.append(f'#[{a}("w")] W')
        elif c["other"] == "generic":
            variants.append("W(U)")
        variants.append(f'#[{a}("ph")] Ph({ph_ty})')
        top = (battr("Q") + "\n") if cont else ""
        if c["sh"] != "none":
            top += f"#[{a}({vlib.rust_str('[{_variant}]' if c['sh'] == 'wrap' else 'dflt')})]\n"
        item = f"{top}pub enum S<{', '.join(params)}> {{ {', '.join(variants)} }}"
    return item, params, [inst[p] for p in params]


def explicit_bounds_check(chk, tier, seed, replay):
    """ExplicitBounds.tla: every `bound(...)` predicate of the item and of its variants is part of the impl, next to the inferred ones"""
    r = vlib.run_tlc("MC_ExplicitBounds", f"MC_ExplicitBounds_{tier}", workers=4, timeout=900, xmx="2g")
    chk.add_tlc(r, "explicit bound(...) cases")
    if not r.ok:
        raise vlib.ToolError(f"TLC: {r.violation}\n{r.raw_tail[-1500:]}")
    cases = {}
    for rec in r.cases:
        c = rec["c"]
        k = "bound|" + "|".join(f"{x}={c[x]}" for x in ("D", "kind", "bpos", "gf", "shape", "other", "spelling", "split", "uses", "lit", "sh"))
        cases[k] = (c, rec["preds"])
    if replay:
        want = json.load(open(replay))["key"]
        cases = {k: v for k, v in cases.items() if k == want}
    reqs, built = [], {}
    for k, (c, preds) in cases.items():
        item, params, inst = eb_build(c, k)
        built[k] = (item, params, inst)
        reqs.append({"key": k, "derive": c["D"], "item": item.replace("pub ", ""), "tokens": False})
    obs = vlib.run_inproc("expand", reqs)
    for k, (c, preds) in cases.items():
        item, params, inst = built[k]
        o = obs[k]
        chk.cov["evaluations"] += 1
        if o["outcome"] != "ok":
            chk.deviation(k, f"expansion of a type with `bound(...)`: {o['outcome']}: {o.get('msg')}", case={"item": item}, expected="Ok",
                          observed=o, tags={"kind": "expand_" + o["outcome"]})
            continue
        actual = set()
        for im in o["impls"]:
            for w in im["where"]:
                p = re.split(r"(?<!:):(?!:)", w, maxsplit=1)
                if len(p) == 2:
                    actual.add(f"{norm_ty(p[0])}: {p[1].strip().split('::')[-1].strip()}")
        want = set(preds)
        if want - actual:
            chk.deviation(k, f"predicates missing from the impl: {sorted(want - actual)} (where-clause: {sorted(actual)})", case={"item": item},
                          expected=sorted(want), observed=sorted(actual), tags={"kind": "explicit_bound_lost"})
        extra = {x for x in actual - want if x.split(":")[0] in ("Q", "R") or x.split(": ")[1] in EB_LET}
        if extra:
            chk.deviation(k, f"excessive predicates on the impl: {sorted(extra)}", case={"item": item}, expected=sorted(want),
                          observed=sorted(actual), tags={"kind": "excessive"})
    chk.cov["traces_validated_against_impl"] += len(cases)
    chk.cov["distinct_nontrivial"] += len(cases)
    # rustc: the impl exists for Q = R = a type implementing Mk and no formatting trait, and the literal's use of the predicate compiles
    keys = [k for k in cases if cases[k][0]["uses"] or vlib.seeded_pick(k, seed, 3) == 0]
    mods = []
    for k in keys:
        item, params, inst = built[k]
        D = cases[k][0]["D"]
        mods.append((k, f"use super::*;\n#[derive(derive_more::{D})]\n{item}\n"
                        f"pub fn run() {{ fn has<X: fmt::{D}>() {{}} has::<S<{', '.join(inst)}>>(); report({json.dumps(k)}); }}"))
    obs2, failed, brs = vlib.run_case_crate_sharded("c04_bound", mods, nshards=4, prelude=EB_PRELUDE, features=("display", "debug"))
    for k, _ in mods:
        chk.cov["evaluations"] += 1
        if k in failed:
            chk.deviation(k, "a type whose `bound(...)` predicates cover what its literal uses does not compile: " + failed[k][0]["message"][:220],
                          case={"item": built[k][0]}, expected="compiles", observed=failed[k][:3], tags={"kind": "explicit_bound_compile"})
    chk.cov["traces_validated_against_impl"] += len(mods)
    chk.notes["explicit_bound_cases"] = {"in_process": len(cases), "compiled": len(mods)}


def run(chk, tier, seed, replay):
    chk.assumptions += ["field types: T, &'static T, W<T> (a user wrapper implementing each trait when T does), i32; up to 2 fields, "
                        "up to 1 (quick) / 2 (thorough) placeholders per literal",
                        "non-excess is decided by rustc trait resolution on instantiations with a type implementing no formatting trait"]
    r = vlib.run_tlc("MC_FmtBounds", f"MC_FmtBounds_{tier}", workers=8, timeout=1800, xmx="6g")
    chk.add_tlc(r, "bound cases")
    if not r.ok:
        raise vlib.ToolError(f"TLC: {r.violation}\n{r.raw_tail[-1500:]}")
    cases = {}
    for rec in r.cases:
        c = rec["c"]
        cases[key_of(c)] = (c, rec["doc"], rec["impl"])
    if replay:
        want = json.load(open(replay))["key"]
        cases = {k: v for k, v in cases.items() if k == want}
    chk.cov["exhaustive"] = not replay
    # ---------------- (a) in-process where-clauses
    reqs = []
    built = {}
    for k, (c, doc, impl) in cases.items():
        item, tys, params = build(c, k)
        built[k] = (item, tys, params)
        reqs.append({"key": k, "derive": c["D"], "item": item.replace("pub ", ""), "tokens": False})
    obs = vlib.run_inproc("expand", reqs)
    nontriv = 0
    for k, (c, doc, impl) in cases.items():
        item, tys, params = built[k]
        o = obs[k]
        chk.cov["evaluations"] += 1
        if doc:
            nontriv += 1
        if o["outcome"] != "ok":
            chk.deviation(k, f"expansion of a supported generic type: {o['outcome']}: {o.get('msg')}", case={"item": item},
                          expected="Ok", observed=o, tags={"kind": "expand_" + o["outcome"]})
            continue
        actual = set()
        for im in o["impls"]:
            for w in im["where"]:
                p = re.split(r"(?<!:):(?!:)", w, maxsplit=1)
                if len(p) == 2 and "fmt ::" in p[1]:
                    actual.add((norm_ty(p[0]), p[1].strip().split("::")[-1].strip()))
        required = {(norm_ty(tys[i - 1]), tr) for i, tr in doc}
        missing = required - actual
        # (a type without type parameters needs no predicate at all: `i32: Display` in its where-clause is excess too)
        extra = {x for x in actual - required if (not params) or any(pp in x[0].replace("'static", "") for pp in params)}
        if missing:
            chk.deviation(k, f"bounds missing from the impl: {sorted(missing)} (a formatted generic field is left unbounded)",
                          case={"item": item}, expected=sorted(required), observed=sorted(actual),
                          tags={"kind": "insufficient", "level": c["level"],
                                "hows": sorted({u["how"] for u in c["uses"]})})
        if extra:
            chk.deviation(k, f"excessive bounds on the impl: {sorted(extra)} (an unformatted type parameter is bounded)",
                          case={"item": item}, expected=sorted(required), observed=sorted(actual),
                          tags={"kind": "excessive", "level": c["level"]})
        if len(chk.cov["samples"]) < 4 and required:
            chk.sample({"item": item, "required": sorted(required), "where_clause": sorted(actual)})
    chk.cov["traces_validated_against_impl"] += len(cases)
    chk.cov["distinct_nontrivial"] += nontriv
    # ---------------- (b) rustc: sufficiency + non-excess
    mods = []
    sel = vlib.cap_cases(cases.keys(), seed, 6000 if tier == "quick" else 20000)
    chk.notes["rustc_compiled_cap"] = len(sel)
    for k, (c, doc, impl) in cases.items():
        if k not in sel:
            continue
        if tier == "quick" and not replay and vlib.seeded_pick(k, seed, 3) != 0 and not c["uses"]:
            continue
        item, tys, params = built[k]
        need = {p: set() for p in params}
        for i, tr in doc:
            need[c["fields"][i - 1]["p"]].add(tr)
        inst = []
        for p in params:
            if not need[p]:
                inst.append("NoFmt")
            elif "Pointer" in need[p]:
                inst.append("&'static i32")
            else:
                inst.append("i32")
        g = "<" + ", ".join(inst) + ">" if params else ""
        D = c["D"]
        mods.append((k, f"use super::*;\n#[derive(derive_more::{D})]\n{item}\n"
                        f"pub fn run() {{ fn has<X: fmt::{D}>() {{}} has::<S{g}>(); report({json.dumps(k)}); }}"))
    log(f"[C04] {len(cases)} where-clauses compared, {len(mods)} generic types compiled")
    nsh = 4
    shards = [mods[i::nsh] for i in range(nsh)]
    import concurrent.futures as cf

    def buildc(i):
        if not shards[i]:
            return {}, {}, None
        return vlib.run_case_crate(f"c04_{i}", shards[i], prelude=PRELUDE, features=("display", "debug"),
                                   target_dir=os.path.join(vlib.BUILD, f"target-c04-{i}"))
    with cf.ThreadPoolExecutor(max_workers=nsh) as ex:
        results = list(ex.map(buildc, range(nsh)))
    for i, (obs2, failed, br) in enumerate(results):
        for k, _ in shards[i]:
            c, doc, impl = cases[k]
            chk.cov["evaluations"] += 1
            if k in failed:
                msg = failed[k][0]["message"]
                kind = "excessive" if "has" in msg or "NoFmt" in msg else "insufficient"
                tys = built[k][1]
                shadow = any(tys[i - 1] == "&'static " + tys[j - 1] and tr == tr2 for i, tr in doc for j, tr2 in doc)
                chk.deviation(k, "the generic impl does not type-check without user bounds, or is not available for an "
                              "unformatted parameter instantiated with a formatting-less type: " + msg[:220],
                              case={"item": built[k][0]}, expected="compiles", observed=failed[k][:3],
                              tags={"kind": "rustc_" + kind, "level": c["level"], "hows": sorted({u["how"] for u in c["uses"]}),
                                    "static_ref_shadow": bool(shadow and "lifetime may not live long enough" in msg)})
        chk.cov["traces_validated_against_impl"] += len(shards[i])
    if not replay or "shape|" in json.load(open(replay))["key"]:
        shapes_check(chk, tier, seed, replay)
    if not replay or json.load(open(replay))["key"].startswith("bound|"):
        explicit_bounds_check(chk, tier, seed, replay)
    chk.cov["rule"] = ("derived trait x attribute level (struct, variant, Debug field attributes, enum-level default, enum-level "
                       "wrapper) x field parameter assignment x placeholder reference kinds; non-trivial = at least one bound required")
