"""C12 - TryFrom<repr> is the exact inverse of the enum-to-integer cast.

M : TLC checks TryFromRepr.tla (Rust's discriminant rule vs the textual reconstruction in try_from.rs,
    repr detection) on every enum of <= MaxVariants variants x discriminant expressions x repr attributes.
U : DiscCounter.tla - the two computations as a machine consuming one variant per step; Apalache shows the agreement
    invariant inductive over unbounded integers (any enum length, any discriminant), TLAPS proves Spec => []Agree, the
    broken machine is refuted (negative control); TLC's P_C12_Machine ties the machine to TryFromRepr.tla.
R : each valid enum becomes a real enum deriving TryFrom; for 8/16-bit reprs *every* integer, for wider
    ones all discriminants +-1 and the extremes go through try_from and are compared (a) with the
    specification's table and (b) with rustc's own `as` cast / in-memory tag of the same enum
    (which also validates the specification's discriminant rule). Generic enums check the impl header.
"""
import json
import os

import vlib
from vlib import log


def expr_text(d):
    op = d["op"]
    if op == "lit":
        return str(d["a"])
    if op == "neg":
        return f"-{d['a']}"
    if op == "shl":
        return f"{d['a']} << {d['b']}"
    if op == "or":
        return f"{d['a']} | {d['b']}"
    if op == "add":
        return f"{d['a']} + {d['b']}"
    if op == "bnot":
        return f"!{d['a']}"
    raise ValueError(op)


def key_of(c, gen=""):
    vs = ",".join(f"{v['kind']}" + ("" if v["disc"]["op"] == "none" else "=" + expr_text(v["disc"])) for v in c["vs"])
    at = "".join("#[repr(" + ",".join(a) + ")]" for a in c["attrs"])
    return f"{at}enum{gen}{{{vs}}}"


BITS = {"u8": 8, "i8": 8, "u16": 16, "i16": 16, "u32": 32, "i32": 32, "u64": 64, "i64": 64, "u128": 128, "i128": 128,
        "usize": 64, "isize": 64}

PRELUDE = r'''
use core::marker::PhantomData;
// the type generic enums are instantiated with: it converts from nothing (the impl is for EVERY instantiation)
#[derive(Clone, Copy)] pub struct Nc;
pub static TEXT_BAD: core::sync::atomic::AtomicU64 = core::sync::atomic::AtomicU64::new(0);
pub static TEXT_CHECKED: core::sync::atomic::AtomicU64 = core::sync::atomic::AtomicU64::new(0);
pub fn text_check(got: String, template: &str, n: String) {
    TEXT_CHECKED.fetch_add(1, core::sync::atomic::Ordering::SeqCst);
    if got != template.replace("{n}", &n) { TEXT_BAD.fetch_add(1, core::sync::atomic::Ordering::SeqCst); }
}
pub fn emit(k: &str, casts: &[(usize, i128)], mism: &[(i128, i64, i64)], checked: u64, errpayload_bad: u64) {
    let c: Vec<String> = casts.iter().map(|(i, v)| format!("[{},\"{}\"]", i, v)).collect();
    let m: Vec<String> = mism.iter().take(8).map(|(n, e, g)| format!("[\"{}\",{},{}]", n, e, g)).collect();
    println!("OBS {{\"k\": {:?}, \"casts\": [{}], \"mismatches\": {}, \"first\": [{}], \"checked\": {}, \"bad_err_payload\": {}, \"text_checked\": {}, \"text_bad\": {}}}",
             k, c.join(","), mism.len(), m.join(","), checked, errpayload_bad,
             TEXT_CHECKED.swap(0, core::sync::atomic::Ordering::SeqCst), TEXT_BAD.swap(0, core::sync::atomic::Ordering::SeqCst));
}
'''


def render(c, key, gen):
    if "_module" in c:
        return c["_module"]
    vs = c["vs"]
    repr_ty = c["repr"]
    names = [f"V{i}" for i in range(len(vs))]
    pick = vlib.seeded_pick(key, 17, 4)
    if pick == 0:
        names = ["a", "A", "Nan", "NaN"][:len(vs)]        # names that differ only by case
    elif pick == 1:
        names = ["r#fn", "_X", "X_", "__"][:len(vs)]        # raw identifier, underscores
    fieldless_all = all(v["kind"] in ("unit", "empty_tuple", "empty_brace") for v in vs)
    # rustc allows `as` on a field-less enum only if explicit discriminants sit on unit variants
    can_cast = fieldless_all and all(v["kind"] == "unit" or v["disc"]["op"] == "none" for v in vs)
    has_int_repr = any(h in BITS for a in c["attrs"] for h in a)
    gdecl, guse, phantom = "", "", None
    if gen == "lt_const":
        gdecl, guse = "<'a, const N: usize>", "<'static, 3>"
        phantom = "PhantomData<&'a [u8; N]>"
    elif gen == "const_only":
        # a const parameter need not be used: the enum keeps its shape (still field-less when it was)
        gdecl, guse = "<const N: usize>", "<3>"
    elif gen == "type":
        gdecl, guse = "<T>", "<Nc>"
        phantom = "PhantomData<T>"
    elif gen == "where":
        gdecl, guse = "<T> where T: Copy", "<Nc>"
        phantom = "PhantomData<T>"
    decl = []
    ctor, pats = [], []
    tf = "<3>::" if gen == "const_only" else ""
    for i, v in enumerate(vs):
        d = "" if v["disc"]["op"] == "none" else " = " + expr_text(v["disc"])
        k = v["kind"]
        if k == "unit":
            decl.append(f"{names[i]}{d}")
            ctor.append(f"En::{tf}{names[i]}")
            pats.append(f"En::{names[i]}")
        elif k == "empty_tuple":
            decl.append(f"{names[i]}(){d}")
            ctor.append(f"En::{tf}{names[i]}()")
            pats.append(f"En::{names[i]}()")
        elif k == "empty_brace":
            decl.append(f"{names[i]}{{}}{d}")
            ctor.append(f"En::{tf}{names[i]}{{}}")
            pats.append(f"En::{names[i]}{{}}")
        elif k == "tuple1":
            decl.append(f"{names[i]}(u8){d}")
            ctor.append(f"En::{names[i]}(7)")
            pats.append(f"En::{names[i]}(..)")
        else:
            decl.append(f"{names[i]}{{ f: u8 }}{d}")
            ctor.append(f"En::{names[i]}{{ f: 7 }}")
            pats.append(f"En::{names[i]}{{ .. }}")
    if phantom:
        # generic parameters must be used: one more variant at the end carrying them (it has a field,
        # so it takes part in the counting but never in try_from)
        # (explicit far-away discriminant when allowed, so it cannot collide with an earlier explicit one)
        decl.append(f"G({phantom})" + (" = 100" if has_int_repr else ""))
        ctor.append("En::G(PhantomData)")
        pats.append("En::G(..)")
        fieldless_all = False
    attrs = "".join("#[repr(" + ", ".join(a) + ")]\n" for a in c["attrs"])
    gparams = gdecl.split(" where")[0]
    where = (" where" + gdecl.split(" where")[1]) if " where" in gdecl else ""
    idx_arms = " ".join(f"{p} => {i}," for i, p in enumerate(pats))
    # rustc's ground truth for the discriminants
    if can_cast and not phantom:
        casts = ", ".join(f"({i}, ({ctor[i]} as {repr_ty}) as i128)" for i in range(len(vs)))
    elif has_int_repr:
        casts = ", ".join(f"({i}, unsafe {{ *(&{ctor[i]}{'' if not phantom else ''} as *const En{guse} as *const {repr_ty}) }} as i128)"
                          for i in range(len(vs)))
    else:
        casts = ""
    table = " ".join(f"{c['discs'][i]}i128 => {i}," for i, v in enumerate(vs)
                     if v["kind"] in ("unit", "empty_tuple", "empty_brace"))
    bits = BITS[repr_ty]
    if bits <= 16:
        dom = f"(({repr_ty}::MIN as i128)..=({repr_ty}::MAX as i128)).collect::<Vec<i128>>()"
    else:
        pts = sorted({d + e for d in c["discs"] for e in (-1, 0, 1)} | {0})
        pts_s = ", ".join(f"{p}i128" for p in pts)
        dom = (f"{{ let mut v: Vec<i128> = vec![{pts_s}, {repr_ty}::MIN as i128, {repr_ty}::MAX as i128, "
               f"({repr_ty}::MIN as i128) + 1, ({repr_ty}::MAX as i128) - 1]; "
               f"v.retain(|x| *x >= {repr_ty}::MIN as i128 && *x <= {repr_ty}::MAX as i128); v }}")
    return f"""use super::*;
#[derive(derive_more::TryFrom)]
#[try_from(repr)]
{attrs}pub enum En{gparams}{where} {{ {", ".join(decl)} }}
fn idx{gparams}(v: &En{gparams.replace("const N: usize", "N")}) -> i64{where} {{ match v {{ {idx_arms} }} }}
pub fn run() {{
    let casts: Vec<(usize, i128)> = vec![{casts}];
    let mut mism: Vec<(i128, i64, i64)> = vec![];
    let mut checked = 0u64; let mut bad = 0u64;
    for n in {dom} {{
        let expect: i64 = match n {{ {table} _ => -1 }};
        let r = <En{guse} as core::convert::TryFrom<{repr_ty}>>::try_from(n as {repr_ty});
        let got: i64 = match &r {{ Ok(v) => idx(v), Err(e) => {{ if e.input as i128 != n {{ bad += 1; }} if (n as i128).rem_euclid(251) == 0 {{ text_check(e.to_string(), {json.dumps(c.get("errTemplate", "?"))}, format!("{{:?}}", n as {repr_ty})); }} -1 }} }};
        checked += 1;
        if got != expect {{ mism.push((n, expect, got)); }}
    }}
    emit({json.dumps(key)}, &casts, &mism, checked, bad);
}}"""


def run(chk, tier, seed, replay):
    chk.assumptions += ["discriminant expressions: literals, unary minus, <<, |, + on small constants",
                        "ground truth for discriminants: rustc's `as` cast (field-less enums) or the in-memory tag "
                        "(enums with fields and an explicit integer repr)"]
    r = vlib.run_tlc("MC_TryFromRepr", f"MC_TryFromRepr_{tier}", workers=8, timeout=1800, xmx="6g")
    chk.add_tlc(r, "enums x discriminant patterns x repr attributes")
    if not r.ok:
        raise vlib.ToolError(f"TLC: {r.violation}\n{r.raw_tail[-1500:]}")
    cases = r.cases
    chk.cov["exhaustive"] = not replay
    # the unbounded part: the same two computations as a one-variant-per-step machine (DiscCounter.tla; P_C12_Machine above
    # ties it to TryFromRepr.tla). Apalache: the invariant is inductive over unbounded integers; the broken machine is not.
    # TLAPS: Spec => []Agree.
    proofs = [vlib.run_apalache("DiscCounter", ["--init=Init", "--inv=IndInv", "--length=0"]),
              vlib.run_apalache("DiscCounter", ["--init=IndInv", "--inv=IndInv", "--length=1"]),
              vlib.run_apalache("DiscCounter", ["--init=IndInv", "--next=NextBroken", "--inv=IndInv", "--length=1"], expect_error=True),
              vlib.run_tlapm("DiscCounter_proofs")]
    chk.notes["unbounded"] = proofs
    for p in proofs:
        if not p["ok"]:
            raise vlib.ToolError(f"DiscCounter: {p}")
    mods = []
    meta = {}
    gens = ["", "lt_const", "type", "where", "const_only"]
    for c in cases:
        base = key_of(c)
        # generic variants of the same enum: a seeded share (all of them in the thorough tier for small enums)
        for g in gens:
            if g and g != "const_only" and any(v["disc"]["op"] != "none" for v in c["vs"]) and not any(h in BITS for a in c["attrs"] for h in a):
                continue   # the extra variant carrying the parameters has a field: explicit discriminants need an int repr
            if g:
                share = (12 if tier == "quick" else 4) * (1 if len(c["vs"]) < 3 else 40)
                if vlib.seeded_pick(base + g, seed, share) != 0:
                    continue
            elif len(c["vs"]) >= 3 and vlib.seeded_pick(base, seed, (60 if tier == "quick" else 12) * (len(c["vs"]) - 2) ** 3) != 0:
                continue   # enums of 3+ variants: a seeded share goes to rustc (TLC still checks all of them)
            key = key_of(c, "<" + g + ">" if g else "")
            if replay and json.load(open(replay))["key"] != key:
                continue
            mods.append((key, render(c, key, g)))
            meta[key] = (c, g)
    # discriminants at the ends of every repr type's range (outside TLC's 32-bit integers, hence generated here; the
    # oracle is the same: rustc's own `as` cast): `A = MIN, B, C = MAX - 1, D` and the integers around them
    ext_keys = []
    for t in ["u8", "i8", "u16", "i16", "u32", "i32", "u64", "i64", "u128", "i128", "usize", "isize"]:
        key = f"extremes:{t}"
        if replay and json.load(open(replay))["key"] != key:
            continue
        signed = t.startswith("i")
        probes = ["MIN", "MIN + 1", "MIN + 2", "MAX - 2", "MAX - 1", "MAX", "0", "1", "2"] + (["-1", "-2"] if signed else [])
        pl = ", ".join(f"(<{t}>::{x})" if x[0] == "M" else f"({x} as {t})" for x in probes)
        mod = f"""use super::*;
#[derive(derive_more::TryFrom, Debug, PartialEq, Clone, Copy)]
#[try_from(repr)]
#[repr({t})]
pub enum En {{ A = <{t}>::MIN, B, C = <{t}>::MAX - 1, D }}
pub fn run() {{
    let all = [En::A, En::B, En::C, En::D];
    let mut bad: Vec<String> = vec![];
    let mut checked = 0u64;
    for n in [{pl}] {{
        let want = all.iter().copied().find(|e| (*e as {t}) == n);
        checked += 1;
        match (<En as core::convert::TryFrom<{t}>>::try_from(n), want) {{
            (Ok(g), Some(w)) if g == w => {{}}
            (Err(e), None) if e.input == n => {{}}
            (got, want) => bad.push(format!("{{}}: got {{:?}}, the cast says {{:?}}", n, got.map_err(|e| e.input), want)),
        }}
    }}
    println!("OBS {{{{\\"k\\": {{:?}}, \\"casts\\": [], \\"mismatches\\": {{}}, \\"first\\": {{:?}}, \\"checked\\": {{}}, \\"bad_err_payload\\": 0}}}}",
             {json.dumps(key)}, bad.len(), bad.iter().take(4).collect::<Vec<_>>(), checked);
}}"""
        mods.append((key, mod))
        ext_keys.append(key)
        meta[key] = ({"vs": [{"disc": {"op": "lit"}}], "discs": [], "extremes": t, "_module": mod}, "")
        # bitwise-not of a literal: `!1` is MAX - 1 in an unsigned repr, -2 in a signed one
        key3 = f"extremes:{t}:bnot"
        if not replay or json.load(open(replay))["key"] == key3:
            a3, c3 = ("0", "!1") if not signed else ("!0", "!-5")
            mod3 = mod.replace(f"A = <{t}>::MIN, B, C = <{t}>::MAX - 1, D", f"A = {a3}, B, C = {c3}, D").replace(json.dumps(key), json.dumps(key3))
            mods.append((key3, mod3))
            ext_keys.append(key3)
            meta[key3] = ({"vs": [{"disc": {"op": "lit"}}], "discs": [], "extremes": t, "_module": mod3}, "")
        # the same layout with the discriminants written as LITERALS (decimal, hex with separators, suffixed): values beyond
        # isize / i64 / u64 are ordinary discriminants of the wider and of the unsigned reprs
        bits = BITS[t]
        lo, hi = (-(1 << (bits - 1)), (1 << (bits - 1)) - 1) if signed else (0, (1 << bits) - 1)
        hexs = "0x" + "_".join(f"{hi - 1:X}"[max(0, i - 4):i] for i in range(len(f"{hi - 1:X}"), 0, -4)[::-1])
        for spelling, (a_lit, c_lit) in {"dec": (str(lo), str(hi - 1)), "hex": (str(lo), hexs), "suffixed": (f"{lo}{t}", f"{hi - 1}{t}")}.items():
            key2 = f"extremes:{t}:{spelling}"
            if replay and json.load(open(replay))["key"] != key2:
                continue
            mod2 = mod.replace(f"A = <{t}>::MIN, B, C = <{t}>::MAX - 1, D", f"A = {a_lit}, B, C = {c_lit}, D").replace(json.dumps(key), json.dumps(key2))
            mods.append((key2, mod2))
            ext_keys.append(key2)
            meta[key2] = ({"vs": [{"disc": {"op": "lit"}}], "discs": [], "extremes": t, "_module": mod2}, "")
    # LONG runs of implicit discriminants after an explicit one: the offset added to the last explicit value outgrows what a
    # literal of the repr type can say long before the discriminants themselves do (`V0 = -128` + 139 more variants in i8)
    for t, first, count in (("i8", "-128", 140), ("i8", "-1", 100), ("u8", "0", 256), ("i8", "-128", 256), ("u8", "200", 56),
                            ("u16", "0", 300), ("i16", "-10", 301), ("i16", "-32768", 600)):
        key = f"long:{t}:{first}:{count}"
        if replay and json.load(open(replay))["key"] != key:
            continue
        vs_ = ", ".join([f"V0 = {first}"] + [f"V{i}" for i in range(1, count)])
        mod = f"""use super::*;
#[derive(derive_more::TryFrom, Debug, PartialEq, Clone, Copy)]
#[try_from(repr)]
#[repr({t})]
pub enum En {{ {vs_} }}
pub fn run() {{
    let mut bad: Vec<String> = vec![];
    let mut checked = 0u64;
    let lo = {first} as i32; let hi = lo + {count} - 1;
    for n in <{t}>::MIN..=<{t}>::MAX {{
        checked += 1;
        match <En as core::convert::TryFrom<{t}>>::try_from(n) {{
            Ok(v) if (v as {t}) == n && (n as i32) >= lo && (n as i32) <= hi => {{}}
            Err(e) if e.input == n && ((n as i32) < lo || (n as i32) > hi) => {{}}
            other => bad.push(format!("{{}}: {{:?}}", n, other.map(|v| v as {t}).map_err(|e| e.input))),
        }}
    }}
    println!("OBS {{{{\\"k\\": {{:?}}, \\"casts\\": [], \\"mismatches\\": {{}}, \\"first\\": {{:?}}, \\"checked\\": {{}}, \\"bad_err_payload\\": 0}}}}",
             {json.dumps(key)}, bad.len(), bad.iter().take(4).collect::<Vec<_>>(), checked);
}}"""
        mods.append((key, mod))
        ext_keys.append(key)
        meta[key] = ({"vs": [{"disc": {"op": "lit"}}], "discs": [], "extremes": t, "_module": mod}, "")
    if not replay:
        # rustc cannot take an unbounded number of probe modules: the <= 2-variant enums, then a seeded share
        keep = vlib.cap_cases([k for k, _ in mods], seed, 12000 if tier == "quick" else 30000,
                              keep=lambda k: len(meta[k][0]["vs"]) <= 2 or k.startswith(("extremes:", "long:")))
        mods = [m for m in mods if m[0] in keep]
    log(f"[C12] {len(mods)} enums")
    nsh = 4 if tier == "quick" else 12
    shards = [mods[i::nsh] for i in range(nsh)]
    import concurrent.futures as cf

    def build(i):
        if not shards[i]:
            return {}, {}, None
        return vlib.run_case_crate(f"c12_{i}", shards[i], prelude=PRELUDE, features=("try_from",),
                                   target_dir=os.path.join(vlib.BUILD, f"target-c12-{i}"))
    # (at most six compilers at a time: twelve 3-4 GB rustc processes next to other work have been killed for memory)
    with cf.ThreadPoolExecutor(max_workers=min(nsh, 6)) as ex:
        results = list(ex.map(build, range(nsh)))
    nontrivial = 0
    for i, (obs, failed, br) in enumerate(results):
        for key, _ in shards[i]:
            c, g = meta[key]
            chk.cov["evaluations"] += 1
            if any(v["disc"]["op"] != "none" for v in c["vs"]):
                nontrivial += 1
            if key in failed:
                chk.deviation(key, "derive(TryFrom) on a valid enum does not compile: " + failed[key][0]["message"][:300],
                              case={"module": render(c, key, g)}, expected="compiles", observed=failed[key][:3],
                              tags={"kind": "compile_error", "generic": g})
                continue
            o = obs.get(key)
            if o is None or o.get("crashed"):
                chk.deviation(key, "no observation", case={"module": render(c, key, g)}, expected="runs", observed=o,
                              tags={"kind": "crash"})
                continue
            # the specification's discriminants against rustc's
            for idx, val in o["casts"]:
                if int(val) != c["discs"][idx]:
                    raise vlib.ToolError(f"TryFromRepr.tla's discriminant rule disagrees with rustc on {key}: "
                                         f"variant {idx}: spec {c['discs'][idx]}, rustc {val}")
            # extension (TryFromRepr.tla DocErrTemplate): what the error prints
            ext = chk.notes.setdefault("extension_error_texts", {"checked": 0, "mismatches": 0, "examples": []})
            ext["checked"] += o.get("text_checked", 0)
            if o.get("text_bad"):
                ext["mismatches"] += o["text_bad"]
                if len(ext["examples"]) < 10:
                    ext["examples"].append(key)
                log(f"EXTENSION-MISMATCH (not a C12 verdict) TryFromReprError text: {key}: {o['text_bad']} of {o['text_checked']} texts differ from {c.get('errTemplate')!r}")
            if o["mismatches"] or o["bad_err_payload"]:
                chk.deviation(key, f"try_from disagrees with the cast on {o['mismatches']} of {o['checked']} integers "
                              f"(first: n, expected variant, got variant = {o['first'][:3]}); "
                              f"{o['bad_err_payload']} errors do not carry the input",
                              case={"enum": key, "module": render(c, key, g)}, expected="inverse of the cast",
                              observed=o, tags={"kind": "not_inverse", "generic": g})
            if len(chk.cov["samples"]) < 4 and o["casts"]:
                chk.sample({"enum": key, "discriminants": c["discs"], "integers_checked": o["checked"]})
        chk.cov["traces_validated_against_impl"] += len(shards[i])
    chk.cov["distinct_nontrivial"] += nontrivial
    chk.cov["rule"] = ("every enum of <= MaxVariants variants over the listed kinds x 8 discriminant choices x 19 repr "
                       "attribute sets that rustc accepts; non-trivial = at least one explicit discriminant")
