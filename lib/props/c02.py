"""C02 - derived formatting prints exactly what format! prints for the same literal.

M : TLC checks FmtText.tla (documented bindings vs the transcription of `let name = &self.member`,
    verbatim hand-over, additional_deref_args and the transparent path) on every literal of <= MaxPieces
    pieces x argument lists of <= MaxArgs.
R : every case becomes a real type; its output is compared, in the same process, with
    `format!(<same literal>, <same args>, name = <field itself> ...)` (the property's reference) and, piece by
    piece, with what the specification's DocText prescribes (which binds Doc* to std as well).
    Implicit bodies (single field, unit name with rename_all) are replayed from a second TLC module.
"""
import json
import os

import vlib
from vlib import log

LET = {"Display": "", "Debug": "?", "LowerHex": "x", "Pointer": "p", "Binary": "b", "Octal": "o", "UpperHex": "X",
       "LowerExp": "e", "UpperExp": "E"}
ATTR = {"Display": "display", "Debug": "debug", "LowerHex": "lower_hex", "Pointer": "pointer", "Binary": "binary",
        "Octal": "octal", "UpperHex": "upper_hex", "LowerExp": "lower_exp", "UpperExp": "upper_exp"}
DERIVED = ["Display", "LowerHex", "Debug", "Pointer", "Binary", "Octal", "UpperHex", "LowerExp", "UpperExp"]
PRELUDE = r'''
pub static A: i32 = 41; pub static B: i32 = 42;
pub fn report(k: &str, got: String, reference: String, doc: String) {
    println!("OBS {{\"k\": {:?}, \"got\": {:?}, \"ref\": {:?}, \"doc\": {:?}}}", k, got, reference, doc);
}
'''


def key_of(c):
    def r(x):
        return ":".join(str(y) for y in x)
    lit = ",".join((p["k"] if p["k"] != "ph" else f"ph[{r(p['ref'])}:{p['tr']}]") for p in c["lit"])
    args = ",".join(f"{a['alias']}={r(a['e'])}" for a in c["args"])
    return f"{lit}|{args}"


def render(c, key, seed_shape):
    shape = ["tuple", "named", "variant"][seed_shape % 3]
    if any(a["e"][0] == "selfdot" for a in c["args"]) and shape == "variant":
        shape = "tuple"
    D = DERIVED[(seed_shape // 3) % len(DERIVED)]
    names = ["a", "b"] if shape == "named" else ["_0", "_1"]
    members = ["a", "b"] if shape == "named" else ["0", "1"]
    pieces = []
    lit_names = set()
    case_mod = ["", "", "7", "018", "#", "*>9"][(seed_shape // 135) % 6]     # the same modifier on every placeholder of a case
    for p in c["lit"]:
        if p["k"] == "text":
            pieces.append("t")
        elif p["k"] == "lbrace":
            pieces.append("{{")
        elif p["k"] == "rbrace":
            pieces.append("}}")
        else:
            ref = p["ref"]
            if ref[0] == "name":
                rs = names[ref[1] - 1]
                lit_names.add(ref[1])
            elif ref[0] == "next":
                rs = ""
            elif ref[0] == "pos":
                rs = str(ref[1])
            else:
                rs = ref[1]
            t = LET[p["tr"]]
            # spelling: a fifth of the cases write every placeholder with trailing whitespace (`{x }`, `{x:p }`), which
            # std::fmt ignores
            # modifiers rotate as well (the reference is format! on the very same literal, so any std-valid spec will do):
            # none / width / zero-padded width / alternate / fill+align+width
            spec = case_mod + t
            pieces.append("{" + rs + (":" + spec if spec else "") + (" " if (seed_shape // 27) % 5 == 0 else "") + "}")
    lit = "|".join(pieces)
    user_aliases = set()
    dargs, rargs = [], []
    for a in c["args"]:
        e = a["e"]
        if e[0] == "field":
            d = r = names[e[1] - 1]
        elif e[0] == "deref":
            d = r = "*" + names[e[1] - 1]
        elif e[0] == "selfdot":
            d = "self." + members[e[1] - 1]
            r = "s." + members[e[1] - 1]
        else:
            d = r = "(&B)"
        al = a["alias"]
        if al in ("f1", "f2"):
            al = names[int(al[1]) - 1]
            user_aliases.add(int(a["alias"][1]))
        pre = f"{al} = " if al else ""
        dargs.append(pre + d)
        rargs.append(pre + r)
    # (a third of the argument lists end with a comma, as format_args! allows: the derive's own additions go after it)
    tc = "," if (dargs and vlib.seeded_pick(lit + "|".join(dargs), 59, 3) == 0) else ""
    attr = f"#[{ATTR[D]}({vlib.rust_lit(lit)}" + "".join(", " + x for x in dargs) + tc + ")]"
    companion = None
    if shape == "variant":
        # an attribute-less single-field variant FOLLOWS the attributed one: it prints as its field does (Debug: as std)
        decl = f"#[derive(derive_more::{D})]\npub enum S {{ {attr} V(&'static i32, &'static i32), W(&'static i32) }}"
        ctor = "S::V(&A, &B)"
        binds = "let (f0, f1) = match s { S::V(x, y) => (x, y), _ => unreachable!() }; let _0 = f0; let _1 = f1;"
        companion = ('format!("{:?}", S::W(&A))', 'format!("W({:?})", A)') if D == "Debug" else \
                    ('format!("{:%s}", S::W(&A))' % LET[D], 'format!("{:%s}", &A)' % LET[D])
        itself = ["*f0", "*f1"]
        refto = ["f0", "f1"]
    elif shape == "named":
        decl = f"#[derive(derive_more::{D})]\n{attr}\npub struct S {{ pub a: &'static i32, pub b: &'static i32 }}"
        ctor = "S { a: &A, b: &B }"
        binds = "let a = &s.a; let b = &s.b;"
        itself = ["s.a", "s.b"]
        refto = ["&s.a", "&s.b"]
    else:
        decl = f"#[derive(derive_more::{D})]\n{attr}\npub struct S(pub &'static i32, pub &'static i32);"
        ctor = "S(&A, &B)"
        binds = "let _0 = &s.0; let _1 = &s.1;"
        itself = ["s.0", "s.1"]
        refto = ["&s.0", "&s.1"]
    extra = [f"{names[f - 1]} = {itself[f - 1]}" for f in sorted(lit_names) if f not in user_aliases]
    ref_call = "format!(" + vlib.rust_str(lit) + "".join(", " + x for x in rargs + extra) + ")"
    # the specification's DocText, piece by piece
    docp = []
    for tok in c["doc"]:
        if tok[0] == "T":
            docp.append(f"String::from({vlib.rust_str(tok[1])})")
        else:
            f, depth = tok[2]
            obj = "(&B)" if f == 0 else (itself[f - 1] if depth == 0 else refto[f - 1])
            docp.append('format!("{:%s%s}", %s)' % (case_mod, LET[tok[1]], obj))
    doc_call = "[" + ", ".join(docp) + '].join("|")'
    comp_code = ""
    if companion:
        comp_code = (f'let got = format!("{{}}|companion:{{}}", got, {companion[0]}); let reference = format!("{{}}|companion:{{}}", reference, {companion[1]}); '
                     f'let doc = format!("{{}}|companion:{{}}", doc, {companion[1]});')
    mod = f"""use super::*;
{decl}
pub fn run() {{
    let v = {ctor};
    let got = format!("{{:{LET[D]}}}", v);
    let s = &v;
    {binds}
    let reference = {ref_call};
    let doc = {doc_call};
    {comp_code}
    report({json.dumps(key)}, got, reference, doc);
}}"""
    return mod, decl


RENAME = [("lowercase", "lower"), ("UPPERCASE", "upper"), ("PascalCase", "pascal"), ("camelCase", "camel"),
          ("snake_case", "snake"), ("SCREAMING_SNAKE_CASE", "ssnake"), ("kebab-case", "kebab"),
          ("SCREAMING-KEBAB-CASE", "skebab")]
NAMES = {"FooBar": {"lower": "foobar", "upper": "FOOBAR", "pascal": "FooBar", "camel": "fooBar", "snake": "foo_bar",
                    "ssnake": "FOO_BAR", "kebab": "foo-bar", "skebab": "FOO-BAR"},
         "Abc": {"lower": "abc", "upper": "ABC", "pascal": "Abc", "camel": "abc", "snake": "abc", "ssnake": "ABC",
                 "kebab": "abc", "skebab": "ABC"},
         "some_thing": {"lower": "something", "upper": "SOMETHING", "pascal": "SomeThing", "camel": "someThing",
                        "snake": "some_thing", "ssnake": "SOME_THING", "kebab": "some-thing", "skebab": "SOME-THING"},
         # raw identifiers: the name is the identifier without its `r#`
         "r#type": {"lower": "type", "upper": "TYPE", "pascal": "Type", "camel": "type", "snake": "type", "ssnake": "TYPE",
                    "kebab": "type", "skebab": "TYPE"},
         "r#Match": {"lower": "match", "upper": "MATCH", "pascal": "Match", "camel": "match", "snake": "match",
                     "ssnake": "MATCH", "kebab": "match", "skebab": "MATCH"}}


def implicit_cases():
    """attribute-less bodies: single field under each derived trait, unit names, rename_all (the casings are a
    fixed table for unambiguous names, see DESIGN 2.4)"""
    mods = []
    for D in DERIVED:
        if D == "Debug":
            continue
        key = f"implicit:single:{D}"
        val = "&A" if D == "Pointer" else "41"
        ty = "&'static i32" if D == "Pointer" else "i32"
        for shape, decl, ctor in (("t", f"pub struct S(pub {ty});", f"S({val})"),
                                  ("n", f"pub struct S {{ pub f: {ty} }}", f"S {{ f: {val} }}"),
                                  ("v", f"pub enum S {{ V({ty}), #[{ATTR[D]}(\"u\")] U }}", f"S::V({val})")):
            k = key + ":" + shape
            mods.append((k, f"""use super::*;
#[derive(derive_more::{D})]
{decl}
pub fn run() {{ let v = {ctor}; let got = format!("{{:{LET[D]}}}", v); let r = format!("{{:{LET[D]}}}", {val});
    report({json.dumps(k)}, got, r.clone(), r); }}"""))
    for nm, table in NAMES.items():
        for attr, kk in RENAME:
            for lvl in ("struct", "enum_top", "variant"):
                k = f"implicit:rename:{nm}:{kk}:{lvl}"
                exp = table[kk]
                ra = f'#[display(rename_all = "{attr}")]'
                if lvl == "struct":
                    decl, ctor = f"{ra}\npub struct {nm};", nm
                elif lvl == "enum_top":
                    decl, ctor = f"{ra}\npub enum E {{ {nm}, Other }}", f"E::{nm}"
                else:
                    decl, ctor = f"pub enum E {{ {ra} {nm}, Other }}", f"E::{nm}"
                mods.append((k, f"""use super::*;
#[derive(derive_more::Display)]
{decl}
pub fn run() {{ let got = format!("{{}}", {ctor}); let r = String::from({vlib.rust_str(exp)});
    report({json.dumps(k)}, got, r.clone(), r); }}"""))
        k = f"implicit:unitname:{nm}"
        mods.append((k, f"""use super::*;
#[derive(derive_more::Display)]
pub enum E {{ {nm}, Other }}
pub fn run() {{ let got = format!("{{}}", E::{nm}); let r = String::from({vlib.rust_str(nm[2:] if nm.startswith("r#") else nm)});
    report({json.dumps(k)}, got, r.clone(), r); }}"""))
    return mods


def wide_cases():
    """twelve-field structs and variants (beyond the ten one-digit tuple indices: `_10`, `_11` sort before `_2` as text), every
    field a different value, with literals naming fields on both sides of that boundary; the reference is `format!` of the same
    literal with the fields bound under their names"""
    mods = []
    n = 12
    vals = [str(100 + 7 * i) for i in range(n)]
    letters = "abcdefghijkl"
    for D, a, sp in (("Display", "display", ""), ("LowerHex", "lower_hex", ":x"), ("Debug", "debug", ":?")):
        for shape in ("tuple_struct", "named_struct", "tuple_variant", "named_variant"):
            named = shape.startswith("named")
            nm = (lambda i: letters[i]) if named else (lambda i: f"_{i}")
            lit = "-".join("{" + nm(i) + sp + "}" for i in (2, 9, 10, 11, 1, 0)) + "|{" + nm(10) + sp + "}"
            binds = ", ".join(f"{nm(i)} = {vals[i]}i32" for i in range(n) if ("{" + nm(i) + sp + "}") in lit)
            k = f"wide:{D}:{shape}"
            fields_t = ", ".join("pub i32" for _ in range(n))
            fields_n = ", ".join(f"pub {letters[i]}: i32" for i in range(n))
            if shape == "tuple_struct":
                decl, ctor = f"#[{a}({vlib.rust_str(lit)})]\npub struct W({fields_t});", "W(" + ", ".join(vals) + ")"
            elif shape == "named_struct":
                decl, ctor = f"#[{a}({vlib.rust_str(lit)})]\npub struct W {{ {fields_n} }}", "W { " + ", ".join(f"{letters[i]}: {vals[i]}" for i in range(n)) + " }"
            elif shape == "tuple_variant":
                other = "" if D == "Display" else f"#[{a}(\"o\")] "
                decl, ctor = f"pub enum W {{ #[{a}({vlib.rust_str(lit)})] V({fields_t.replace('pub ', '')}), {other}Other }}", "W::V(" + ", ".join(vals) + ")"
            else:
                other = "" if D == "Display" else f"#[{a}(\"o\")] "
                decl, ctor = (f"pub enum W {{ #[{a}({vlib.rust_str(lit)})] V {{ {fields_n.replace('pub ', '')} }}, {other}Other }}",
                              "W::V { " + ", ".join(f"{letters[i]}: {vals[i]}" for i in range(n)) + " }")
            fmt = {"Display": "{}", "LowerHex": "{:x}", "Debug": "{:?}"}[D]
            mods.append((k, f"""use super::*;
#[derive(derive_more::{D})]
{decl}
pub fn run() {{ let got = format!("{fmt}", {ctor}); let r = format!({vlib.rust_str(lit)}, {binds});
    report({json.dumps(k)}, got, r.clone(), r); }}"""))
    return mods


def run(chk, tier, seed, replay):
    chk.assumptions += ["every field is a `&'static i32` (implements all nine traits, so any placeholder trait can refer to any field)",
                        "shape (tuple struct / named struct / enum variant), derived trait and placeholder spelling (a fifth with trailing whitespace; width / zero-pad / alternate / fill modifiers) rotate over the cases by hash",
                        "rename_all: 8 casings x 5 unambiguous names, two of them raw identifiers (fixed expectation table)"]
    r = vlib.run_tlc("MC_FmtText", f"MC_FmtText_{tier}", workers=8, timeout=1800, xmx="6g")
    chk.add_tlc(r, "literals x argument lists")
    if not r.ok:
        raise vlib.ToolError(f"TLC: {r.violation}\n{r.raw_tail[-1500:]}")
    cases = {key_of(c): c for c in r.cases}
    if replay:
        want = json.load(open(replay))["key"]
        cases = {k: v for k, v in cases.items() if k == want}
    chk.cov["exhaustive"] = not replay
    # the compiled share: all Pointer / transparent cases + a seeded share of the rest, capped at about 40 000 types
    share = 4 if tier == "quick" else max(1, len(cases) // 30000)
    mods, decls = [], {}
    for k, c in cases.items():
        has_ptr = any(p["k"] == "ph" and p["tr"] == "Pointer" for p in c["lit"])
        small = len(c["lit"]) <= 1 or not any(p["k"] == "ph" for p in c["lit"])      # text / brace-only literals: all of them
        if not replay and share > 1 and not c["transparent"] and not small and vlib.seeded_pick(k, seed, share if not has_ptr else max(1, share // 4)) != 0:
            continue
        m, d = render(c, k, vlib.seeded_pick(k, 7, 27 * 5 * 6))
        mods.append((k, m))
        decls[k] = d
    cap = 12000 if tier == "quick" else 24000     # rustc's memory grows with the crate: keep the compiled set bounded
    if len(mods) > cap:
        mods = sorted(mods, key=lambda m: vlib.seeded_pick(m[0], seed + 17, 1 << 30))[:cap]
        chk.notes["compiled_cap"] = cap
    if not replay:
        imp = implicit_cases() + wide_cases()
        mods += imp
        for k, m in imp:
            decls[k] = m
    log(f"[C02] {len(mods)} types compiled ({len(cases)} model cases)")
    nsh = 6
    shards = [mods[i::nsh] for i in range(nsh)]
    import concurrent.futures as cf

    def buildc(i):
        if not shards[i]:
            return {}, {}, None
        return vlib.run_case_crate(f"c02_{i}", shards[i], prelude=PRELUDE, features=("display", "debug"),
                                   target_dir=os.path.join(vlib.BUILD, f"target-c02-{i}"))
    with cf.ThreadPoolExecutor(max_workers=nsh) as ex:
        results = list(ex.map(buildc, range(nsh)))
    nontriv = 0
    for i, (obs, failed, br) in enumerate(results):
        for k, _ in shards[i]:
            chk.cov["evaluations"] += 1
            c = cases.get(k)
            if c is not None and any(p["k"] == "ph" for p in c["lit"]) and c["args"]:
                nontriv += 1
            tags = {"kind": "text", "transparent": bool(c and c["transparent"]),
                    "pointer_field_arg": bool(c and c["transparent"] and c["lit"][0]["tr"] == "Pointer"
                                              and c["args"] and c["args"][0]["e"][0] == "field")}
            if k in failed:
                chk.deviation(k, "a valid format attribute does not compile: " + failed[k][0]["message"][:200],
                              case={"decl": decls[k]}, expected="compiles", observed=failed[k][:3],
                              tags=dict(tags, kind="compile_error"))
                continue
            o = obs.get(k)
            if o is None or o.get("crashed"):
                chk.deviation(k, "no observation", case={"decl": decls[k]}, expected="runs", observed=o, tags=dict(tags, kind="crash"))
                continue
            if o["ref"] != o["doc"]:
                raise vlib.ToolError(f"FmtText.tla's DocText disagrees with format! itself on {k}: {o}")
            if o["got"] != o["ref"]:
                chk.deviation(k, f"derived output {o['got']!r} differs from format!'s {o['ref']!r}",
                              case={"decl": decls[k]}, expected=o["ref"], observed=o["got"], tags=tags)
            if len(chk.cov["samples"]) < 4 and c is not None and len(c["lit"]) > 1 and c["args"]:
                chk.sample({"decl": decls[k], "derived": o["got"], "format!": o["ref"]})
        chk.cov["traces_validated_against_impl"] += len(shards[i])
    chk.cov["distinct_nontrivial"] += nontriv
    chk.cov["rule"] = ("every literal of <= MaxPieces pieces (text, {{, }}, placeholders referring by field name / position / "
                       "implicit counter / alias under the tier's traits) x argument lists of <= MaxArgs (field, *field, "
                       "self.member, constant; aliased or not) that format_args! accepts; non-trivial = placeholders and arguments")
