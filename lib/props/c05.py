"""C05 - caller's formatting flags pass through exactly for bare-placeholder formats.

M : TLC checks FmtTransparent.tla (the property's iff vs the transcription of transparent_call) on every
    (derived trait, shape, literal structure, argument form).
R : every case becomes a real type whose field is an echo type (prints the trait it is formatted under
    and every flag of the formatter); for a grid of outer specs the derived output must equal the same
    spec applied directly to the inner value (pass-through) or the flag-free text (inert); cases the
    specification calls errors must fail to compile.
"""
import json
import os
import itertools

import vlib
from vlib import log

LETTER = {"Display": "", "Debug": "?", "LowerDebug": "x?", "UpperDebug": "X?", "Octal": "o", "LowerHex": "x",
          "UpperHex": "X", "Pointer": "p", "Binary": "b", "LowerExp": "e", "UpperExp": "E"}
ATTR = {"Display": "display", "Debug": "debug", "Octal": "octal", "LowerHex": "lower_hex", "UpperHex": "upper_hex",
        "Pointer": "pointer", "Binary": "binary", "LowerExp": "lower_exp", "UpperExp": "upper_exp"}
MOD = {"none": "", "ws": "", "colon": "", "colon_ws": "", "width": "5", "fill": "*<", "left": "<", "center": "^", "right": ">", "sign": "+",
       "minus": "-", "alt": "#", "zero": "0", "prec": ".2"}

PRELUDE = ("use core::fmt;\n#[derive(Clone, Copy)] pub struct P(pub u8);\n"
           # an inherent `fmt` wins over every trait's under method-call syntax: an expansion writing `field.fmt(f)` prints POISON
           "impl P { pub fn fmt(&self, f: &mut fmt::Formatter<'_>) -> fmt::Result { f.write_str(\"<POISON:inherent fmt>\") } }\n") + "".join(f'''
impl fmt::{t} for P {{ fn fmt(&self, f: &mut fmt::Formatter<'_>) -> fmt::Result {{ echo(self.0, "{t}", f) }} }}'''
    for t in ["Display", "Debug", "Octal", "LowerHex", "UpperHex", "Pointer", "Binary", "LowerExp", "UpperExp"]) + r'''
fn echo(id: u8, tr: &str, f: &mut fmt::Formatter<'_>) -> fmt::Result {
    let w = f.width(); let p = f.precision(); let fill = f.fill();
    let al = match f.align() { None => "-", Some(fmt::Alignment::Left) => "<", Some(fmt::Alignment::Center) => "^", Some(fmt::Alignment::Right) => ">" };
    let (sp, sm, alt, z) = (f.sign_plus(), f.sign_minus(), f.alternate(), f.sign_aware_zero_pad());
    // debug-hex flags are observable through an integer's Debug output
    let hex = if tr == "Debug" { let mut s = String::new(); { use fmt::Write; let _ = write!(s, "{}", DebugHexProbe(f)); } s } else { String::new() };
    f.write_str(&format!("<{}:{}:w{:?}:p{:?}:{:?}{}:{}{}{}{}{}>", id, tr, w, p, fill, al,
        if sp {"+"} else {""}, if sm {"-"} else {""}, if alt {"#"} else {""}, if z {"0"} else {""}, hex))
}
struct DebugHexProbe<'a, 'b>(&'a fmt::Formatter<'b>);
impl fmt::Display for DebugHexProbe<'_, '_> { fn fmt(&self, _: &mut fmt::Formatter<'_>) -> fmt::Result { Ok(()) } }
pub fn report(k: &str, bad: &[(usize, String, String)], n: usize) {
    let b: Vec<String> = bad.iter().take(4).map(|(i, g, w)| format!("[{}, {:?}, {:?}]", i, g, w)).collect();
    println!("OBS {{\"k\": {:?}, \"bad\": {}, \"n\": {}, \"first\": [{}]}}", k, bad.len(), n, b.join(", "));
}
'''


def grid(tier):
    out = []
    fills = ["", "<", "^", ">", "*<", "0>"]
    for fa, sign, alt, zero, width, prec in itertools.product(fills, ["", "+"], ["", "#"], ["", "0"], ["", "8"], ["", ".3"]):
        s = fa + sign + alt + zero + width + prec
        out.append(s)
    if tier == "quick":
        out = [s for i, s in enumerate(out) if i % 9 == 0 or s in ("", ">8", "+.3", "#", "08", "*<8", "^8.3", "+#08")]
    return sorted(set(out))


def fa(c):
    """name of the first named field: `a`, or - a seeded third of the cases - an identifier whose later characters are
    non-ASCII XID_Continue-only ones (vowel signs / virama: a placeholder naming it must still parse as an identifier)"""
    return c.get("_fa", "a")


def fad(c):
    """the same field as it is spelled in declarations and expressions (`r#type` for the placeholder name `type`)"""
    return c.get("_fad", fa(c))


def literal(c):
    lit = c["lit"]
    if lit["nph"] == 0:
        return "a{{b}}" if lit["post"] else "ab"
    named = c["named"]
    f0 = fa(c) if named else "_0"
    ref = {"next": "", "pos0": "0", "pos1": "1", "pos2": "2", "pos_wrap0": "18446744073709551616", "name_field": f0, "name_other": "v"}[lit["ref"]]
    spec = MOD[lit["mod"]] + LETTER[lit["ty"]]
    colon = ":" if (spec or lit["mod"] in ("colon", "colon_ws")) else ""
    ph = "{" + ref + colon + spec + (" " if lit["mod"] in ("ws", "colon_ws") else "") + "}"
    pre, post = ("{{", "}}") if lit.get("esc") else ("a ", " b")
    s = (pre if lit["pre"] else "") + ph + (post if lit["post"] else "") + ("{1}" if lit["nph"] == 2 else "")
    return s


def args_text(c):
    return _args_text(c) + ("," if c.get("tc") else "")


def _args_text(c):
    named = c["named"]
    f0, f1 = (fad(c), "b") if named else ("_0", "_1")
    lit = c["lit"]
    alias = {"name_field": fa(c) if named else "_0", "name_other": "v"}.get(lit["ref"], "v")
    a = c["args"]
    if a == "none":
        return ""
    if a == "pos_field":
        return f", {f0}"
    if a == "pos_expr":
        return f", *{f0}"
    if a == "named_match":
        return f", {alias} = *{f0}"
    if a == "named_nomatch":
        return f", w = {f0}"
    if a == "two":
        return f", {f0}, {f1}"
    if a == "named_extra":
        return f", {alias} = *{f0}, w = {f0}"
    raise ValueError(a)


SHARED = {"none": "", "bare_variant": "{_variant}", "wrap": "[{_variant}]", "default": "dflt"}


def key_of(c):
    return _key_of(c).replace(c["_fa"], "a~nonascii") if ("_fa" in c and "_fad" not in c) else _key_of(c)      # keys stay ASCII


def _key_of(c):
    sh = f"enum-level {SHARED[c['sh']]}|" if c["sh"] != "none" else ""
    if not c["hasAttr"]:
        return f"{sh}{c['D']}|{'n' if c['named'] else 't'}{c['nfields']}|<no attribute>"
    return f"{sh}{c['D']}|{'n' if c['named'] else 't'}{c['nfields']}|{literal(c)}{args_text(c)}"


def decl(c):
    D = c["D"]
    named = c["named"]
    n = c["nfields"]
    attr = f"#[{ATTR[D]}({vlib.rust_lit(literal(c))}{args_text(c)})]\n" if c["hasAttr"] else ""
    if c.get("as_variant"):
        # the same attribute on an enum variant (display.rs / debug.rs take a different route for enums)
        if named:
            body = "{ " + ", ".join(f"{nm}: P" for nm in [fad(c), "b"][:n]) + " }"
            init = "S::V { " + ", ".join(f"{nm}: P({i + 1})" for i, nm in enumerate([fad(c), "b"][:n])) + " }"
        else:
            body = "(" + ", ".join("P" for _ in range(n)) + ")"
            init = "S::V(" + ", ".join(f"P({i + 1})" for i in range(n)) + ")"
        other = f'#[{ATTR[D]}("other")] W' if D != "Display" else "W"
        shared = f'#[{ATTR[D]}("{SHARED[c["sh"]]}")]\n' if c["sh"] != "none" else ""
        return f"#[derive(derive_more::{D})]\n{shared}pub enum S {{ {attr}V{body}, {other} }}", init
    if named:
        body = "{ " + ", ".join(f"pub {nm}: P" for nm in [fad(c), "b"][:n]) + " }"
        init = "S { " + ", ".join(f"{nm}: P({i + 1})" for i, nm in enumerate([fad(c), "b"][:n])) + " }"
    else:
        body = "(" + ", ".join("pub P" for _ in range(n)) + ");"
        init = "S(" + ", ".join(f"P({i + 1})" for i in range(n)) + ")"
    text = f"#[derive(derive_more::{D})]\n{attr}pub struct S{body}"
    if named and c["hasAttr"] and "_fa" not in c and vlib.seeded_pick(text, 43, 3) == 0:
        # the same struct GENERATED BY A macro_rules! MACRO: the derive and the attribute's name are written in the macro's body,
        # the attribute's content (literal and arguments) and the field names are passed in by the caller - so every name the
        # user wrote lives in ONE hygiene context, as it does for `format!` called the same way, and the expansion's own
        # identifiers in another. An expansion that rebuilds a field's identifier from the placeholder's TEXT loses the
        # field's context.
        names = [fad(c), "b"][:n]
        content = f"{vlib.rust_lit(literal(c))}{args_text(c)}"
        mbody = f"#[derive(derive_more::{D})]\n#[{ATTR[D]}($($at)*)]\npub struct S{body}"
        for i, nm in enumerate(names):
            mbody = mbody.replace(f"pub {nm}: P", f"pub $f{i}: P")
        params = " ".join(f"$f{i}:ident" for i in range(n))
        text = f"macro_rules! mk_s {{ ([$($at:tt)*] {params}) => {{ {mbody} }} }}\nmk_s!([{content}] {' '.join(names)});"
    return text, init


def module(c, key, doc, specs):
    d, init = decl(c)
    D = c["D"]
    rows = []
    for i, sp in enumerate(specs):
        got = 'format!("{:%s%s}", v)' % (sp, LETTER[D])
        if doc[0] == "pass":
            inner = "P(1)"
            if doc[1] == "Pointer" and c["args"] in ("pos_field", "named_nomatch"):
                # the argument is the field binding itself, i.e. a reference: formatted directly under Pointer it
                # prints the field's address (std's `impl Pointer for &T`), with the caller's flags
                f0 = fad(c) if c["named"] else "0"
                if c.get("as_variant"):
                    inner = ("match &v { S::V { %s: x, .. } => x, _ => unreachable!() }" % fad(c) if c["named"]
                             else "match &v { S::V(x, ..) => x, _ => unreachable!() }")
                else:
                    inner = f"&v.{f0}"
            want = 'format!("{:%s%s}", %s)' % (sp, LETTER[doc[1]], inner)
        else:
            want = 'format!("{:%s}", v)' % (LETTER[D],)
        rows.append(f"        ({i}, {got}, {want}),")
    return f"""use super::*;
{d}
pub fn run() {{
    let v = {init};
    let rows: Vec<(usize, String, String)> = vec![
{chr(10).join(rows)}
    ];
    let n = rows.len();
    let bad: Vec<(usize, String, String)> = rows.into_iter().filter(|(_, g, w)| g != w).collect();
    report({json.dumps(key, ensure_ascii=False)}, &bad, n);
}}"""


def run(chk, tier, seed, replay):
    chk.assumptions += ["the inner value is an echo type implementing all 9 traits, so the text shows the trait and every "
                        "formatter flag that reached it", "outer spec grid: fill/align x sign x # x 0 x width x precision"]
    r = vlib.run_tlc("MC_FmtTransparent", f"MC_FmtTransparent_{tier}", workers=8, timeout=1800, xmx="6g")
    chk.add_tlc(r, "literal structures x argument forms")
    if not r.ok:
        raise vlib.ToolError(f"TLC: {r.violation}\n{r.raw_tail[-1500:]}")
    specs = grid(tier)
    chk.notes["outer_specs"] = len(specs)
    cases = {}
    for rec in r.cases:
        c = rec["c"]
        if c["named"] and vlib.seeded_pick(json.dumps(c, sort_keys=True), seed + 5, 3) == 0:
            c["_fa"] = "\u092e\u0942\u0932\u094d\u092f"      # Devanagari: letters, vowel sign, virama
        elif c["named"] and vlib.seeded_pick(json.dumps(c, sort_keys=True), seed + 5, 3) == 1:
            c["_fa"], c["_fad"] = "type", "r#type"      # a keyword as a raw identifier: `{type}` names the field `r#type`
        k = key_of(c)
        if c["sh"] != "none":
            # an enum-level attribute exists on enums only: the variant form, always
            cases["variant|" + k] = (dict(c, as_variant=True), rec["doc"], rec["impl"])
            continue
        if k in cases:
            # different structures may render to the same text only if the model is ambiguous
            if cases[k][1] != rec["doc"]:
                raise vlib.ToolError(f"two model cases render to {k} with different expectations")
            continue
        cases[k] = (c, rec["doc"], rec["impl"])
        # the same case as an enum variant (a seeded half in the quick tier)
        if tier == "thorough" or vlib.seeded_pick(k, seed, 3) == 0:
            cv = dict(c, as_variant=True)
            cases["variant|" + k] = (cv, rec["doc"], rec["impl"])
    if replay:
        want = json.load(open(replay))["key"]
        cases = {k: v for k, v in cases.items() if k == want}
    chk.cov["exhaustive"] = not replay
    ok_mods, rej = [], []
    # rustc's cost grows with the number of format! calls: the thorough tier gives every case a rotating eighth of
    # the 192-spec grid (all cases x all specs would be 2.6M calls) and bounds the number of rejected derives compiled
    rot = 8 if tier == "thorough" and not replay else 1
    nspec, subsets = {}, {}
    # (the rare reject families - an index that wraps, an unused second named argument - are always compiled)
    rej_sel = vlib.cap_cases([k for k, v in cases.items() if v[1][0] == "error"], seed, 4000 if tier == "quick" else 12000,
                             keep=lambda k: ("18446744073709551616" in k or ", w = " in k) and vlib.seeded_pick(k, seed, 3) == 0)
    for k, (c, doc, impl) in cases.items():
        if doc[0] == "error":
            if k in rej_sel:
                rej.append((k, "use super::*;\n" + decl(c)[0]))
        else:
            sp = specs[vlib.seeded_pick(k, seed, rot)::rot]
            nspec[k] = len(sp)
            subsets[k] = sp
            ok_mods.append((k, module(c, k, doc, sp)))
    log(f"[C05] {len(ok_mods)} accept cases x {len(specs) // rot} specs, {len(rej)} reject cases")
    nsh = 4 if tier == "quick" else 8
    rej_future = None
    if rej:
        import concurrent.futures as cf0
        rej_ex = cf0.ThreadPoolExecutor(max_workers=1)
        rej_future = rej_ex.submit(vlib.verdict_crate_sharded, "c05_reject", rej, 4, prelude=PRELUDE, features=("display", "debug"))
    shards = [ok_mods[i::nsh] for i in range(nsh)]
    import concurrent.futures as cf

    def build(i):
        if not shards[i]:
            return {}, {}, None
        return vlib.run_case_crate(f"c05_{i}", shards[i], prelude=PRELUDE, features=("display", "debug"),
                                   target_dir=os.path.join(vlib.BUILD, f"target-c05-{i}"))
    with cf.ThreadPoolExecutor(max_workers=nsh) as ex:
        results = list(ex.map(build, range(nsh)))
    nontriv = 0
    for i, (obs, failed, br) in enumerate(results):
        for k, _ in shards[i]:
            c, doc, impl = cases[k]
            chk.cov["evaluations"] += nspec[k]
            if doc[0] == "pass":
                nontriv += 1
            if k in failed:
                chk.deviation(k, "a format the specification accepts does not compile: " + failed[k][0]["message"][:200],
                              case={"decl": decl(c)[0]}, expected=doc, observed=failed[k][:3], tags={"kind": "compile_error"})
                continue
            o = obs.get(k)
            if o is None or o.get("crashed"):
                chk.deviation(k, "no observation", case={"decl": decl(c)[0]}, expected=doc, observed=o, tags={"kind": "crash"})
                continue
            if o["bad"]:
                what = ("caller's flags do not reach the inner argument as if it were formatted directly"
                        if doc[0] == "pass" else "caller's flags change the output of a non-transparent format")
                chk.deviation(k, f"{what}: {o['bad']} of {o['n']} outer specs differ; first (spec index, got, want): {o['first'][:2]}",
                              case={"decl": decl(c)[0], "outer_specs": subsets[k]}, expected=doc, observed=o,
                              tags={"kind": "flags_" + doc[0]})
            if len(chk.cov["samples"]) < 4 and doc[0] == "pass" and c["hasAttr"]:
                chk.sample({"decl": decl(c)[0], "expected": doc, "outer_specs_checked": o["n"], "differences": o["bad"]})
        chk.cov["traces_validated_against_impl"] += len(shards[i])
    chk.cov["distinct_nontrivial"] += nontriv
    if rej:
        per, br = rej_future.result()
        for k, _ in rej:
            chk.cov["evaluations"] += 1
            if not [d for d in per[k] if d["level"] == "error"]:
                c, doc, impl = cases[k]
                chk.deviation(k, "a placeholder that denotes no existing argument (or an unusable argument list) "
                              "compiles: it is delegated instead of rejected", case={"decl": decl(c)[0]},
                              expected="compile error", observed="compiled", tags={"kind": "error_accepted"})
        chk.cov["traces_validated_against_impl"] += len(rej)
    chk.cov["rule"] = ("derived trait x shape x literal structure (text before/after, second placeholder, reference kind, "
                       "11 types, 8 modifier kinds) x 6 argument forms; each accept case x outer-spec grid; "
                       "non-trivial = pass-through cases")
