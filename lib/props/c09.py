"""C09 - Error::source returns exactly the field the documented rules select.

M : TLC checks ErrorSource.tla (documented rules vs the transcription of error.rs with its two index
    spaces) on every layout with <= MaxFields fields.
R : every supported layout becomes a real type deriving Error (real proc-macro, real rustc); the address
    of what source() returns is compared with the addresses of the fields; layouts the rules call
    ambiguous must fail to compile; layouts with a detected backtrace are built with +nightly.
    Every layout (supported or not) is also expanded in-process: no internal failure (shared with C18).
"""
import json
import os

import vlib
from vlib import log

PRELUDE = r'''
use std::error::Error;
use std::fmt;
use std::backtrace::Backtrace;
#[derive(Debug)] pub struct E(pub u8);
impl fmt::Display for E { fn fmt(&self, f: &mut fmt::Formatter<'_>) -> fmt::Result { f.write_str("E") } }
impl Error for E {}
// inherent methods named like Error's: method-call syntax on the source field inside an expansion would reach these
impl E { pub fn source(&self) -> Option<&(dyn Error + 'static)> { Some(&POISON) } }
pub static POISON: E = E(255);
#[derive(Debug)] pub struct NotErr(pub u8);
// a user error type that is merely CALLED Backtrace
pub mod errs { use super::*; #[derive(Debug)] pub struct Backtrace(pub usize);
    impl fmt::Display for Backtrace { fn fmt(&self, f: &mut fmt::Formatter<'_>) -> fmt::Result { f.write_str("B") } } impl Error for Backtrace {} }
pub trait Tr { type Assoc; }
#[derive(Debug)] pub struct HoldsErr; impl Tr for HoldsErr { type Assoc = E; }
#[derive(Debug)] pub struct HoldsNot; impl Tr for HoldsNot { type Assoc = NotErr; }
pub fn addr_dyn(e: &(dyn Error + 'static)) -> usize { e as *const dyn Error as *const u8 as usize }
pub fn addr<T>(t: &T) -> usize { t as *const T as *const u8 as usize }
pub fn which(a: Option<usize>, fields: &[usize]) -> String { match a { None => "null".to_string(),
        Some(a) => match fields.iter().position(|f| *f == a) { Some(i) => format!("{}", i + 1), None => "\"other\"".to_string() } } }
pub fn report(k: &str, src: Option<usize>, fields: &[usize], comp: &str) {
    println!("OBS {{\"k\": \"{}\", \"src\": {}, \"comp\": \"{}\"}}", k, which(src, fields), comp);
}
pub fn report2(k: &str, src: Option<usize>, bt: Option<usize>, fields: &[usize], comp: &str) {
    println!("OBS {{\"k\": \"{}\", \"src\": {}, \"bt\": {}, \"comp\": \"{}\"}}", k, which(src, fields), which(bt, fields), comp);
}
'''

ATTR = {"none": "", "source": "#[error(source)] ", "not_source": "#[error(not(source))] ",
        "backtrace": "#[error(backtrace)] ", "not_backtrace": "#[error(not(backtrace))] ",
        "ignore": "#[error(ignore)] ", "source_backtrace": "#[error(backtrace, source)] ",
        "nb_source": "#[error(not(backtrace), source)] ", "source_nb": "#[error(source, not(backtrace))] ",
        "ns_backtrace": "#[error(not(source), backtrace)] ", "backtrace_ns": "#[error(backtrace, not(source))] "}


def key_of(c):
    return (("V" + {"unit": "", "ignored": "+ign", "sourced": "+src", "ignored_src": "+ignsrc"}[c["comp"]]) if c["isVariant"] else "S") + ("n" if c["named"] else "t") + "[" + \
        ",".join(f'{f["attr"]}:{f["name"]}:{f["ty"]}' for f in c["l"]) + "]"


def render(c, key, src_field=None, nightly=False):
    """module body for one layout. Generic fields get their own parameter; the one holding the source is
    instantiated with an error type, every other one with a type that is no Error."""
    l = c["l"]
    named = c["named"]
    gens = [f"T{i}" for i, f in enumerate(l) if f["ty"] in ("generic", "assoc")]
    gdecl = [f"T{i}" + (": Tr" if f["ty"] == "assoc" else "") for i, f in enumerate(l) if f["ty"] in ("generic", "assoc")]
    g = "<" + ", ".join(gens) + ">" if gens else ""
    gd = "<" + ", ".join(gdecl) + ">" if gens else ""
    fields, vals, names = [], [], []
    for i, f in enumerate(l):
        ty = {"err": "E", "generic": f"T{i}", "assoc": f"T{i}::Assoc", "box": "Box<dyn Error + 'static>", "bt": "Backtrace", "bterr": "errs::Backtrace"}[f["ty"]]
        nm = f["name"] if f["name"] != "other" else f"f{i}"
        names.append(nm)
        is_src = src_field == i + 1
        val = {"err": f"E({i})", "generic": (f"E({i})" if is_src else f"NotErr({i})"), "assoc": (f"E({i})" if is_src else f"NotErr({i})"),
               "box": f"Box::new(E({i})) as Box<dyn Error + 'static>", "bt": "Backtrace::disabled()", "bterr": f"errs::Backtrace({i})"}[f["ty"]]
        if named:
            fields.append(f"{ATTR[f['attr']]}{nm}: {ty}")
            vals.append(f"{nm}: {val}")
        else:
            fields.append(f"{ATTR[f['attr']]}{ty}")
            vals.append(val)
    body_fields = ("{ " + ", ".join(fields) + " }") if named else ("(" + ", ".join(fields) + ")")
    if not l:
        body_fields = " {}" if named else "()"
    init = ("{ " + ", ".join(vals) + " }") if named else ("(" + ", ".join(vals) + ")")
    if not l:
        init = " {}" if named else "()"
    binds = [f"b{i}" for i in range(len(l))]
    pat = ("{ " + ", ".join(f"{names[i]}: b{i}" for i in range(len(l))) + " }") if named else ("(" + ", ".join(binds) + ")")
    if not l:
        pat = " {}" if named else "()"
    addrs = ", ".join((f"addr_dyn(&**b{i})" if f["ty"] == "box" else f"addr(b{i})") for i, f in enumerate(l))
    if c["isVariant"]:
        comp_decl = {"unit": "Other", "ignored": "#[error(ignore)] Other(E)", "sourced": "Other { source: E }",
                     "ignored_src": "#[error(ignore)] Other(#[error(source)] E, u8)"}[c["comp"]]
        comp_ctor = {"unit": "En::Other", "ignored": "En::Other(E(77))", "sourced": "En::Other { source: E(77) }",
                     "ignored_src": "En::Other(E(77), 0)"}[c["comp"]]
        decl = f"#[derive(derive_more::Debug, derive_more::Error)]\npub enum En{gd} {{ V{body_fields}, {comp_decl} }}"
        ctor = f"En::V{init}"
        tyname = "En"
        mpat = f"En::V{pat}"
        extra = ", _ => vec![]"
    else:
        semi = "" if named else ";"
        decl = f"#[derive(derive_more::Debug, derive_more::Error)]\npub struct S{gd}{body_fields}{semi}"
        ctor = f"S{init}"
        tyname = "S"
        mpat = f"S{pat}"
        extra = ""
    ann_list = []
    for i, f in enumerate(l):
        if f["ty"] == "generic":
            ann_list.append("_")
        elif f["ty"] == "assoc":
            ann_list.append("HoldsErr" if src_field == i + 1 else "HoldsNot")
    ann = (": " + tyname + "<" + ", ".join(ann_list) + ">") if ann_list else ""
    # the companion variant's value (explicit type arguments: its constructor mentions no parameter)
    ann2_list = []
    for i, f in enumerate(l):
        if f["ty"] == "generic":
            ann2_list.append("E" if src_field == i + 1 else "NotErr")
        elif f["ty"] == "assoc":
            ann2_list.append("HoldsErr" if src_field == i + 1 else "HoldsNot")
    ann2 = (": " + tyname + "<" + ", ".join(ann2_list) + ">") if ann2_list else ""
    if c["isVariant"]:
        comp_obs = (f"let cv{ann2} = {comp_ctor}; let comp = match (&cv, Error::source(&cv)) {{ (_, None) => \"none\", "
                    + ("(En::Other { source }, Some(s)) => if addr_dyn(s) == addr(source) { \"field\" } else { \"other\" }, "
                       if c["comp"] == "sourced" else "") + "_ => \"other\" };")
    else:
        comp_obs = "let comp = \"na\";"
    if nightly:
        report_call = (f"let bt = core::error::request_ref::<Backtrace>(&v).map(|b| addr(b)); "
                       f"report2({json.dumps(key)}, src, bt, &fields, comp);")
    else:
        report_call = f"report({json.dumps(key)}, src, &fields, comp);"
    return f"""use super::*;
{decl}
impl{gd} fmt::Display for {tyname}{g} {{ fn fmt(&self, f: &mut fmt::Formatter<'_>) -> fmt::Result {{ f.write_str("x") }} }}
pub fn run() {{
    let v{ann} = {ctor};
    let fields: Vec<usize> = match &v {{ {mpat} => vec![{addrs}]{extra} }};
    let src = Error::source(&v).map(addr_dyn);
    {comp_obs}
    {report_call}
}}"""


def item_text(c):
    """plain item (for the in-process expansion)"""
    body = render(c, "x")
    start = body.index("#[derive(derive_more::Debug, derive_more::Error)]\n") + len("#[derive(derive_more::Debug, derive_more::Error)]\n")
    end = body.index("\nimpl")
    return body[start:end]


def run(chk, tier, seed, replay):
    chk.assumptions += ["field types: a concrete error, a type parameter, Box<dyn Error>, std Backtrace; <= 2 (quick) / 3 (thorough) fields",
                        "layouts with a detected backtrace need nightly (provide()): built with cargo +nightly"]
    r = vlib.run_tlc("MC_ErrorSource", f"MC_ErrorSource_{tier}", workers=8, timeout=1800, xmx="6g")
    chk.add_tlc(r, "error layouts")
    if not r.ok:
        raise vlib.ToolError(f"TLC: {r.violation}\n{r.raw_tail[-1500:]}")
    cases = r.cases
    for c in cases:
        c["_key"] = key_of(c)
    if replay:
        want = json.load(open(replay))["key"]
        cases = [c for c in cases if c["_key"] == want.split("|")[0] or c["_key"] == want]
    chk.cov["exhaustive"] = not replay
    by_key = {c["_key"]: c for c in cases}

    # ---- in-process: every layout, supported or not: Ok or Err, never an internal failure
    reqs = [{"key": c["_key"], "derive": "Error", "item": item_text(c), "tokens": False} for c in cases]
    obs = vlib.run_inproc("expand", reqs)
    for c in cases:
        o = obs[c["_key"]]
        chk.cov["evaluations"] += 1
        if o["outcome"] in ("panic", "crash", "timeout"):
            chk.deviation(c["_key"], f"derive(Error) internal failure: {o.get('msg')} at {o.get('loc')}",
                          case={"item": item_text(c)}, expected="impl or diagnostic", observed=o,
                          tags={"kind": "internal"})
        elif c["supported"] and c["doc"][0] == "error" and o["outcome"] != "err":
            chk.deviation(c["_key"], "an ambiguous source/backtrace selection is accepted instead of rejected",
                          case={"item": item_text(c)}, expected="diagnostic", observed=o["outcome"],
                          tags={"kind": "ambiguous_accepted"})
        elif c["supported"] and c["doc"][0] != "error" and o["outcome"] != "ok":
            chk.deviation(c["_key"], f"a supported layout is rejected: {o.get('msg')}",
                          case={"item": item_text(c)}, expected="Ok", observed=o, tags={"kind": "supported_rejected"})

    # ---- real derive + rustc + run time
    sup = [c for c in cases if c["supported"] and c["doc"][0] != "error"]
    if tier == "quick" and not replay:
        # all <=1-field layouts + a seeded third of the 2-field ones on stable; nightly: a seeded sixth
        sup = [c for c in sup if len(c["l"]) < 2 or vlib.seeded_pick(c["_key"], seed, 3) == 0]
        # the companion variants other than the plain unit one: a seeded half
        sup = [c for c in sup if c["comp"] == "unit" or vlib.seeded_pick(c["_key"], seed + 2, 2) == 0]
    if tier == "thorough" and not replay:
        # rustc cannot take 150k modules: every <=2-field layout + a seeded sample of the 3-field ones
        keep = vlib.cap_cases([c["_key"] for c in sup], seed, 24000, keep=lambda k: k.count(":") <= 4)
        sup = [c for c in sup if c["_key"] in keep]
    stable = [c for c in sup if c["bt"][0] != "field"]
    nightly = [c for c in sup if c["bt"][0] == "field"]
    if tier == "quick" and not replay:
        nightly = [c for c in nightly if vlib.seeded_pick(c["_key"], seed + 1, 2) == 0]
    nontrivial = 0
    import concurrent.futures as cf

    def build_group(arg):
        name, group, tc, attrs, nsh = arg
        mods = []
        for c in group:
            src = c["doc"][1] if c["doc"][0] == "field" else None
            mods.append((c["_key"], render(c, c["_key"], src, nightly=(tc == "nightly"))))
        log(f"[C09] building {name}: {len(mods)} layouts")
        return vlib.run_case_crate_sharded(name, mods, nsh, prelude=PRELUDE, toolchain=tc, crate_attrs=attrs,
                                           features=("error", "debug", "std"))
    groups = [g for g in (("c09_stable", stable, None, "", 4 if tier == "quick" else 8),
                          ("c09_nightly", nightly, "nightly", "#![feature(error_generic_member_access)]\n", 3 if tier == "quick" else 6)) if g[1]]
    with cf.ThreadPoolExecutor(max_workers=2) as ex:
        built = list(ex.map(build_group, groups))
    for (name, group, tc, attrs, _), (obs2, failed, br) in zip(groups, built):
        for c in group:
            k = c["_key"]
            chk.cov["evaluations"] += 1
            exp = c["doc"][1] if c["doc"][0] == "field" else None
            if exp is not None:
                nontrivial += 1
            if k in failed:
                chk.deviation(k, "a supported layout does not compile: " + failed[k][0]["message"][:200],
                              case={"module": render(c, k, exp)}, expected={"source": exp}, observed=failed[k][:3],
                              tags={"kind": "compile_error"})
                continue
            o = obs2.get(k)
            if o is None or o.get("crashed"):
                chk.deviation(k, "no observation (probe crashed)", case={"module": render(c, k, exp)},
                              expected={"source": exp}, observed=o, tags={"kind": "crash"})
                continue
            got = o["src"]
            if got != exp:
                chk.deviation(k, f"source() returns {'field %s' % got if got else 'None'}, the rules select "
                              f"{'field %s' % exp if exp else 'None'}",
                              case={"layout": c["l"], "named": c["named"], "variant": c["isVariant"],
                                    "module": render(c, k, exp)},
                              expected={"source": exp}, observed={"source": got}, tags={"kind": "wrong_source"})
            want_comp = "na" if not c["isVariant"] else ("field" if c["compDoc"][0] == "field" else "none")
            if o.get("comp") != want_comp:
                chk.deviation(k, f"source() of the companion variant ({c['comp']}) is {o.get('comp')}, the rules give {want_comp}",
                              case={"layout": c["l"], "companion": c["comp"], "module": render(c, k, exp)},
                              expected={"companion_source": want_comp}, observed={"companion_source": o.get("comp")},
                              tags={"kind": "wrong_companion_source"})
            # extension beyond C09 (spec growth): which field provide() offers for a Backtrace request
            if "bt" in o:
                pv = c.get("provide", ["none"])
                want_bt = pv[1] if pv[0] == "field" else None
                ext = chk.notes.setdefault("extension_provide", {"checked": 0, "mismatches": []})
                ext["checked"] += 1
                if o["bt"] != want_bt and pv[0] != "from_source":
                    ext["mismatches"].append({"layout": k, "expected": pv, "observed": o["bt"]})
                    log(f"EXTENSION-MISMATCH (not a C09 verdict) provide(): {k}: expected {pv}, observed {o['bt']}")
            if len(chk.cov["samples"]) < 4 and exp:
                chk.sample({"layout": k, "expected_source_field": exp, "observed": got, "toolchain": tc or "stable"})
        chk.cov["traces_validated_against_impl"] += len(group)
    chk.cov["distinct_nontrivial"] += nontrivial

    # ---- ambiguous layouts: must not compile with the real derive (a seeded sample)
    amb = [c for c in cases if c["supported"] and c["doc"][0] == "error"]
    amb = sorted(amb, key=lambda c: vlib.seeded_pick(c["_key"], seed, 1 << 30))[:(120 if tier == "quick" else 1200)]
    if amb:
        snips = [(c["_key"], render(c, c["_key"])) for c in amb]
        per, br = vlib.verdict_crate("c09_reject", snips, prelude=PRELUDE, toolchain="nightly",
                                     crate_attrs="#![feature(error_generic_member_access)]\n#![allow(unused, dead_code)]",
                                     features=("error", "debug", "std"))
        for c in amb:
            chk.cov["evaluations"] += 1
            if not [d for d in per[c["_key"]] if d["level"] == "error"]:
                chk.deviation(c["_key"], "ambiguous selection compiles with the real derive",
                              case={"module": render(c, c["_key"])}, expected="compile error", observed="compiled",
                              tags={"kind": "ambiguous_accepted"})
    chk.cov["rule"] = ("every layout (struct / enum variant, named / tuple) with up to MaxFields fields over 7 attribute "
                       "choices x 3 names x 4 types; non-trivial = the rules select a field")
