"""C18 - derive expansion is total: a result or a diagnostic, never an internal failure.

M : TLC checks Totality.tla (the expansion pipeline's allowed transitions, termination under fairness) and
    enumerates the request space derive x item shape x attribute position x attribute body form; the parser
    automata's progress invariants live in MC_FmtStrings / MC_ExprSplit (C03, C16).
R/T : every request is materialised as a syntactically valid item and expanded in-process on the working-tree
    sources under catch_unwind with a per-case deadline (a hard crash of the harness - stack exhaustion - is
    attributed to the case and the run continues); all short strings over an alphabet with 1-4-byte characters,
    random long Unicode literals, huge numbers, unbalanced braces and deeply nested argument expressions go through
    the literal parser and through real expansions. Every observation is classified (table below) and the
    recorded events are validated by TLC against the pipeline specification (Trace_Totality).
"""
import json
import os
import random
import re

import vlib
from vlib import log

INTERNAL_PATTERNS = [
    ("index_out_of_bounds", re.compile(r"index out of bounds|out of range for slice|range end index|range start index")),
    ("unwrap_none", re.compile(r"called `Option::unwrap\(\)` on a `None` value")),
    ("unwrap_err", re.compile(r"called `Result::unwrap\(\)` on an `Err` value")),
    ("unreachable", re.compile(r"entered unreachable code")),
    ("unimplemented", re.compile(r"not implemented|not yet implemented")),
    ("arithmetic_overflow", re.compile(r"attempt to (add|subtract|multiply|divide|negate|shift).*overflow|attempt to divide by zero")),
    ("slice_or_char_boundary", re.compile(r"is not a char boundary|byte index \d+ is out of bounds")),
    ("expect_failed", re.compile(r"Somehow there was no variant name|Tried to get field names of a tuple struct")),
    ("bare_assert", re.compile(r"^assertion failed: |assertion `left == right` failed|assertion `left != right` failed")),
    ("refcell", re.compile(r"already borrowed|already mutably borrowed")),
    ("capacity_overflow", re.compile(r"capacity overflow")),
    # the text of a syn parse error surfacing as a panic: a `parse_quote!` / `parse2(..).unwrap()` of tokens the macro built
    # itself failed - the macro produced something unparsable (no deliberate panic of derive_more reads like this)
    ("built_unparsable_tokens", re.compile(r"^(unexpected token|unexpected end of input|expected (one of|identifier|ident|`|an? |string literal|expression|lifetime|type)|cannot parse)")),
]


def classify(o):
    oc = o["outcome"]
    if oc in ("ok", "ok_unparsable"):
        return "impl" if oc == "ok" else "internal:unreachable"
    if oc == "err":
        return "diagnostic"
    if oc == "timeout":
        return "timeout"
    if oc == "crash":
        return "internal:stack_overflow"
    if oc == "panic":
        msg = o.get("msg", "")
        # `identifier` panics of proc_macro2 ("`is_r#fn` is not a valid Ident") are internal: the macro built an illegal token
        if "is not a valid Ident" in msg or "Ident is not allowed to be empty" in msg:
            return "internal:expect_failed"
        for kind, pat in INTERNAL_PATTERNS:
            if pat.search(msg):
                return "internal:" + kind
        # a deliberate, descriptive panic ("Only structs can derive a constructor", ...) is raised by derive_more's own
        # source; a panic raised inside a dependency (syn, quote, proc_macro2, core) is an assertion of THAT crate failing
        # on what derive_more handed it - an internal failure, whatever its text
        loc = str(o.get("loc") or "")
        if loc and "/impl/src/" not in loc:
            return "internal:dependency_assertion"
        return "diagnostic"
    if oc == "parse_error":
        return "invalid_input"
    return "diagnostic"


SHAPES = {
    "unit_struct": "struct S;", "tuple0": "struct S();", "tuple1": "struct S({F}i32);", "tuple1_unit": "struct S({F}());", "tuple2": "struct S({F}i32, {G}String);",
    "named0": "struct S {{}}", "named1": "struct S {{ {F}a: i32 }}", "named2": "struct S {{ {F}a: i32, {G}b: String }}",
    "enum_empty": "enum S {{}}", "enum_unit": "enum S {{ {V}A, B }}", "enum_tuple": "enum S {{ {V}A({F}i32), B(String) }}",
    "enum_named": "enum S {{ {V}A {{ {F}x: i32 }}, B {{ y: u8 }} }}", "enum_mixed": "enum S {{ {V}A, B({F}i32, {G}u8), C {{ z: String }} }}",
    "union": "union S {{ {F}a: i32, {G}b: u32 }}", "generic_struct": "struct S<'a, T: Clone, const N: usize>({F}&'a [T; N]) where T: Default;",
    "generic_enum": "enum S<T, U = i32> {{ {V}A({F}T), B(U) }}", "raw_names": "enum r#enum {{ {V}r#fn({F}i32), r#in {{ r#type: u8 }} }}",
    "raw_unit_enum": "enum r#enum {{ {V}r#fn, r#in }}", "raw_struct": "struct r#struct {{ {F}r#type: i32, {G}r#fn: u8 }}",
    "raw_newtype": "struct r#fn({F}i32);",
    "unit_where": "struct S where u8: Copy;", "tuple0_where": "struct S() where u8: Copy;", "named0_where": "struct S where u8: Copy {{}}",
    "enum_empty_where": "enum S<T> where T: Clone {{}}",
    "enum_disc64": "#[repr(u64)] enum S {{ {V}A = 18446744073709551615, B = 0xFFFF_FFFF_FFFF_FFFE, C = 9223372036854775808, D = 0o7, E = 0b1010_1010, F = 9223372036854775807u64 }}",
    "enum_disc128": "#[repr(i128)] enum S {{ {V}A = -170141183460469231731687303715884105728, B = 170141183460469231731687303715884105727, C = 0, D = 340282366920938463463374607431768211455 }}",
    "enum_disc_exprs": "#[repr(u8)] enum S {{ {V}A = b'a', B = 1 << 7, C = {{ 1 + 2 }}, D = !0 as u8 >> 1, E = u8::MAX - 1, F = (7), G = -1i8 as u8, H = LEN as u8, I = if true {{ 5 }} else {{ 6 }} }}",
    "enum_odd_names": "enum S {{ {V}\u03a9mega, \u00dcberBreit, __, _x, X, r#fn, a1B2, \U00010400x }}",
    "struct_odd_name": "struct \u03a9;", "struct_underscores": "struct __;",
    "enum_pair": "enum S {{ {V}A({F}i32, {G}u8), B }}", "enum_pair_named": "enum S {{ {V}A {{ {F}x: i32, {G}y: u8 }}, B(String) }}",
    "array_const": "struct S<T>({F}[T; LEN], {G}[u8; core::mem::size_of::<u64>()], Wrap<{{ LEN + 1 }}>);",
}


def body_text(body, attr):
    a = attr
    deep = "(" * 40 + "x" + ")" * 40
    return {
        "bare": f"#[{a}]", "empty_parens": f"#[{a}()]", "ident": f"#[{a}(ignore)]", "two_idents": f"#[{a}(ignore, forward)]",
        "unknown_ident": f"#[{a}(frobnicate)]", "int_literal": f"#[{a}(42)]", "string_literal": f'#[{a}("text")]',
        "eq_string": f'#[{a} = "x"]', "nested_list": f"#[{a}(owned(i32), ref(u8))]", "nested_literal": f"#[{a}(types(42))]",
        "legacy_types_int": f'#[{a}(types(i32, "&str", 7))]', "legacy_fmt": f'#[{a}(fmt = "{{}}", a)]', "path": f"#[{a}(a::b::c)]",
        "not_wrapped": f"#[{a}(not(source))]", "type_list": f"#[{a}(i32, String, Vec<u8>)]", "unit_type": f"#[{a}(())]", "tuple_type": f"#[{a}((i32, u8), (u8,))]", "ref_list": f"#[{a}(ref, ref_mut, owned)]",
        "duplicate_attr": f"#[{a}(ignore)] #[{a}(ignore)]", "trailing_comma": f"#[{a}(forward,)]",
        "fmt_literal": f'#[{a}("{{}} {{_0:?}}", 1)]', "fmt_bad_literal": f'#[{a}("{{:}}}}{{{{ {{ }}")]',
        "fmt_unicode": f'#[{a}("é{{€}}\U0001F600{{:\U0001F600<5}}")]', "fmt_huge_number": f'#[{a}("{{:99999999999999999999999}}{{340282366920938463463374607431768211456}}")]',
        "fmt_args_deep": f'#[{a}("{{}}", {deep})]', "keyword": f"#[{a}(fn, struct, self)]", "punct_soup": f"#[{a}(<<= => ..= :: | || &&)]",
        "group_soup": f"#[{a}([{{()}}], {{[()]}}, (,))]",
        "nested_trailing": f"#[{a}(owned(i32,), ref)]", "nested_trailing2": f"#[{a}(owned(i32,),)]",
        "fmt_variant": f'#[{a}("{{_variant}}")]', "fmt_variant_wrap": f'#[{a}("[{{_variant}}] {{_variant}}")]',
        "types_nocomma": f"#[{a}(i32 u8)]", "forms_nocomma": f"#[{a}(owned(i32) ref_mut u8)]",
        "path_global": f"#[{a}(::owned)]", "path_call": f"#[{a}(forward::all(x), ignore::y)]", "path_generic": f"#[{a}(ignore<T>, forward::<u8>)]",
        "legacy_in_owned": f"#[{a}(owned(types(i64)))]", "legacy_in_ref": f"#[{a}(ref(types(i64)))]", "legacy_in_ref_mut": f"#[{a}(ref_mut(types(i64)))]",
        "rename_lower": f'#[{a}(rename_all = "lowercase")]', "rename_upper": f'#[{a}(rename_all = "UPPERCASE")]',
        "rename_pascal": f'#[{a}(rename_all = "PascalCase")]', "rename_camel": f'#[{a}(rename_all = "camelCase")]',
        "rename_snake": f'#[{a}(rename_all = "snake_case")]', "rename_scream": f'#[{a}(rename_all = "SCREAMING_SNAKE_CASE")]',
        "rename_kebab": f'#[{a}(rename_all = "kebab-case")]', "rename_screamkebab": f'#[{a}(rename_all = "SCREAMING-KEBAB-CASE")]',
        "legacy_fmt_int": f"#[{a}(fmt = 1)]", "legacy_fmt_none": f"#[{a}(fmt =)]", "legacy_fmt_nonstr": f'#[{a}(fmt = 1.5, b"x", true)]',
        "legacy_fmt_only_args": f"#[{a}(fmt, a, b)]",
        "word_repr": f"#[{a}(repr)]", "word_forward": f"#[{a}(forward)]", "word_skip": f"#[{a}(skip)]",
    }[body]


def render(req, attr):
    f = v = i = g = ""
    t = body_text(req["body"], attr) + " "
    if req["pos"] == "field_pair":
        f = t
        g = body_text(req["body2"], attr) + " "
    if req["pos"] == "item":
        i = t
    elif req["pos"] == "variant":
        v = t
    elif req["pos"] == "field":
        f = t
    return i + SHAPES[req["shape"]].format(F=f, V=v, G=g)


def run(chk, tier, seed, replay):
    chk.assumptions += ["panic payloads are classified by the table INTERNAL_PATTERNS: deliberate descriptive panics for unsupported item "
                        "kinds are diagnostics, index/slice/unwrap/unreachable/unimplemented/overflow/illegal-identifier failures, "
                        "timeouts (5 s per case) and harness crashes (stack exhaustion) are internal failures",
                        "items are syntactically valid Rust; attribute bodies are the 18 (quick) / 26 (thorough) forms of Totality.tla"]
    r = vlib.run_tlc("MC_Totality", f"MC_Totality_{tier}", workers=4, timeout=1800, xmx="4g")
    chk.add_tlc(r, "pipeline + request space")
    if not r.ok:
        raise vlib.ToolError(f"TLC: {r.violation}\n{r.raw_tail[-1500:]}")
    chk.cov["exhaustive"] = not replay
    binp = vlib.build_inproc()
    import subprocess
    derives = {}
    for line in subprocess.run([binp, "derives"], stdout=subprocess.PIPE, text=True).stdout.splitlines():
        d = json.loads(line)
        derives[d["trait"]] = d
    reqs = []
    seen = set()
    for req in r.cases:
        d = derives.get(req["d"])
        if d is None:
            raise vlib.ToolError(f"derive {req['d']} of Totality's case space is not in impl/src/lib.rs any more")
        attrs = d["attrs"] or [re.sub(r"(?<!^)(?=[A-Z])", "_", req["d"]).lower()]
        for a in attrs[:1]:
            item = render(req, a)
            key = f"{req['d']}|{item}"
            if key in seen:
                continue
            seen.add(key)
            reqs.append({"key": key, "derive": req["d"], "item": item, "tokens": False})
    # the same items with every field type arriving as an invisible group (a `$t:ty` fragment of a macro_rules! macro):
    # for the attribute-free request of every derive x shape, and for the shapes' field-attributed `bare` requests
    for rq in list(reqs):
        d, item = rq["key"].split("|", 1)
        if "#[" not in item or re.fullmatch(r"[^#]*#\[\w+\] [^#]*", item):
            k = "group_types|" + rq["key"]
            reqs.append({"key": k, "derive": rq["derive"], "item": item, "tokens": False, "group_types": True})
    # literals: every short string over an alphabet with 1-4 byte characters, as a format literal
    alph = ["{", "}", ":", "0", "9", "a", "_", "$", ".", "*", "<", " ", "é", "€", "\U0001F600", "?", "\u3000"]
    maxlen = 3 if tier == "quick" else 4
    lits = [""]
    frontier = [""]
    for _ in range(maxlen):
        frontier = [s + c for s in frontier for c in alph]
        lits += frontier
    rnd = random.Random(seed)
    n_rand = 20000 if tier == "quick" else 300000
    pieces = ["{", "}", "{{", "}}", "{}", "{0}", "{:>", "{a$", ".*", "18446744073709551616", "\U0001F600", "́", "‍", "x?", ":#?", "$", "_", "\\", "\"", "\n", "\u3000}", "\u00a0}", "\u2003"]
    for _ in range(n_rand):
        lits.append("".join(rnd.choice(pieces) if rnd.random() < 0.7 else chr(rnd.choice([rnd.randrange(32, 127), rnd.randrange(0xA0, 0x2FF), rnd.randrange(0x4E00, 0x4E80), rnd.randrange(0x1F600, 0x1F640)]))
                            for _ in range(rnd.randrange(1, 16))))
    lit_reqs = [{"key": "lit:" + s, "lit": s} for s in lits]
    if replay:
        want = json.load(open(replay))["key"]
        reqs = [x for x in reqs if x["key"] == want]
        lit_reqs = [x for x in lit_reqs if x["key"] == want]
    # literals also through a real expansion (a seeded share of the exhaustive ones, all random ones up to a cap)
    share = 4 if tier == "quick" else 2
    for s in lits:
        if vlib.seeded_pick(s, seed, share) == 0 and len(reqs) < (120000 if tier == "quick" else 600000):
            item = f"#[display({vlib.rust_str(s)}, _0)] struct S(i32);"
            k = "Display|" + item
            if not replay or k == want:
                reqs.append({"key": k, "derive": "Display", "item": item, "tokens": False})
    # deep nesting (stack exhaustion): expressions, types, generics
    for depth in (64, 256, 1024) if tier == "quick" else (64, 256, 1024, 4096):
        e = "(" * depth + "1" + ")" * depth
        t = "Vec<" * min(depth, 400) + "u8" + ">" * min(depth, 400)
        for k, d, item in ((f"deep_expr:{depth}", "Display", f'#[display("{{}}", {e})] struct S;'),
                           (f"deep_type:{depth}", "Debug", f"struct S<T>({t}, T);"),
                           (f"deep_type_from:{depth}", "From", f"struct S({t});")):
            if not replay or k == want:
                reqs.append({"key": k, "derive": d, "item": item, "tokens": False})
    log(f"[C18] {len(reqs)} expansions, {len(lit_reqs)} literals")
    obs = vlib.run_inproc("expand", reqs, deadline_ms=5000)
    lobs = vlib.run_inproc("parse-fmt", lit_reqs, deadline_ms=5000)
    os.makedirs(os.path.join(vlib.WORK, "c18"), exist_ok=True)
    tpath = os.path.join(vlib.WORK, "c18", "trace.ndjson")
    events = []
    invalid = 0
    with open(tpath, "w") as f:
        for rq in reqs:
            o = obs[rq["key"]]
            cl = classify(o)
            if cl == "invalid_input":
                invalid += 1
                continue
            f.write(json.dumps({"id": len(events), "outcome": cl}) + "\n")
            events.append((rq, o, cl))
        for rq in lit_reqs:
            o = lobs[rq["key"]]
            cl = "impl" if o["outcome"] in ("some", "none") else classify(o)
            f.write(json.dumps({"id": len(events), "outcome": cl}) + "\n")
            events.append((rq, o, cl))
    chk.notes["inputs_not_valid_rust"] = invalid
    tr = vlib.run_tlc("Trace_Totality", "Trace_Totality", workers=1, timeout=3000, dfs=True, env={"TRACE": tpath}, xmx="8g")
    chk.add_tlc(tr, "trace validation of expansion outcomes")
    done = tr.tagged.get("DONE", [])
    if not done or done[0]["consumed"] != len(events):
        raise vlib.ToolError(f"trace not consumed: {tr.raw_tail[-1500:]}")
    chk.cov["evaluations"] += len(events)
    chk.cov["traces_validated_against_impl"] += len(events)
    hist = {}
    for rq, o, cl in events:
        hist[cl] = hist.get(cl, 0) + 1
    chk.notes["outcome_histogram"] = hist
    chk.cov["distinct_nontrivial"] += hist.get("diagnostic", 0)
    deliberate = {}
    for rq, o, cl in events:
        if o.get("outcome") == "panic" and cl == "diagnostic":
            deliberate[o.get("msg", "")[:90]] = deliberate.get(o.get("msg", "")[:90], 0) + 1
    chk.notes["deliberate_panics_counted_as_diagnostics"] = dict(sorted(deliberate.items(), key=lambda x: -x[1])[:25])
    for b in tr.tagged.get("BAD", []):
        rq, o, cl = events[b["id"]]
        chk.deviation(rq["key"], f"internal failure instead of a result or a diagnostic: {cl}: {o.get('msg', '')[:160]} at {o.get('loc', '')}",
                      case=rq, expected="impl or diagnostic", observed=o, tags={"kind": cl})
    chk.sample({"request": reqs[len(reqs) // 3]["item"], "derive": reqs[len(reqs) // 3]["derive"],
                "outcome": classify(obs[reqs[len(reqs) // 3]["key"]])})
    chk.cov["rule"] = ("derive x 16 item shapes x attribute position x body form (TLC request space) + every string <= 3/4 over a "
                       "16-symbol alphabet with 1-4 byte characters + random Unicode literals + deep nesting; non-trivial = diagnostics")
