"""C19 - expansion is a deterministic pure function of the derive input.

M : TLC checks Determinism.tla: with the fixed hasher and no shared state every process yields the same output
    for the same input (invariant Function, action property Stable); the same model with a seeded hasher or with
    state shared between expansions violates them (checked too: the property is not vacuous and says which
    mechanism - DeterministicState, no statics - it rests on).
T : the real expanders (working-tree sources) are run in K fresh processes - std's RandomState gives each its own
    seeds - over the inputs whose expansion iterates hashed collections (TryInto, FromStr, Mul-like/MulAssign-like
    where-clauses, Error bounds) plus one input per code path of every derive, in different orders (identity,
    reversed, seeded shuffles) and repeatedly within a process; {pid, seq, input, digest} events are validated by
    TLC (Trace_Determinism: the unlogged function input -> digest is bound at first sight). In the thorough tier
    the real proc-macro is also expanded by two separate rustc runs (-Zunpretty=expanded) and compared byte-wise.
"""
import hashlib
import json
import os
import random
import re
import subprocess

import vlib
from vlib import log
from props.c15_cases import CASES
from props.c15 import split_items


def special_inputs():
    out = []
    tys = ["i8", "i16", "i32", "i64", "u8", "u16", "u32", "u64", "bool", "char", "String", "f32"]
    out.append(("TryInto", "#[try_into(owned, ref, ref_mut)] enum E { " + ", ".join(
        f"V{i}({', '.join(tys[(i + j) % len(tys)] for j in range(1 + i % 3))})" for i in range(12)) + ", U1, U2 }"))
    out.append(("FromStr", "enum E { Foo, FOO, foo, Bar, BAR, Baz, Qux, QUX, Quux, Corge, Grault, Garply, Waldo, Fred }"))
    for d in ("Mul", "Div", "Shl", "MulAssign", "RemAssign"):
        out.append((d, "struct S { " + ", ".join(f"f{i}: {t}" for i, t in enumerate(tys[:8])) + " }"))
    # the same code path at different sizes: scratch state that survives between expansions (a cleared set keeps its
    # capacity, a memo keeps its entries) shows as an order that depends on what was expanded before
    for n in (2, 3, 4, 5, 9):
        for rot in (0, 3, 7):
            fts = [tys[(rot + j * 5) % len(tys)] for j in range(n)]
            if len(set(fts)) < n:
                continue
            for d in ("Mul", "ShrAssign"):
                out.append((d, f"struct P{n}_{rot}(" + ", ".join(fts) + ");"))
            out.append(("TryInto", f"enum T{n}_{rot} {{ " + ", ".join(f"V{j}({t})" for j, t in enumerate(fts)) + " }"))
            out.append(("Error", f"enum G{n}_{rot}<" + ", ".join(f"X{j}" for j in range(n)) + "> { " +
                        ", ".join(f"V{j} {{ source: X{j} }}" for j in range(n)) + " }"))
    out.append(("Error", "enum E<A, B, C, D> { V0 { source: A }, V1(#[error(source)] B, u8), V2(C), V3 { #[error(source)] x: D, y: A } }"))
    out.append(("Error", "struct S<A, B>(#[error(source)] Vec<A>, B);"))
    out.append(("Error", "struct Bt { source: std::io::Error, backtrace: std::backtrace::Backtrace }"))
    out.append(("Error", "enum Be { A { source: std::io::Error, #[error(backtrace)] bt: std::backtrace::Backtrace }, B(#[error(backtrace)] std::io::Error), C }"))
    # types that share their leading tokens (a printed form that includes spans tells them apart by the span first)
    for n in (2, 3, 5):
        out.append(("Error", f"enum W{n}<" + ", ".join(f"X{j}" for j in range(n)) + "> { " +
                    ", ".join(f"V{j} {{ source: Box<X{j}> }}" for j in range(n)) + " }"))
        out.append(("Display", '#[display("' + " ".join(f"{{_{j}}}" for j in range(n)) + f'")] struct D{n}<' +
                    ", ".join(f"X{j}" for j in range(n)) + ">(" + ", ".join(f"Box<X{j}>" for j in range(n)) + ");"))
        out.append(("Debug", f"struct B{n}<" + ", ".join(f"X{j}" for j in range(n)) + ">(" + ", ".join(f"Box<X{j}>" for j in range(n)) + ");"))
    # several attributed fields / variants at once: per-attribute tables (keyed by field, by type, by name) are iterated
    out.append(("Debug", 'struct Dn<A, B, C> { #[debug("{a:?}")] a: A, #[debug("{b}")] b: B, #[debug("{c:x}")] c: C, d: u8 }'))
    out.append(("Debug", 'struct Dt<A, B, C>(#[debug("{_0:?}")] A, #[debug("{_1}")] B, #[debug("{_2:x}")] C);'))
    out.append(("Debug", 'enum De<A, B, C> { V { #[debug("{a:?}")] a: A, #[debug("{b}")] b: B }, W(#[debug("{_0:o}")] C, #[debug("{_1:e}")] A) }'))
    out.append(("Display", 'enum Dv<A, B, C> { #[display("{_0}")] P(A), #[display("{_0:?}")] Q(B), #[display("{x:x} {y:o}")] R { x: C, y: A } }'))
    out.append(("AsRef", "struct Ar { #[as_ref(str, [u8])] a: String, #[as_ref] b: Vec<u8>, #[as_ref(forward)] c: Box<i32> }"))
    out.append(("Into", "#[into(owned, ref(i64), ref_mut)] #[into(i128)] struct In(i32);"))
    # several attributes, the later ones listing several types each (merged lists)
    out.append(("Into", "#[into(i16)] #[into(i32, i64, i128)] #[into(ref(i8, i16), ref_mut(i8, i16, i32))] #[into(ref(i32, i64, i128))] struct In2(i8);"))
    out.append(("Into", "struct In3 { #[into(i16)] #[into(i32, i64, i128, u8, u16)] a: i8, b: u8 }"))
    out.append(("From", "enum Fb { #[from(i8)] #[from(i16, i32, u8, u16)] A(i64), #[from(bool)] #[from(char, f32)] B(String) }"))
    out.append(("From", "#[from(i8)] #[from(i16, i32, u8, u16)] struct Fs(i64);"))
    out.append(("AsRef", "struct Ar2 { #[as_ref(str)] #[as_ref([u8], String, std::ffi::OsStr, std::path::Path)] a: String }"))
    out.append(("AsMut", "struct Am2(#[as_mut(str)] #[as_mut(String, [u8], Vec<u8>)] String);".replace(", [u8], Vec<u8>", "")))
    out.append(("From", "enum Fa { #[from(i8, i16)] A(i32), #[from(u8, u16)] B(u32), #[from] C(bool), D(char) }"))
    # many items of ONE rarely taken code path (a qualified-self field type), next to items whose field types nest a type
    # parameter: a counter or cache that one path forgets to reset shows only after many such expansions in one process
    for j in range(20):
        out.append((["Display", "Debug", "LowerHex"][j % 3], f'#[{["display", "debug", "lower_hex"][j % 3]}("{{_0}}")] struct Qs{j}<T: Iterator>(<T as Iterator>::Item, u8);'))
    out.append(("Display", '#[display("{_0}")] struct Nb<T>(Box<T>);'))
    out.append(("Debug", "struct Nd<T>(Vec<T>, Option<T>, &'static T);"))
    out.append(("Display", '#[display("{a} {b}")] struct Nn<T, U> { a: Option<Box<T>>, b: std::rc::Rc<Vec<U>> }'))
    out.append(("From", "enum Fw<A, B> { P(Box<A>), Q(Box<B>), R(Box<A>, Box<B>) }"))
    out.append(("TryInto", "enum Tw { P(Box<i8>), Q(Box<u8>), R(Box<i8>, Box<u8>) }"))
    out.append(("TryInto", "enum E<T, U> { A(T), B(U), C(T, U), D(U, T), E0(u8), F(u16) }"))
    out.append(("From", "enum E { A(i8), B(i16), C(i32, i64), D { x: u8, y: u16 }, #[from(skip)] S(i8) }"))
    out.append(("Display", '#[display("{_variant}")] enum E<T, U> { A(T), #[display("{_0} {_1}")] B(U, T), C }'))
    # items of ONE derive that share their NAMES (variants, fields, types) in different orders and spellings: state keyed by a
    # name that outlives an expansion (an interner numbering names in first-seen order, a per-name memo) makes the later
    # item's output depend on which of the others came first
    pools = [["Low", "Mid", "High", "Unknown"], ["Unknown", "High", "Extra"], ["high", "LOW", "Mid", "unknown", "Extra"], ["Mid", "Low"]]
    for k, names in enumerate(pools):
        unit = f"enum Sh{k} {{ " + ", ".join(names) + " }"
        tup = f"enum St{k} {{ " + ", ".join(f"{n}({tys[(j * 5 + k) % len(tys)]})" for j, n in enumerate(names)) + " }"
        for d in ("FromStr", "IsVariant", "Display", "Debug"):
            out.append((d, unit))
        for d in ("IsVariant", "Unwrap", "TryUnwrap", "TryInto", "From", "Display", "Debug", "Add", "Not"):
            out.append((d, tup))
        fields = [n.lower() + ("_" if n.lower() in [m.lower() for m in names[:j]] else "") for j, n in enumerate(names)]
        named = f"struct Sn{k} {{ " + ", ".join(f"{f}: {tys[(j * 7 + k) % len(tys)]}" for j, f in enumerate(fields)) + " }"
        for d in ("Debug", "Constructor", "From", "Into", "Add", "Mul", "AddAssign", "Not", "Sum"):
            out.append((d, named))
    # degenerate items (no variants, no fields): arithmetic on counts (`len() - 1`) behaves differently with and without overflow
    # checks - the last process runs the harness built without them
    for d in ("Add", "Sub", "BitOr", "Mul", "Not", "Neg", "From", "TryInto", "IsVariant", "Unwrap", "TryUnwrap", "Display", "Debug", "FromStr", "Error", "TryFrom"):
        out.append((d, "#[try_from(repr)] enum Never {}" if d == "TryFrom" else "enum Never {}"))
    for d in ("Add", "Mul", "Not", "AddAssign", "MulAssign", "Sum", "Product", "Constructor", "From", "Into", "Debug", "Display", "Error"):
        out.append((d, "struct Nothing;"))
        out.append((d, "struct Nil();"))
        out.append((d, "struct Nul {}"))
    # DIFFERENT items with the SAME NAME (and, each being parsed on its own, the same line and column): a table kept per item name
    # or per source position across expansions answers for the wrong item
    same = ["enum Same { Int(i64), Str(String) }", "enum Same { Str(String), Int(i64), More(u8) }", "enum Same { Unit, Other }",
            "enum Same { Str(u8), Float(f32), Int(i8), Extra(u16) }"]
    for it in same:
        for d in ("IsVariant", "Unwrap", "TryUnwrap", "TryInto", "From", "Display", "Debug"):
            if "Unit" in it and d in ("Unwrap", "TryUnwrap", "TryInto", "From", "Display"):
                continue
            out.append((d, it))
    out.append(("FromStr", "enum Same { Unit, Other }"))
    out.append(("FromStr", "enum Same { Other, unit, UNIT }"))
    for it in ("struct Same { a: i32, b: u8 }", "struct Same { b: u8, a: i32, c: u16 }", "struct Same(i32, u8);", "struct Same(u8);"):
        for d in ("Debug", "Constructor", "From", "Into", "Add", "Not", "AddAssign", "Mul"):
            out.append((d, it))
    return out


PRIMS = {"i8", "i16", "i32", "i64", "i128", "isize", "u8", "u16", "u32", "u64", "u128", "usize", "bool", "char", "str", "f32", "f64"}


def twins(item):
    """an adversarial neighbour of an input for state shared between expansions: the same text with the roles of
    its names exchanged - a generic item without its parameter list (its parameters' names now denote concrete
    types), a non-generic item with the type names of its fields declared as parameters. Expansion is syntactic, so
    the twin need not type-check; a cache keyed by a field's spelling, name or position answers differently for it."""
    m = re.search(r"\b(struct|enum)\s+(r#)?(\w+)\s*", item)
    if not m:
        return []
    pos = m.end()
    if item[pos:pos + 1] == "<":
        depth = 0
        for j in range(pos, len(item)):
            if item[j] == "<":
                depth += 1
            elif item[j] == ">" and item[j - 1] != "-":
                depth -= 1
                if depth == 0:
                    return [item[:pos] + item[j + 1:]]
        return []
    words = []
    for w in re.findall(r"[A-Za-z_]\w*", item[pos:]):
        if (w in PRIMS or w[0].isupper()) and w not in words and w not in ("Self", m.group(3)):
            words.append(w)
    return [item[:pos] + "<" + ", ".join(words[:6]) + ">" + item[pos:]] if words else []


def rustc_level(chk, tier):
    """The real proc-macro in separate compiler processes, on the SAME items at DIFFERENT source positions: whitespace
    inserted before and between the items shifts every span's byte offsets (and line/column) and vanishes from the
    pretty-printed expansion, which must therefore stay the same, item by item. Besides two uniform shifts, every item is
    laid out so that a point inside it sits exactly on a power of ten (10^2 .. 10^6): the spans of the tokens before
    and after that point then differ in their NUMBER OF DIGITS, which is where an order or a name derived from a span's
    printed form changes."""
    import shlex
    import concurrent.futures as cf
    items = [(d, it) for d, it in special_inputs()]
    if tier == "quick":
        items = [x for k, x in enumerate(items) if k % 3 == 0 or x[0] == "Error"][:64]
    # different enums of ONE name whose identifier sits at ONE source position (the body of a macro invoked twice): a table
    # kept per (name, line, column) across expansions answers for the wrong enum - visible when the company changes
    items += [("@raw", "mk_same!(Int(i64), Str(String));"), ("@raw", "mk_same!(Str(String), Int(i64), More(u8));"),
              ("@raw", "mk_unit!(Low, High);"), ("@raw", "mk_unit!(High, Mid, Low, Extra);")]
    texts = [(f"mod m{i} {{ {it} }}" if d == "@raw" else f"mod m{i} {{ #[derive(derive_more::{d})] {it} }}") for i, (d, it) in enumerate(items)]
    head = ("#![allow(dead_code)]\n"
            "macro_rules! mk_same { ($($v:tt)*) => { #[derive(derive_more::IsVariant, derive_more::Unwrap, derive_more::TryUnwrap, derive_more::TryInto, derive_more::From)] pub enum Same { $($v)* } } }\n"
            "macro_rules! mk_unit { ($($v:tt)*) => { #[derive(derive_more::IsVariant, derive_more::FromStr, derive_more::Display)] pub enum Same { $($v)* } } }")

    def uniform(pad, order=None):
        """the items (each in its own module) in the given order - all of them in file order by default; a sub-list leaves
        the others out: the expansion of an item is the same whatever was expanded before it"""
        out = [head]
        for i in (order if order is not None else range(len(texts))):
            if pad:
                out.append(" " * (pad * (i % 7 + 1) * 13 + (997 if i == 0 else 0)))
            out.append(texts[i])
        return "\n".join(out) + "\nfn main() {}\n"
    dpath = vlib.write_probe("c19_rustc", uniform(0))
    env = vlib.cargo_env({"CARGO_TARGET_DIR": os.path.join(vlib.BUILD, "target-probe-nightly")})
    cmdline = None
    for attempt in range(2):
        p = subprocess.run(["cargo", "+nightly", "rustc", "--offline", "-v", "--", "-Zunpretty=expanded"], cwd=dpath, env=env,
                           stdout=subprocess.PIPE, stderr=subprocess.PIPE, timeout=1800)
        if p.returncode != 0 or not p.stdout:
            err = p.stderr.decode("utf-8", "replace")
            if "could not compile `c19_rustc`" in err and re.search(r"^error(\[E\d+\])?: ", err, re.M) and "could not compile `derive_more" not in err:
                # derive_more itself built; the items - each a valid input that expands alone - do not expand TOGETHER
                # (a derive panicked, or items expanded into clashing definitions): behaviour of the code under test
                first = re.search(r"^error(\[E\d+\])?: .*$", err, re.M).group(0)
                chk.deviation("rustc:together", "valid items that expand one by one do not expand in one compiler process: " + first[:300],
                              case={"items": len(texts)}, expected="every item expands as it does alone", observed=err[-1500:],
                              tags={"kind": "nondeterministic"})
                return
            raise vlib.ToolError(f"cargo rustc -Zunpretty=expanded failed: {err[-800:]}")
        for line in p.stderr.decode().splitlines():
            if line.strip().startswith("Running `") and "--crate-name c19_rustc" in line:
                cmdline = shlex.split(line.strip()[len("Running `"):-1])
        if cmdline:
            break
        os.utime(os.path.join(dpath, "src", "main.rs"))
    if not cmdline:
        raise vlib.ToolError("could not learn rustc's command line from cargo -v")
    keep = [cmdline[0], "--crate-name", "c19_rustc", "--edition=2021", "--crate-type", "bin", "-Zunpretty=expanded"]
    for j, a in enumerate(cmdline):
        if a == "-L" or a == "--extern":
            keep += [a, cmdline[j + 1]]

    def split(out):
        """per-module chunks of the pretty-printed expansion, blank lines and indentation dropped"""
        chunks, cur = {}, None
        for l in out.decode("utf-8", "replace").splitlines():
            m = re.match(r"^mod m(\d+) \{", l)
            if m:
                cur = int(m.group(1))
                chunks[cur] = []
            if l.startswith("fn main"):
                cur = None
            if cur is not None and l.strip():
                chunks[cur].append(l.strip())
        return chunks
    base = split(p.stdout)
    if len(base) != len(texts):    # (the base run has every item)
        raise vlib.ToolError(f"-Zunpretty=expanded: {len(base)} modules for {len(texts)} items")
    # layouts: (name, source text)
    layouts = [("shift:1", uniform(1)), ("shift:77", uniform(77)),
               # the same items in another COMPANY: reverse order, every second one only (either half)
               ("reversed", uniform(0, list(range(len(texts)))[::-1])), ("evens", uniform(0, list(range(0, len(texts), 2)))),
               ("odds", uniform(0, list(range(1, len(texts), 2)))), ("last_two_swapped", uniform(0, [len(texts) - 1, len(texts) - 2, len(texts) - 3, len(texts) - 4]))]
    bounds = [10 ** k for k in range(2, 7)]
    fracs = (0.5,) if tier == "quick" else (0.25, 0.5, 0.75)
    per_run = len(bounds)
    for f in fracs:
        for g0 in range(0, len(texts), per_run - 1):
            group = list(range(g0, min(g0 + per_run - 1, len(texts))))
            src, cur, gi = head + "\n", len(head) + 1, 0
            placed = []
            for B in bounds:
                if gi >= len(group):
                    break
                t = texts[group[gi]]
                if items[group[gi]][0] == "@raw":
                    gi += 1
                    continue
                off = t.index("] ") + 2
                piv = off + int((len(t) - off) * f)
                # move the pivot to a token boundary
                while piv < len(t) and t[piv] not in " ,:<>(){}":
                    piv += 1
                need = B - (cur + piv)
                if need < 0:
                    continue
                src += " " * need + t + "\n"
                cur += need + len(t) + 1
                placed.append((group[gi], B))
                gi += 1
            if placed:
                layouts.append((f"straddle:{f}:" + ",".join(f"m{i}@{B}" for i, B in placed), src + "fn main() {}\n"))
    ldir = os.path.join(vlib.WORK, "c19", "layouts")
    os.makedirs(ldir, exist_ok=True)

    def run_one(k):
        name, src = layouts[k]
        fp = os.path.join(ldir, f"l{k}.rs")
        with open(fp, "w") as fh:
            fh.write(src)
        q = subprocess.run(keep + [fp], cwd=dpath, env=env, stdout=subprocess.PIPE, stderr=subprocess.PIPE, timeout=600)
        os.remove(fp)
        if q.returncode != 0 or not q.stdout:
            raise vlib.ToolError(f"rustc -Zunpretty=expanded failed on layout {name}: {q.stderr.decode()[-800:]}")
        return split(q.stdout)
    with cf.ThreadPoolExecutor(max_workers=8) as ex:
        results = list(ex.map(run_one, range(len(layouts))))
    n_cmp, reported = 0, set()
    for (name, _), chunks in zip(layouts, results):
        for i, lines in chunks.items():
            n_cmp += 1
            if lines != base[i] and i not in reported:
                reported.add(i)
                a, b = base[i], lines
                first = next((n for n, (x, y) in enumerate(zip(a, b)) if x != y), min(len(a), len(b)))
                d, it = items[i]
                chk.deviation(f"rustc:shifted:{d}:{it[:100]}", "the same item expands differently when its position in the source file changes "
                              f"(layout {name}; first differing line: {a[first][:160] if first < len(a) else ''!r} vs {b[first][:160] if first < len(b) else ''!r})",
                              case={"derive": d, "item": it, "layout": name}, expected="the same -Zunpretty=expanded text",
                              observed="differs", tags={"kind": "nondeterministic", "derive": d})
    chk.cov["evaluations"] += n_cmp
    chk.cov["traces_validated_against_impl"] += n_cmp
    chk.notes["rustc_level"] = {"items": len(texts), "layouts": len(layouts), "item_expansions_compared": n_cmp}


FEATURE_OF = {"Mul": "mul", "Div": "mul", "Shl": "mul", "MulAssign": "mul_assign", "RemAssign": "mul_assign", "ShrAssign": "mul_assign",
              "TryInto": "try_into", "Error": "error", "FromStr": "from_str", "From": "from", "Debug": "debug", "Display": "display",
              "AsRef": "as_ref", "AsMut": "as_ref", "Into": "into"}


def per_feature_level(chk, tier):
    """C19 x C20: the expansion is the same in every compiler process ALSO when derive_more is built with a single
    feature (what is compiled in - helper modules, type aliases, hashers - depends on the feature set). For each chosen
    feature: derive_more with that feature alone (no std), the stress inputs of that feature's derives, one cargo build
    and then the same rustc command in fresh processes; outputs are compared item by item."""
    import shlex
    import concurrent.futures as cf
    feats = ["mul_assign", "try_into", "error"] if tier == "quick" else ["mul_assign", "try_into", "error", "mul", "from_str", "debug", "from"]
    runs = 3 if tier == "quick" else 6
    inputs = special_inputs()

    def one(feat):
        items = [(d, it) for d, it in inputs if FEATURE_OF.get(d) == feat][:24]
        if not items:
            return feat, 0, None
        src = "#![allow(dead_code)]\n" + "\n".join(f"mod m{i} {{ #[derive(derive_more::{d})] {it} }}" for i, (d, it) in enumerate(items)) + "\nfn main() {}\n"
        name = f"c19_feat_{feat}"
        dpath = vlib.write_probe(name, src, features=(feat,), default_features=False)
        env = vlib.cargo_env({"CARGO_TARGET_DIR": os.path.join(vlib.BUILD, f"target-c19f-{feat}")})
        cmdline, first = None, None
        for attempt in range(2):
            p = subprocess.run(["cargo", "+nightly", "rustc", "--offline", "-v", "--", "-Zunpretty=expanded"], cwd=dpath, env=env,
                               stdout=subprocess.PIPE, stderr=subprocess.PIPE, timeout=1800)
            if p.returncode != 0 or not p.stdout:
                raise vlib.ToolError(f"cargo rustc -Zunpretty=expanded failed for feature {feat}: {p.stderr.decode()[-800:]}")
            first = p.stdout
            for line in p.stderr.decode().splitlines():
                if line.strip().startswith("Running `") and f"--crate-name {name}" in line:
                    cmdline = shlex.split(line.strip()[len("Running `"):-1])
            if cmdline:
                break
            os.utime(os.path.join(dpath, "src", "main.rs"))
        if not cmdline:
            raise vlib.ToolError("could not learn rustc's command line from cargo -v")
        keep = [cmdline[0], "--crate-name", name, "--edition=2021", "--crate-type", "bin", "-Zunpretty=expanded", os.path.join(dpath, "src", "main.rs")]
        for j, a in enumerate(cmdline):
            if a in ("-L", "--extern"):
                keep += [a, cmdline[j + 1]]
        outs = [first]
        for _ in range(runs):
            q = subprocess.run(keep, cwd=dpath, env=env, stdout=subprocess.PIPE, stderr=subprocess.PIPE, timeout=600)
            if q.returncode != 0 or not q.stdout:
                raise vlib.ToolError(f"rustc -Zunpretty=expanded failed for feature {feat}: {q.stderr.decode()[-800:]}")
            outs.append(q.stdout)
        bad = None
        for o in outs[1:]:
            if o != outs[0]:
                a, b = outs[0].decode("utf-8", "replace").splitlines(), o.decode("utf-8", "replace").splitlines()
                n = next((n for n, (x, y) in enumerate(zip(a, b)) if x != y), min(len(a), len(b)))
                bad = (a[n][:200] if n < len(a) else "", b[n][:200] if n < len(b) else "")
                break
        return feat, len(items) * len(outs), bad
    with cf.ThreadPoolExecutor(max_workers=4) as ex:
        results = list(ex.map(one, feats))
    done = {}
    for feat, n, bad in results:
        chk.cov["evaluations"] += n
        chk.cov["traces_validated_against_impl"] += n
        done[feat] = n
        if bad:
            chk.deviation(f"rustc:feature:{feat}", f"with derive_more built with the feature `{feat}` alone, the same items expand differently in "
                          f"different compiler processes (first differing line: {bad[0]!r} vs {bad[1]!r})", case={"feature": feat},
                          expected="identical -Zunpretty=expanded output in every process", observed="differs",
                          tags={"kind": "nondeterministic", "feature": feat})
    chk.notes["per_feature_level"] = done


def run(chk, tier, seed, replay):
    chk.assumptions += ["fresh processes differ in their RandomState seeds (std), so a seeded hash collection shows as differing digests",
                        "digest = sha256 of the proc_macro2 token text of the expansion"]
    for v, expect_ok in (("fixed", True), ("seeded", False), ("stateful", False)):
        r = vlib.run_tlc("MC_Determinism", f"MC_Determinism_{v}", workers=2, timeout=600)
        chk.add_tlc(r, f"determinism model ({v})")
        if bool(r.ok) != expect_ok:
            raise vlib.ToolError(f"Determinism.tla ({v}): expected {'no error' if expect_ok else 'a violation'}, TLC says: {r.violation} {r.raw_tail[-600:]}")
    inputs = []
    for d, item in special_inputs():
        inputs.append((d, item))
    for key, decl, obs in CASES:
        for derives, item in split_items(decl):
            for d in derives:
                inputs.append((d, item))
    base = list(inputs)
    for d, it in base:
        for tw in twins(it):
            inputs.append((d, tw))
    chk.notes["twin_inputs"] = len(inputs) - len(base)
    reqs = [{"key": f"{i}", "derive": d, "item": it, "tokens": True} for i, (d, it) in enumerate(inputs)]
    if replay:
        want = json.load(open(replay))["case"]["input"]
        reqs = [x for x in reqs if x["key"] == str(want)]
    K = 4 if tier == "quick" else 16
    binp = vlib.build_inproc()
    # the LAST process runs the harness built without debug assertions / overflow checks (the proc-macro crate of a release
    # build): the tokens are a function of the derive input, not of the profile the macro crate was compiled with
    binp_noassert = vlib.build_inproc_noassert()
    K += 1
    rnd = random.Random(seed)
    events = []
    for pid in range(K):
        order = list(reqs)
        if pid % 4 == 1:
            order.reverse()
        elif pid % 4 >= 2:
            rnd.shuffle(order)
        # every fourth input is expanded twice in this process, the second time after everything else
        order = order + order[::4]
        inp = "\n".join(json.dumps(x) for x in order) + "\n"
        # the processes also differ in their ENVIRONMENT (toolchain variables, locale, time zone) and working directory:
        # an expansion is a function of the derive input, not of where and under which wrapper the compiler runs
        penv = dict(os.environ)
        for var in ("RUSTC_BOOTSTRAP", "RUSTUP_TOOLCHAIN", "CARGO", "RUSTC_WRAPPER", "CARGO_PKG_NAME", "CARGO_CRATE_NAME", "CARGO_BIN_NAME", "PROFILE", "DEBUG"):
            penv.pop(var, None)
        if pid % 4 == 1:
            # (a target that happens to be called like the crate itself: a user's tests/derive_more.rs)
            penv.update({"RUSTC_BOOTSTRAP": "1", "LANG": "tr_TR.UTF-8", "LC_ALL": "tr_TR.UTF-8", "CARGO_CRATE_NAME": "derive_more",
                         "CARGO_PKG_NAME": "derive_more", "CARGO_BIN_NAME": "derive_more"})
        elif pid % 4 == 2:
            penv.update({"RUSTUP_TOOLCHAIN": "nightly-x86_64-unknown-linux-gnu", "TZ": "Pacific/Kiritimati", "CARGO_PKG_NAME": "other", "PROFILE": "release"})
        elif pid % 4 == 3:
            penv.update({"RUSTUP_TOOLCHAIN": "stable-x86_64-unknown-linux-gnu", "RUSTC_BOOTSTRAP": "0", "CARGO_CRATE_NAME": "zz", "DEBUG": "true"})
        p = subprocess.run([binp_noassert if pid == K - 1 else binp, "expand"], input=inp.encode(), stdout=subprocess.PIPE, stderr=subprocess.PIPE, timeout=900, env=penv,
                           cwd=["/", os.path.expanduser("~"), vlib.WORK, "/tmp"][pid % 4])
        if p.returncode != 0:
            raise vlib.ToolError(f"harness exit {p.returncode}: {p.stderr.decode()[-400:]}")
        seq = 0
        for line in p.stdout.decode().splitlines():
            o = json.loads(line)
            if "begin" in o and len(o) == 1:
                continue
            text = o.get("tokens") if o["outcome"] == "ok" else (o["outcome"] + ":" + str(o.get("msg")))
            events.append({"id": len(events), "pid": pid, "seq": seq, "input": int(o["key"]),
                           "digest": hashlib.sha256((text or "").encode()).hexdigest()[:24]})
            seq += 1
    os.makedirs(os.path.join(vlib.WORK, "c19"), exist_ok=True)
    tpath = os.path.join(vlib.WORK, "c19", "trace.ndjson")
    with open(tpath, "w") as f:
        for e in events:
            f.write(json.dumps(e) + "\n")
    tr = vlib.run_tlc("Trace_Determinism", "Trace_Determinism", workers=1, timeout=1800, dfs=True, env={"TRACE": tpath}, xmx="4g")
    chk.add_tlc(tr, "trace validation of expansion digests")
    done = tr.tagged.get("DONE", [])
    if not done or done[0]["consumed"] != len(events):
        raise vlib.ToolError(f"trace not consumed: {tr.raw_tail[-1500:]}")
    chk.cov["evaluations"] += len(events)
    chk.cov["traces_validated_against_impl"] += len(events)
    chk.cov["distinct_nontrivial"] += len(special_inputs())
    chk.notes["processes"] = K
    chk.notes["inputs"] = len(reqs)
    chk.cov["exhaustive"] = False
    seen = set()
    for b in tr.tagged.get("BAD", []):
        if b["input"] in seen:
            continue
        seen.add(b["input"])
        d, it = inputs[b["input"]]
        chk.deviation(f"input:{d}:{it[:120]}", f"the same derive input expands to different token sequences (process {b['pid']}, position {b['seq']})",
                      case={"derive": d, "item": it, "input": b["input"]}, expected="identical tokens in every process / order",
                      observed=b, tags={"kind": "nondeterministic", "derive": d})
    chk.sample({"derive": inputs[0][0], "item": inputs[0][1][:300], "events": [e for e in events if e["input"] == 0][:4]})
    # rustc level: the real proc-macro in separate compiler processes, on the SAME items at DIFFERENT source positions
    # (whitespace of different lengths is inserted before and between the items: it shifts every span's byte offsets and
    # vanishes from the pretty-printed expansion, which must therefore stay byte-identical)
    if not replay:
        rustc_level(chk, tier)
        per_feature_level(chk, tier)
    chk.cov["rule"] = ("inputs: hashed-collection stress inputs + one per code path of every derive + a twin of each with the roles of "
                       "its names exchanged (generic <-> concrete); K fresh processes x orders x "
                       "repeats; non-trivial = inputs iterating hashed collections")
