"""C07 - enum-level format: wraps via `_variant`, otherwise is only a default.

M : TLC checks FmtShared.tla (the property's rule vs the transcription of shared_attr_info/generate_body)
    on every enum of <= MaxVariants variants x 14 enum-level forms x derived trait.
R : every enum becomes a real enum; the text of every variant value is compared with the text the
    specification's DocText prescribes; enums the specification rejects must fail to compile.
"""
import json
import os

import vlib
from vlib import log

LET = {"Display": "", "Debug": "?", "LowerHex": "x", "UpperHex": "X", "Octal": "o", "Binary": "b", "LowerExp": "e", "UpperExp": "E", "Pointer": "p"}
ATTR = {"Display": "display", "Debug": "debug", "LowerHex": "lower_hex", "UpperHex": "upper_hex", "Octal": "octal", "Binary": "binary",
        "LowerExp": "lower_exp", "UpperExp": "upper_exp", "Pointer": "pointer"}
VALS = {"t1": [255], "n1": [254], "t2": [255, 253], "unit": []}
PRELUDE = r'''
// Pointer: the fields hold the addresses of these statics; in the observed text the addresses are replaced by P0 / P1 / P2
pub static K0: i32 = 255; pub static K1: i32 = 253; pub static K2: i32 = 254;
pub fn unptr(s: String) -> String { s.replace(&format!("{:p}", &K0), "P0").replace(&format!("{:p}", &K1), "P1").replace(&format!("{:p}", &K2), "P2") }
pub fn report(k: &str, outs: &[String]) {
    let o: Vec<String> = outs.iter().map(|s| format!("{:?}", s)).collect();
    println!("OBS {{\"k\": {:?}, \"outs\": [{}]}}", k, o.join(", "));
}
'''


def ph(name, D):
    return "{" + name + (":" + LET[D] if LET[D] else "") + "}"


def own_attr(v, D):
    a = ATTR[D]
    k, o = v["kind"], v["own"]
    f0 = "x" if k == "n1" else "_0"
    if o == "none":
        return f'#[{a}(rename_all = "UPPERCASE")] ' if v.get("vr") else ""
    if o == "text":
        return f'#[{a}("txt")] '
    if o == "bare":
        return f'#[{a}({vlib.rust_lit(ph(f0, D), "own" + D + k)})] '
    if k == "unit":
        return f'#[{a}("V {{}}", 1)] '
    if k == "t2":
        return f'#[{a}("V {ph("_0", D)} {ph("_1", D)}")] '
    return f'#[{a}({vlib.rust_lit("V " + ph(f0, D), "ownV" + D + k)})] '


def shared_attr(s, D):
    a = ATTR[D]
    f0 = ph("_0", D)
    m = {"none": "", "variant": '"{_variant}"', "wrap": '"[{_variant}]"', "twice": '"{_variant}-{_variant}"',
         "pos_arg": '"[{}]", _variant', "pos_arg_bare": '"{}", _variant', "alias": '"[{v}]", v = _variant',
         "alias_bare": '"{v}", v = _variant', "text": '"shared"', "field": f'"f:{f0}"',
         "variant_field": f'"{{_variant}}/{f0}"', "dbg": '"{_variant:?}"', "padded": '"{_variant:>5}"',
         "pos_dbg": '"{:?}", _variant', "twice_padded": '"{_variant}|{_variant:>6}"', "alias_dbg": '"{v:?}", v = _variant',
         # a positional placeholder may land on an argument that carries an alias (format_args! counts every argument)
         "pos_after_alias": '"[{}]", v = _variant',
         # one bare placeholder that is not `_variant`: still only a default for variants without an attribute
         "signed": '"{_variant:+}"', "alt": '"{:#}", _variant', "prec": '"[{v:.2}]", v = _variant',
         "bare_expr": '"{}", 7 + 1', "bare_field": f'"{f0}"', "bare_alias_expr": '"{n}", n = 7 + 1'}[s]
    return f"#[{a}({vlib.respell(m, s + D)})]\n" if m else ""


def variant_decl(i, v, D):
    k = v["kind"]
    body = {"unit": "", "t1": "(i32)", "n1": " { x: i32 }", "t2": "(i32, i32)"}[k]
    if D == "Pointer":
        body = body.replace("i32", "&'static i32")
    return f"{own_attr(v, D)}Va{i}{body}"


def value(i, v, D=None):
    k = v["kind"]
    if D == "Pointer":
        return {"unit": f"En::Va{i}", "t1": f"En::Va{i}(&K0)", "n1": f"En::Va{i} {{ x: &K2 }}", "t2": f"En::Va{i}(&K0, &K1)"}[k]
    return {"unit": f"En::Va{i}", "t1": f"En::Va{i}(255)", "n1": f"En::Va{i} {{ x: 254 }}", "t2": f"En::Va{i}(255, 253)"}[k]


def show(n, D):
    if D == "Pointer":
        return {255: "P0", 253: "P1", 254: "P2"}[n]
    if D in ("LowerExp", "UpperExp"):
        m = ("%e" % n).split("e")[0].rstrip("0").rstrip(".")      # 255 -> 2.55e2
        e = len(str(n)) - 1
        return f"{m}{'e' if D == 'LowerExp' else 'E'}{e}"
    return {"LowerHex": format(n, "x"), "UpperHex": format(n, "X"), "Octal": format(n, "o"), "Binary": format(n, "b")}.get(D, str(n))


def expected(tokens, i, v, D):
    out = []
    for t in tokens:
        if t.startswith("T:"):
            out.append(t[2:])
        elif t == "NAME":
            out.append(f"Va{i}")
        elif t == "NAME_L":
            out.append(f"va{i}")
        elif t == "NAME_U":
            out.append(f"VA{i}")
        elif t == "F0":
            out.append(show(VALS[v["kind"]][0], D))
        elif t == "F1":
            out.append(show(VALS[v["kind"]][1], D))
        else:
            raise ValueError(t)
    return "".join(out)


def key_of(c):
    return f"{c['D']}|{c['s']}|{'lower|' if c['er'] == 'lower' else ''}" + ",".join(
        f"{v['kind']}:{v['own']}{'^' if v['vr'] else ''}" for v in c["vs"])


def decl(c):
    D = c["D"]
    vs = ", ".join(variant_decl(i, v, D) for i, v in enumerate(c["vs"]))
    ren = f'#[{ATTR[D]}(rename_all = "lowercase")]\n' if c["er"] == "lower" else ""
    return f"#[derive(derive_more::{D})]\n{shared_attr(c['s'], D)}{ren}pub enum En {{ {vs} }}"


def module(c, key):
    D = c["D"]
    outs = ", ".join(('unptr(format!("{:%s}", %s))' if D == "Pointer" else 'format!("{:%s}", %s)') % (LET[D], value(i, v, D))
                     for i, v in enumerate(c["vs"]))
    return f"use super::*;\n{decl(c)}\npub fn run() {{ report({json.dumps(key)}, &[{outs}]); }}"


def run(chk, tier, seed, replay):
    chk.assumptions += ["variant shapes: unit, one tuple field, one named field, two tuple fields; own attribute: none, "
                        "text+fields, bare field placeholder, text only, rename_all (unit variants); 14 enum-level forms x enum-level "
                        "rename_all; field values are integers"]
    r = vlib.run_tlc("MC_FmtShared", f"MC_FmtShared_{tier}", workers=8, timeout=1800, xmx="6g")
    chk.add_tlc(r, "enums x shared forms x traits")
    if not r.ok:
        raise vlib.ToolError(f"TLC: {r.violation}\n{r.raw_tail[-1500:]}")
    cases = {}
    for c in r.cases:
        D = c["D"]
        if D == "Debug" and c["s"] == "none":
            continue   # attribute-less derive_more::Debug is C06's subject
        if D != "Display" and any(v["kind"] == "unit" and v["own"] == "none" for v in c["vs"]):
            continue   # implicit unit variants are documented for Display only
        cases[key_of(c)] = c
    if replay:
        want = json.load(open(replay))["key"]
        cases = {k: v for k, v in cases.items() if k == want}
    chk.cov["exhaustive"] = not replay
    if tier == "quick" and not replay:
        # every 1-variant enum + a seeded third of the 2-variant ones (Display, Debug); the other seven traits share the
        # code path of Display up to the placeholder letter: their 1-variant enums
        cases = {k: c for k, c in cases.items() if len(c["vs"]) < 2 or (c["D"] in ("Display", "Debug") and vlib.seeded_pick(k, seed, 3) == 0)}
    elif not replay:
        cases = {k: c for k, c in cases.items() if len(c["vs"]) < 3 or vlib.seeded_pick(k, seed, 8) == 0}
    acc_keys = vlib.cap_cases([k for k, c in cases.items() if not c["reject"]], seed, 8000 if tier == "quick" else 24000,
                              keep=lambda k: len(cases[k]["vs"]) < 2)
    acc = [(k, module(c, k)) for k, c in cases.items() if k in acc_keys]
    rej = [(k, "use super::*;\n" + decl(c)) for k, c in cases.items() if c["reject"]]
    log(f"[C07] {len(acc)} accepted enums, {len(rej)} rejected enums")
    nsh = 4 if tier == "quick" else 8
    shards = [acc[i::nsh] for i in range(nsh)]
    import concurrent.futures as cf

    def build(i):
        if not shards[i]:
            return {}, {}, None
        return vlib.run_case_crate(f"c07_{i}", shards[i], prelude=PRELUDE, features=("display", "debug"),
                                   target_dir=os.path.join(vlib.BUILD, f"target-c07-{i}"))
    with cf.ThreadPoolExecutor(max_workers=nsh) as ex:
        results = list(ex.map(build, range(nsh)))
    nontriv = 0
    for i, (obs, failed, br) in enumerate(results):
        for k, _ in shards[i]:
            c = cases[k]
            chk.cov["evaluations"] += len(c["vs"])
            if c["s"] != "none":
                nontriv += 1
            if k in failed:
                chk.deviation(k, "an enum the rule accepts does not compile: " + failed[k][0]["message"][:200],
                              case={"decl": decl(c)}, expected=c["doc"], observed=failed[k][:3], tags={"kind": "compile_error"})
                continue
            o = obs.get(k)
            if o is None or o.get("crashed"):
                chk.deviation(k, "no observation", case={"decl": decl(c)}, expected=c["doc"], observed=o, tags={"kind": "crash"})
                continue
            want = [expected(c["doc"][j], j, v, c["D"]) for j, v in enumerate(c["vs"])]
            if o["outs"] != want:
                chk.deviation(k, f"variants print {o['outs']}, the rule prescribes {want}", case={"decl": decl(c)},
                              expected=want, observed=o["outs"], tags={"kind": "text"})
            if len(chk.cov["samples"]) < 4 and c["s"] in ("wrap", "alias", "field"):
                chk.sample({"decl": decl(c), "expected": want, "observed": o["outs"]})
        chk.cov["traces_validated_against_impl"] += len(shards[i])
    chk.cov["distinct_nontrivial"] += nontriv
    if rej:
        sel = vlib.cap_cases([k for k, _ in rej], seed, 4000 if tier == "quick" else 12000)
        rej = [x for x in rej if x[0] in sel]
        per, br = vlib.verdict_crate_sharded("c07_reject", rej, 4 if tier == "quick" else 8, prelude=PRELUDE, features=("display", "debug"))
        for k, _ in rej:
            chk.cov["evaluations"] += 1
            if not [d for d in per[k] if d["level"] == "error"]:
                chk.deviation(k, "an enum the rule rejects compiles", case={"decl": decl(cases[k])},
                              expected="compile error", observed="compiled", tags={"kind": "reject_accepted"})
        chk.cov["traces_validated_against_impl"] += len(rej)
    chk.cov["rule"] = ("enums of <= MaxVariants variants (4 shapes x 4 own-attribute forms) x 14 enum-level forms x derived "
                       "trait; non-trivial = an enum-level attribute is present")
