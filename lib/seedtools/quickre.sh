#!/bin/bash
# quickre.sh <name> <checks,comma> : re-apply a kept patch to /repo under the repo lock and run quick checks
name=$1; checks=$2
cd /verif
exec 9>/tmp/seed/repo.lock; flock 9
git -C /repo apply /verif/seeded/$name/patch.diff || { echo "APPLY FAIL $name"; exit 2; }
det=""
for c in ${checks//,/ }; do
  out=$(VERIF_WORK_DIR=/verif/work/sv VERIF_OUT_DIR=/verif/work/sv_out ./check $c --tier quick 2>&1 | grep -E "^(VIOLATION|OK|TOOL-ERROR)" | head -2 | tr '\n' ' ')
  echo "  $name $c: $out"
  case "$out" in *VIOLATION*) det="$det $c";; esac
done
git -C /repo checkout -- .
echo "$name detected_by:$det"
