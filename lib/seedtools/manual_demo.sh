#!/bin/bash
# manual_demo.sh <ID> <demo command>: rc without / with the patch, at /repo's HEAD
id=$1; shift
wt=/tmp/seed/$id
cd $wt && git reset -q --hard && git clean -fdq && git checkout -q --detach $(git -C /repo rev-parse HEAD)
rm -rf $wt/demo && cp -r /tmp/seed/$id.out/demo $wt/demo && rm -rf $wt/demo/target
export CARGO_TARGET_DIR=$wt/target CARGO_NET_OFFLINE=true
(cd $wt/demo && eval "$@" > /tmp/seed/$id.demo_without.log 2>&1); a=$?
git -C $wt apply /tmp/seed/$id.out/patch.diff || echo "PATCH DOES NOT APPLY"
(cd $wt/demo && eval "$@" > /tmp/seed/$id.demo_with.log 2>&1); b=$?
echo "$id demo: without patch rc=$a, with patch rc=$b"
git -C $wt reset -q --hard; rm -rf $wt/target $wt/demo/target
