#!/bin/bash
# recheck.sh <name> <checks,comma>: run quick checks against the seed's worktree (HEAD + patch) via VERIF_REPO
name=$1; checks=$2
cd /verif
wt=/tmp/seed/$name
head=$(git -C /repo rev-parse HEAD)
git -C $wt reset -q --hard; git -C $wt clean -fdq; git -C $wt checkout -q --detach $head; cp /repo/Cargo.lock $wt/
git -C $wt apply /verif/seeded/$name/patch.diff || { echo "APPLY FAIL $name"; exit 2; }
det=""
for c in ${checks//,/ }; do
  out=$(VERIF_REPO=$wt VERIF_BUILD_DIR=/tmp/seed/$name.build VERIF_WORK_DIR=/tmp/seed/$name.work VERIF_OUT_DIR=/tmp/seed/$name.vout ./check $c --tier quick 2>&1 | grep -E "^(VIOLATION|OK|TOOL-ERROR)" | head -2 | cut -c1-200 | tr '\n' ' ')
  echo "  $name $c: $out"
  case "$out" in *VIOLATION*) det="$det $c";; esac
done
rm -rf /tmp/seed/$name.build /tmp/seed/$name.work
echo "$name redetected_by:$det" | tee -a /tmp/seed/recheck.log
