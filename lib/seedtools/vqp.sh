#!/bin/bash
# parallel daemon: lines "<PROP> <name> <checks>" in /tmp/seed/queue.txt; up to $1 jobs at once (VERIF_REPO isolation, no lock)
N=${1:-3}
cd /verif
touch /tmp/seed/queue.txt /tmp/seed/queue.started
while true; do
  [ -f /tmp/seed/queue.stop ] && exit 0
  running=$(jobs -rp | wc -l)
  if [ "$running" -lt "$N" ]; then
    line=$(grep -vxFf /tmp/seed/queue.started /tmp/seed/queue.txt | head -1)
    if [ -n "$line" ]; then
      echo "$line" >> /tmp/seed/queue.started
      set -- $line
      ( python3 lib/seedverify.py $1 $2 $3 > /tmp/seed/$2.verify.log 2>&1
        echo "$2 detected_by: $(python3 -c "import json;print(json.load(open('/verif/seeded/$2/meta.json')).get('detected_by'))" 2>/dev/null) demo: $(grep '^demo:' /tmp/seed/$2.verify.log)" >> /tmp/seed/verify_round.log ) &
      continue
    fi
  fi
  sleep 5
done
