#!/usr/bin/env python3
"""mkprompts.py <round-letter>: one prompt per property with the summaries of all earlier changes for it"""
import json, glob, os, sys
r = sys.argv[1]
tmpl = open('/tmp/seed/PROMPT.tmpl').read()
props = [json.loads(l) for l in open('/verif/properties.jsonl')]
for p in props:
    pid = p['id']
    name = pid + r
    text = f"{pid}: {p['title']}\n\n{p['statement']}\n\nQuantified over: {p['quantifier']['text']}"
    hist = []
    for m in sorted(glob.glob(f'/verif/seeded/{pid}*/meta.json')):
        d = json.load(open(m))
        s = d.get('summary') or ''
        if s:
            hist.append('- ' + s[:400].replace('\n', ' '))
    prompt = tmpl.replace('@ID@', name).replace('@PROP@', text)
    if hist:
        prompt += ("\n\nOther engineers have ALREADY tried the following changes for this property (all are known). Choose a DIFFERENT "
                   "function, mechanism and kind of input - something none of these resemble; look at parts of the code base these do not touch "
                   "(including the facade crate `src/`, helper modules, feature gating, generics handling, attribute parsing, and rarely used derive options):\n"
                   + "\n".join(hist))
    open(f'/tmp/seed/{name}.prompt.txt', 'w').write(prompt)
    print(name, len(prompt))
