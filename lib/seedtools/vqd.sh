#!/bin/bash
# daemon: processes lines "<PROP> <name> <checks>" appended to /tmp/seed/queue.txt, one at a time
cd /verif
touch /tmp/seed/queue.txt /tmp/seed/queue.done
while true; do
  line=$(grep -vxFf /tmp/seed/queue.done /tmp/seed/queue.txt | head -1)
  if [ -z "$line" ]; then sleep 10; [ -f /tmp/seed/queue.stop ] && exit 0; continue; fi
  set -- $line
  flock /tmp/seed/repo.lock python3 lib/seedverify.py $1 $2 $3 > /tmp/seed/$2.verify.log 2>&1
  echo "$2 detected_by: $(python3 -c "import json;print(json.load(open('/verif/seeded/$2/meta.json')).get('detected_by'))" 2>/dev/null)" >> /tmp/seed/verify_round11.log
  echo "$line" >> /tmp/seed/queue.done
done
