#!/usr/bin/env python3
"""mktable.py <thorough-log>...: markdown table of the measured quick (evidence/*.json of the last quick run) and thorough
(lines `Cxx exit=N wall=Ns OK ... evaluations=M ...` of the given logs, the last line per property wins) tiers"""
import json, re, sys, os
V = os.path.dirname(os.path.dirname(os.path.abspath(__file__)))
thor = {}
for f in sys.argv[1:]:
    for l in open(f):
        m = re.match(r"(C\d\d) exit=(\d+) wall=(\d+)s (\w+).*?evaluations=(\d+)", l)
        if m:
            rss = re.search(r"Maximum resident set size \(kbytes\): (\d+)", l)
            thor[m.group(1)] = (int(m.group(2)), int(m.group(3)), int(m.group(5)), int(rss.group(1)) // 1024 if rss else 0)
print("| property | quick: wall, evaluations, TLC states | thorough: wall, evaluations, peak RSS | result |")
print("|---|---|---|---|")
for i in range(1, 21):
    p = f"C{i:02d}"
    e = json.load(open(os.path.join(V, "evidence", p + ".json")))
    c = e["coverage"]
    t = thor.get(p)
    ts = f"{t[1]} s, {t[2]:,}, {t[3]:,} MB" if t else "-"
    res = "held" if (e.get("violations", 0) == 0 and (not t or t[0] == 0)) else "see text"
    print(f"| {p} | {e.get('wall_s', 0):.0f} s, {c.get('evaluations', 0):,}, {c.get('states', 0):,} | {ts} | {res} |")
