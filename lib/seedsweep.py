#!/usr/bin/env python3
"""Regression sweep: every kept seeded change is re-applied to a scratch worktree at /repo's HEAD and the checks that
are recorded as catching it are run again (VERIF_REPO on the worktree). Writes seeded/SWEEP.json.
usage: python3 lib/seedsweep.py [name ...]"""
import glob
import json
import os
import subprocess
import sys
import time

VERIF = os.path.dirname(os.path.dirname(os.path.abspath(__file__)))
WT = "/tmp/seedsweep/wt"


def sh(cmd, **kw):
    return subprocess.run(cmd, shell=True, stdout=subprocess.PIPE, stderr=subprocess.STDOUT, text=True, **kw)


def main():
    names = sys.argv[1:] or sorted(os.path.basename(d) for d in glob.glob(os.path.join(VERIF, "seeded", "C*")))
    head = sh("git -C /repo rev-parse HEAD").stdout.strip()
    os.makedirs("/tmp/seedsweep", exist_ok=True)
    sh(f"git -C /repo worktree remove --force {WT}; git -C /repo worktree prune; git -C /repo worktree add --detach {WT} {head}")
    out_path = os.path.join(VERIF, "seeded", "SWEEP.json")
    res = json.load(open(out_path)) if os.path.exists(out_path) and sys.argv[1:] else {}
    for name in names:
        d = os.path.join(VERIF, "seeded", name)
        meta = json.load(open(os.path.join(d, "meta.json")))
        checks = meta.get("detected_by") or []
        if isinstance(checks, str):
            checks = [c.strip(" '[]") for c in checks.split(",") if c.strip(" '[]")]
        sh(f"git -C {WT} reset -q --hard; git -C {WT} clean -fdq; git -C {WT} checkout -q --detach {head}; cp /repo/Cargo.lock {WT}/")
        a = sh(f"git -C {WT} apply {d}/patch.diff")
        entry = {"repo_head": head, "applies": a.returncode == 0, "checks": {}}
        if a.returncode != 0:
            entry["note"] = "the stored patch no longer applies to /repo's HEAD (a later fix: commit touches the same lines): " + a.stdout[-200:]
        elif not checks:
            entry["note"] = "recorded as not detected"
        else:
            for c in checks:
                env = dict(os.environ, VERIF_REPO=WT, VERIF_BUILD_DIR="/tmp/seedsweep/build", VERIF_WORK_DIR="/tmp/seedsweep/work",
                           VERIF_OUT_DIR="/tmp/seedsweep/out")
                t0 = time.time()
                p = subprocess.run([os.path.join(VERIF, "check"), c, "--tier", "quick"], cwd=VERIF, env=env, stdout=subprocess.PIPE,
                                   stderr=subprocess.STDOUT, text=True)
                entry["checks"][c] = {"exit": p.returncode, "violations": p.stdout.count("VIOLATION property="), "wall_s": round(time.time() - t0, 1)}
        res[name] = entry
        print(name, entry["applies"], entry["checks"], entry.get("note", "")[:80], flush=True)
        json.dump(res, open(out_path, "w"), indent=1)
    sh(f"git -C /repo worktree remove --force {WT}; git -C /repo worktree prune; rm -rf /tmp/seedsweep")


if __name__ == "__main__":
    main()
