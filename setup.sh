#!/bin/sh
# Build the in-process harness from /repo's working tree and warm the probe target dir (offline).
set -e
cd "$(dirname "$0")"
export CARGO_NET_OFFLINE=true
mkdir -p work build evidence replays
cp -f "${VERIF_REPO:-/repo}/Cargo.lock" harness/inproc/Cargo.lock
(cd harness/inproc && cargo build --offline -q 2>&1 | grep -v '^warning\|^ *|\|^ *=\|^ *-->\|^$' || true)
(cd harness/inproc && cargo build --offline -q --profile noassert 2>&1 | grep -v '^warning\|^ *|\|^ *=\|^ *-->\|^$' || true)
test -x build/target-inproc/debug/dm_inproc
test -x build/target-inproc/noassert/dm_inproc
python3 - <<'PY'
import sys, os
sys.path.insert(0, "lib")
import vlib
d = vlib.write_probe("warm", "use derive_more::Display;\n#[derive(Display)] struct S(i32);\nfn main(){ println!(\"{}\", S(1)); }\n")
r = vlib.cargo_build(d)
assert r.ok, r.raw
PY
echo setup ok
